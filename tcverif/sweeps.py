"""Package-wide sweeps for the thorough tier: the same rule families as the anchored checks, applied to every function
of the package.  A sweep reports only *must*-facts and only as evidence (lists), it never raises an alarm by itself:
constructs outside the anchors that deserve an alarm are promoted to rules with an anchor and a floor."""
from __future__ import annotations

import ast

from .effects import FS_MUTATING, Effects, is_preexisting
from .model import src
from .namekinds import NameKinds, mentions_separator, textual_tests
from .terms import pretty
from .types import Ctx


def sweep(A, prop: str) -> dict:
    out = {}
    E = getattr(A, '_effects', None) or Effects(A.typer, A.sym)
    A._effects = E
    # 1. every function with a mutating file-system primitive of its own (who may write)
    writers = {}
    stateful = {}
    for ctx in A.typer.contexts():
        f = ctx.func
        own = [n for n in A.typer.own_nodes(f) if isinstance(n, ast.Call)]
        for n in own:
            for kind, pexpr, pexpr2, detail in E.primitive(n, ctx):
                if kind in FS_MUTATING:
                    writers.setdefault(f.short, set()).add(f'{kind}:{detail}')
    out['functions_with_own_fs_mutation'] = {k: sorted(v) for k, v in sorted(writers.items())}
    # 2. every textual test between structured names in the package
    NK = NameKinds(A)
    tests = []
    for f in A.prog.functions.values():
        for node, op, X, Y, kx, ky in textual_tests(A, NK, f):
            tests.append({'function': f.short, 'test': src(node)[:80], 'separator_aware': mentions_separator(Y)})
    out['structured_name_tests'] = tests
    # 3. functools caches and module-level mutable state anywhere in the package
    caches = [f.short for f in A.prog.functions.values() if any(d.split('.')[-1] in ('lru_cache', 'cache', 'cached_property') for d in f.decorators)]
    out['functools_caches'] = caches
    mutable_globals = []
    for m in A.prog.modules.values():
        for name, val in m.globals.items():
            if isinstance(val, (ast.Dict, ast.List, ast.Set)) or (isinstance(val, ast.Call) and src(val.func).split('.')[-1] in ('dict', 'list', 'set', 'defaultdict', 'OrderedDict')):
                mutable_globals.append(f'{m.name}.{name}')
    out['module_level_mutable_containers'] = mutable_globals
    # 4. unresolved receivers (what the typed call graph could not see)
    cg = A.cg
    out['unresolved_member_attribute_sites'] = sorted({f'{c.func.short}: {src(n)[:50]}' for c, n in cg.unresolved_attrs})[:60]
    out['unknown_call_sites'] = sorted({f'{c.func.short}: {nm}' for c, n, nm in cg.unknown_calls})[:80]
    return out
