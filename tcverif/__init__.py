"""tcverif - repository-specific static analysis deciding structural clauses of properties C01-C20
of flowerchecker/taskchain.  Nothing in here imports or executes taskchain: /repo is only parsed."""
