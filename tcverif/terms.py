"""Symbolic term engine: maps string/path-valued expressions and whole functions to normalised terms.

A term is a nested tuple.  Tags:
  lit v | self | p name | var id | attr t name | cat (t..) | str t | repr t | join sep seq | map vars body seq guard
  mapdict vars k v seq guard | sorted seq key | items d | keys d | values d | call name (args) | method t name (args)
  slice t lo hi | index t i | cond c a b | cmp op a b | not c | and (c..) | or (c..) | isinst t cls | pathjoin a b
  list (t..) | tuple (t..) | dict ((k,v)..) | lam (params) body | rec name (args) | user name recv (args)
  dispatch name ((cls, t)..) | union (t..) | opaque text | bottom | closure qualname
`opaque` poisons only comparisons that touch it.  `bottom` is a path that raises.
"""
from __future__ import annotations

import ast
import hashlib
import itertools
import json
from typing import Dict, List, Optional, Tuple

from .model import ClassInfo, FuncInfo, Program, _dotted, src
from .types import Ctx, Target, Typer, STR

BOTTOM = ('bottom',)
NONE_T = ('lit', None)
MAX_DEPTH = 12


def lit(v):
    return ('lit', v)


def opaque(node_or_text):
    t = node_or_text if isinstance(node_or_text, str) else src(node_or_text)
    return ('opaque', t)


def is_opaque(t) -> bool:
    return isinstance(t, tuple) and t and t[0] == 'opaque'


def contains(t, pred) -> bool:
    if pred(t):
        return True
    if isinstance(t, tuple):
        return any(contains(x, pred) for x in t if isinstance(x, tuple))
    return False


def subterms(t):
    yield t
    if isinstance(t, tuple):
        for x in t:
            if isinstance(x, tuple):
                yield from subterms(x)


def has_opaque(t) -> bool:
    return contains(t, lambda x: len(x) > 0 and x[0] == 'opaque')


STRINGY = {'cat', 'str', 'repr', 'join'}
_STR_METHODS_STR = {'replace', 'lower', 'upper', 'strip', 'lstrip', 'rstrip', 'format', 'hexdigest', 'decode', 'removeprefix', 'removesuffix', 'title'}


def is_stringy(t) -> bool:
    k = t[0]
    if k == 'lit':
        return isinstance(t[1], str)
    if k in STRINGY:
        return True
    if k == 'slice':
        return is_stringy(t[1])
    if k == 'cond':
        return is_stringy(t[2]) and is_stringy(t[3])
    if k == 'method' and t[2] in _STR_METHODS_STR:
        return True
    if k == 'call' and t[1] in ('re.sub',):
        return True
    return False


class _Env:
    """Variable environment with parent chain (closures)."""

    def __init__(self, parent=None):
        self.vars: Dict[str, tuple] = {}
        self.parent = parent

    def get(self, name):
        e = self
        while e is not None:
            if name in e.vars:
                v = e.vars[name]
                if v[0] == '#alias':
                    # `a = self.x = []`: one object under two names; reads and in-place changes go to the primary name
                    return e.get(v[1]) if v[1] != name else None
                return v
            e = e.parent
        return None

    def has(self, name):
        return self.get(name) is not None

    def set(self, name, t):
        self.vars[name] = t

    def setdeep(self, name, t):
        """Assign to the scope that owns the name (closures mutate outer accumulators)."""
        e = self
        while e is not None:
            if name in e.vars:
                if e.vars[name][0] == '#alias' and e.vars[name][1] != name:
                    e.setdeep(e.vars[name][1], t)
                    return
                e.vars[name] = t
                return
            e = e.parent
        self.vars[name] = t

    def copy(self):
        e = _Env(self.parent)
        e.vars = dict(self.vars)
        return e


class _Frame:
    """One function activation during symbolic evaluation."""

    resolve_locals = False

    def __init__(self, ctx: Ctx, self_term, self_cls: Optional[ClassInfo], depth: int):
        self.ctx = ctx
        self.self_term = self_term
        self.self_cls = self_cls
        self.depth = depth


_uid = itertools.count()


class Sym:
    def __init__(self, typer: Typer):
        self.typer = typer
        self.prog: Program = typer.prog
        self._stack: List[Tuple] = []
        self.stop_at: set = set()  # qualnames of functions that are referenced (`ref`) instead of inlined
        self.inlined: set = set()  # qualnames of functions inlined during evaluation (evidence)

    # ================================================================== public API
    def func_term(self, func: FuncInfo, recv=None, args: Optional[Dict[str, tuple]] = None, self_term=('self',)) -> tuple:
        """Return-value term of `func` under receiver recv = ('inst'|'cls', ClassInfo) with parameters as ('p', name) holes."""
        ctx = Ctx(func, recv)
        env = _Env()
        first = True
        for p in func.params:
            if first and func.cls is not None and func.parent is None and not func.is_static and recv is not None:
                env.set(p, self_term)
                first = False
                continue
            first = False
            env.set(p, (args or {}).get(p, ('p', p)))
        fr = _Frame(ctx, self_term if recv is not None else None, recv[1] if recv else None, 0)
        self._stack.append(('func', func.qualname, recv[1].qualname if recv else None))
        try:
            t = self._run_func(func, env, fr)
        finally:
            self._stack.pop()
        return normalise(t)

    def expr_term(self, node, ctx: Ctx, env: Optional[Dict[str, tuple]] = None, self_term=('self',)) -> tuple:
        e = _Env()
        f = ctx.func
        first = True
        root = f
        while root.parent is not None:
            root = root.parent
        for fn in self._func_chain(f):
            for i, p in enumerate(fn.params):
                if fn is root and i == 0 and root.cls is not None and not root.is_static and ctx.recv is not None:
                    e.set(p, self_term)
                else:
                    e.set(p, ('p', p))
        for k, v in (env or {}).items():
            e.set(k, v)
        fr = _Frame(ctx, self_term if ctx.recv is not None else None, ctx.recv[1] if ctx.recv else None, 0)
        fr.resolve_locals = True
        return normalise(self.ev(node, e, fr))

    def terms_at(self, func: FuncInfo, recv, nodes) -> Dict[int, List[tuple]]:
        """Value terms of the expression nodes `nodes` (sub-expressions of func's body, nested functions excluded) in the
        environment in which each is evaluated: {id(node): [normalised terms, one per distinct evaluation]}.  Locals
        are resolved through the assignments / loops executed before the node on that path."""
        old = getattr(self, '_capture', None)
        self._capture = {id(n): [] for n in nodes}
        try:
            if func.parent is not None:
                ctx = Ctx(func, recv)
                env = _Env()
                root = func
                while root.parent is not None:
                    root = root.parent
                for fn in self._func_chain(func):
                    for i, p in enumerate(fn.params):
                        if fn is root and i == 0 and root.cls is not None and not root.is_static and recv is not None:
                            env.set(p, ('self',))
                        else:
                            env.set(p, ('p', p))
                fr = _Frame(ctx, ('self',) if recv is not None else None, recv[1] if recv else None, 0)
                self._stack.append(('func', func.qualname, recv[1].qualname if recv else None))
                try:
                    self._run_func(func, env, fr)
                finally:
                    self._stack.pop()
            else:
                self.func_term(func, recv)
            out = {}
            for k, ts in self._capture.items():
                seen, lst = set(), []
                for t in ts:
                    t = normalise(t)
                    h = term_hash(t)
                    if h not in seen:
                        seen.add(h)
                        lst.append(t)
                out[k] = lst
            return out
        finally:
            self._capture = old

    def local_term(self, func: FuncInfo, recv, var: str, at_end=True) -> tuple:
        """Value term of local variable `var` after executing the function's straight-line body (no return taken)."""
        ctx = Ctx(func, recv)
        env = _Env()
        root = func
        while root.parent is not None:
            root = root.parent
        for fn in self._func_chain(func):
            for i, p in enumerate(fn.params):
                if fn is root and i == 0 and root.cls is not None and not root.is_static and recv is not None:
                    env.set(p, ('self',))
                else:
                    env.set(p, ('p', p))
        fr = _Frame(ctx, ('self',) if recv is not None else None, recv[1] if recv else None, 0)
        was_linear = getattr(self, '_linear', False)
        self._linear = True  # merge environments at every join instead of splitting on returns / raises
        try:
            self._exec(func.node.body, env, fr, collect_final=True)
        finally:
            self._linear = was_linear
        t = env.get(var)
        return normalise(t) if t is not None else opaque(f'<unbound {var}>')

    def _func_chain(self, f: FuncInfo):
        chain = []
        while f is not None:
            chain.append(f)
            f = f.parent
        return list(reversed(chain))

    # ================================================================== function bodies
    def _run_func(self, func: FuncInfo, env: _Env, fr: _Frame) -> tuple:
        if isinstance(func.node, ast.Lambda):
            return self.ev(func.node.body, env, fr)
        if any(isinstance(n, (ast.Yield, ast.YieldFrom)) for n in self.typer.own_nodes(func)):
            return opaque(f'<generator {func.short}>')
        kind, val = self._exec(func.node.body, env, fr)
        if kind == 'ret':
            return val
        if kind == 'bottom':
            return BOTTOM
        return NONE_T

    def _exec(self, stmts, env: _Env, fr: _Frame, cont=(), collect_final=False):
        """Execute a block and then its continuation `cont` (statement lists of the enclosing blocks, innermost first).
        Returns ('ret', term) | ('fall', None) [end of function reached] | ('bottom', None) | ('cont', None) | ('break', None)."""
        for i, st in enumerate(stmts):
            r = self._exec_stmt(st, env, fr, stmts[i + 1:], cont)
            if r is not None:
                return r
        if cont:
            return self._exec(cont[0], env, fr, cont[1:])
        return ('fall', None)

    def _exec_stmt(self, st, env: _Env, fr: _Frame, rest, cont=()):
        if isinstance(st, ast.Expr):
            if isinstance(st.value, ast.Constant):
                return None
            self._effect_expr(st.value, env, fr)
            return None
        if isinstance(st, ast.Assign):
            val = self.ev(st.value, env, fr)
            for t in st.targets:
                self._assign(t, val, env, fr, st.value)
            if len(st.targets) > 1 and val in (('list', ()), ('dict', ()), ('call', 'set', ())):
                # chained assignment of a fresh container: the targets name one object
                keys = [t.id if isinstance(t, ast.Name) else f'self.{t.attr}' if (isinstance(t, ast.Attribute) and isinstance(t.value, ast.Name)
                        and env.get(t.value.id) == ('self',) and fr.depth == 0) else None for t in st.targets]
                prim = next((k for k in keys if k and k.startswith('self.')), None) or next((k for k in keys if k), None)
                for k in keys:
                    if k and k != prim and prim and not k.startswith('self.'):
                        env.set(k, ('#alias', prim))
            return None
        if isinstance(st, ast.AnnAssign):
            if st.value is not None:
                self._assign(st.target, self.ev(st.value, env, fr), env, fr, st.value)
            return None
        if isinstance(st, ast.AugAssign):
            if isinstance(st.target, ast.Name) and isinstance(st.op, (ast.BitOr, ast.Add)):
                cur0 = env.get(st.target.id)
                if cur0 is not None and cur0[0] == 'acc' and cur0[1] == 'list':
                    # union / concatenation into a loop accumulator: one `extend` emission
                    self._emit(env, st.target.id, ('flat', self.ev(st.value, env, fr)))
                    return None
            cur = self.ev(st.target, env, fr) if isinstance(st.target, ast.Name) else opaque(st.target)
            val = self.ev(st.value, env, fr)
            if isinstance(st.op, ast.Add):
                new = self._plus(cur, val)
            else:
                new = ('call', type(st.op).__name__, (cur, val))
            self._assign(st.target, new, env, fr, None)
            return None
        if isinstance(st, ast.Return):
            return ('ret', self.ev(st.value, env, fr) if st.value is not None else NONE_T)
        if isinstance(st, ast.Raise):
            return ('bottom', None)
        if isinstance(st, ast.Assert):
            return None
        if isinstance(st, ast.Pass):
            return None
        if isinstance(st, (ast.FunctionDef, ast.AsyncFunctionDef)):
            info = getattr(st, '_info', None)
            body = [b for b in st.body if not (isinstance(b, ast.Expr) and isinstance(b.value, ast.Constant) and isinstance(b.value.value, str))]
            noargs = not st.args.args and not st.args.vararg and not st.args.kwarg and not st.args.kwonlyargs and not st.args.posonlyargs
            if info and not st.decorator_list and len(body) == 1 and isinstance(body[0], ast.Return) and body[0].value is not None and noargs:
                # `def f(): return <expr>` is the lambda `lambda: <expr>`
                sub = _Frame(Ctx(info, fr.ctx.recv), fr.self_term, fr.self_cls, fr.depth)
                env.set(st.name, ('lam', (), self.ev(body[0].value, _Env(env), sub)))
                return None
            if info and not st.decorator_list and noargs and isinstance(st, ast.FunctionDef) and fr.depth < MAX_DEPTH \
                    and not any(isinstance(n_, (ast.Yield, ast.YieldFrom, ast.Nonlocal, ast.Global)) for n_ in ast.walk(st)) \
                    and not any(isinstance(n_, ast.Call) and isinstance(n_.func, ast.Name) and n_.func.id == st.name for n_ in ast.walk(st)):
                # a parameterless local function: its value term in the defining environment (as for a lambda)
                sub = _Frame(Ctx(info, fr.ctx.recv), fr.self_term, fr.self_cls, fr.depth + 1)
                self._stack.append(('closure', info.qualname))
                try:
                    bt = self._run_func(info, _Env(env), sub)
                finally:
                    self._stack.pop()
                env.set(st.name, ('lam', (), bt))
                return None
            env.set(st.name, ('closure', info.qualname, id(env)) if info else opaque(st.name))
            self._closures = getattr(self, '_closures', {})
            if info:
                self._closures[(info.qualname, id(env))] = (info, env)
            return None
        if isinstance(st, (ast.Import, ast.ImportFrom, ast.Global, ast.Nonlocal, ast.ClassDef, ast.Delete)):
            return None
        if isinstance(st, ast.Continue):
            return ('cont', None)
        if isinstance(st, ast.Break):
            return ('break', None)
        if isinstance(st, ast.If):
            return self._exec_if(st, env, fr, rest, cont)
        if isinstance(st, (ast.For, ast.AsyncFor)):
            if not getattr(self, '_linear', False) and self._break_assign_loop(st, env, fr):
                return None
            returns_inside = not getattr(self, '_linear', False) and self._own_level(st.body + st.orelse, ast.Return)
            summary = self._search_loop(st, env, fr) if returns_inside else None
            self._exec_for(st, env, fr)
            if not returns_inside:
                return None
            # the loop can end the function: result = (some iteration returns) ? its value : whatever follows the loop
            c, v = summary if summary is not None else (opaque('<an iteration of the loop returns>'), opaque('<value returned inside the loop>'))
            r = self._exec(list(rest), env, fr, cont)
            if r[0] == 'ret':
                return ('ret', ('cond', c, v, r[1]))
            if r[0] == 'fall':
                return ('ret', ('cond', c, v, NONE_T))
            if r[0] == 'bottom':
                return ('ret', v)
            return ('ret', ('cond', c, v, opaque('<after the loop>')))
        if isinstance(st, ast.While):
            for n in ast.walk(st):
                if isinstance(n, ast.Name) and isinstance(n.ctx, ast.Store):
                    env.setdeep(n.id, opaque(f'<while-assigned {n.id}>'))
            return None
        if isinstance(st, (ast.With, ast.AsyncWith)):
            for item in st.items:
                cm = self.ev(item.context_expr, env, fr)
                if item.optional_vars is not None:
                    self._assign(item.optional_vars, ('call', 'with', (cm,)), env, fr, None)
            if not self._has_escape(st.body):
                self._exec(st.body, env, fr)
                return None
            return self._exec(st.body, env, fr, (rest,) + tuple(cont))
        if isinstance(st, ast.Try):
            # value semantics on the no-exception path; handlers that return make the result opaque
            inner = st.body + st.orelse + st.finalbody
            if not self._has_escape(inner) and not any(isinstance(n, ast.Return) for h in st.handlers for n in ast.walk(h)):
                self._exec(inner, env, fr)
                return None
            r = self._exec(inner, env, fr, (rest,) + tuple(cont))
            if any(isinstance(n, ast.Return) for h in st.handlers for n in ast.walk(h)):
                if r[0] == 'ret':
                    return ('ret', ('union', (r[1], opaque('<except-return>'))))
            return r
        return None

    def _own_level(self, stmts, kind) -> bool:
        def walk(n):
            if isinstance(n, kind):
                return True
            if isinstance(n, (ast.FunctionDef, ast.AsyncFunctionDef, ast.Lambda, ast.ClassDef)):
                return False
            return any(walk(c) for c in ast.iter_child_nodes(n))
        return any(walk(s_) for s_ in stmts)

    def _search_loop(self, st, env: _Env, fr: _Frame):
        """`for x in seq: [locals...]; if test(x): [locals...]; return value` (nothing else leaves the loop):
        (any(test(x) for x in seq), value of the first such x).  None if the loop has another shape."""
        if st.orelse:
            return None
        body = [b for b in st.body if not (isinstance(b, ast.Expr) and isinstance(b.value, ast.Constant))]
        if not body or not isinstance(body[-1], ast.If):
            return None
        pre, last = body[:-1], body[-1]
        simple = (ast.Assign, ast.AnnAssign)
        if not all(isinstance(p_, simple) for p_ in pre) or not last.body or not isinstance(last.body[-1], ast.Return):
            return None
        if not all(isinstance(p_, simple) for p_ in last.body[:-1]) or not all(isinstance(p_, (ast.Continue, ast.Pass)) for p_ in last.orelse):
            return None
        uid = next(_uid)
        vars_ = self._bind_loop_vars(st.target, env, uid)
        benv = _Env(env)
        for v_, t_ in vars_.items():
            benv.set(v_, t_)
        for p_ in pre:
            self._exec_stmt(p_, benv, fr, [])
        c = self.ev_cond(last.test, benv, fr)
        venv = _Env(benv)
        for p_ in last.body[:-1]:
            self._exec_stmt(p_, venv, fr, [])
        ret = last.body[-1]
        v = self.ev(ret.value, venv, fr) if ret.value is not None else NONE_T
        seq = self.ev(st.iter, env, fr)
        varnames = tuple(vars_[x] for x in sorted(vars_, key=lambda x: self._target_order(st.target).index(x)))
        if seq[0] in ('tuple', 'list') and 0 < len(seq[1]) <= 4 and len(varnames) == 1:
            # a search over a literal sequence: unrolled, first hit wins  ->  (cond, value) of the equivalent if / elif chain
            tests = [substitute(c, {varnames[0]: e_}) for e_ in seq[1]]
            vals = [substitute(v, {varnames[0]: e_}) for e_ in seq[1]]
            val = vals[-1]
            for t_, v_ in zip(reversed(tests[:-1]), reversed(vals[:-1])):
                val = ('cond', t_, v_, val)
            return (('or', tuple(tests)) if len(tests) > 1 else tests[0]), val
        exists = ('call', 'any', (('map', varnames, c, seq, None),))
        if any(_mentions(v, vn) for vn in varnames):
            v = ('call', 'first', (('map', varnames, v, seq, c),))
        return exists, v

    def _break_assign_loop(self, st, env: _Env, fr: _Frame) -> bool:
        """`for x in (e1, .., ek): if test(x): v = value(x); break` [`else: raise ..`] over a literal sequence is the chain
        `if test(e1): v = value(e1) elif test(e2): ..`: the first hit wins.  Binds v and returns True when the loop has this shape."""
        body = [b for b in st.body if not (isinstance(b, ast.Expr) and isinstance(b.value, ast.Constant))]
        if len(body) != 1 or not isinstance(body[0], ast.If) or body[0].orelse or not isinstance(st.target, ast.Name):
            return False
        inner = body[0].body
        if len(inner) != 2 or not isinstance(inner[1], ast.Break) or not isinstance(inner[0], ast.Assign) or len(inner[0].targets) != 1 or not isinstance(inner[0].targets[0], ast.Name):
            return False
        raises = bool(st.orelse) and isinstance(st.orelse[-1], ast.Raise) and all(isinstance(o_, (ast.Raise, ast.Expr)) for o_ in st.orelse)
        if st.orelse and not raises:
            return False
        seq = self.ev(st.iter, env, fr)
        if seq[0] not in ('tuple', 'list') or not (0 < len(seq[1]) <= 4):
            return False
        uid = next(_uid)
        var = ('var', f'{st.target.id}#{uid}')
        benv = _Env(env)
        benv.set(st.target.id, var)
        c = self.ev_cond(body[0].test, benv, fr)
        v = self.ev(inner[0].value, benv, fr)
        name = inner[0].targets[0].id
        tests = [substitute(c, {var: e_}) for e_ in seq[1]]
        vals = [substitute(v, {var: e_}) for e_ in seq[1]]
        if raises:
            # no hit raises: on the paths that go on, one of the tests held
            val = vals[-1]
            pairs = list(zip(tests[:-1], vals[:-1]))
        else:
            prev = env.get(name)
            if prev is None:
                return False
            val = prev
            pairs = list(zip(tests, vals))
        for t_, v_ in reversed(pairs):
            val = ('cond', t_, v_, val)
        self._assign(inner[0].targets[0], val, env, fr, None)
        return True

    def _has_escape(self, stmts) -> bool:
        """The block contains a statement that leaves it other than by falling through (own level, nested defs excluded)."""
        if getattr(self, '_linear', False):
            return False

        def walk(n):
            if isinstance(n, (ast.Return, ast.Raise, ast.Continue, ast.Break)):
                return True
            if isinstance(n, (ast.FunctionDef, ast.AsyncFunctionDef, ast.Lambda, ast.ClassDef)):
                return False
            return any(walk(c) for c in ast.iter_child_nodes(n))
        return any(walk(s) for s in stmts)

    def _exec_if(self, st: ast.If, env: _Env, fr: _Frame, rest, cont=()):
        c = self.ev_cond(st.test, env, fr)
        escaping = self._has_escape(st.body) or self._has_escape(st.orelse)
        if c == lit(True) or c == lit(False):
            branch = st.body if c == lit(True) else st.orelse
            if not escaping:
                self._exec(branch, env, fr)
                return None
            return self._exec(branch, env, fr, (rest,) + tuple(cont))
        env_a, env_b = env.copy(), env.copy()
        if not escaping:
            # both branches fall through: merge the environments and go on linearly
            ra = self._exec(st.body, env_a, fr)
            rb = self._exec(st.orelse, env_b, fr)
            if ra[0] in ('bottom', 'ret') and rb[0] not in ('bottom', 'ret'):
                self._adopt(env, env_b)
            elif rb[0] in ('bottom', 'ret') and ra[0] not in ('bottom', 'ret'):
                self._adopt(env, env_a)
            else:
                self._merge(env, c, env_a, env_b)
            return None
        # a branch can leave the block: evaluate each branch together with everything that follows it
        k = (rest,) + tuple(cont)
        fa = self._exec(st.body, env_a, fr, k)
        fb = self._exec(st.orelse, env_b, fr, k)
        return self._join_results(c, fa, fb, env, env_a, env_b)

    def _join_results(self, c, fa, fb, env, env_a, env_b):
        ka, kb = fa[0], fb[0]
        if ka == 'bottom' and kb == 'bottom':
            return ('bottom', None)
        if ka == 'bottom':
            self._adopt(env, env_b)
            return fb
        if kb == 'bottom':
            self._adopt(env, env_a)
            return fa
        if ka == 'ret' and kb == 'ret':
            return ('ret', ('cond', c, fa[1], fb[1]))
        if ka == 'ret' and kb == 'fall':
            return ('ret', ('cond', c, fa[1], NONE_T))
        if kb == 'ret' and ka == 'fall':
            return ('ret', ('cond', c, NONE_T, fb[1]))
        if ka == 'fall' and kb == 'fall':
            self._merge(env, c, env_a, env_b)
            return ('fall', None)
        # loop control (cont/break) mixed with other outcomes: handled by the loop summariser via guards
        return ('mixed', (c, fa, fb, env_a, env_b))

    def _adopt(self, env, other):
        env.vars.update(other.vars)

    def _merge(self, env: _Env, c, ea: _Env, eb: _Env):
        keys = set(ea.vars) | set(eb.vars)
        for k in keys:
            va, vb = ea.get(k), eb.get(k)
            if va == vb:
                if va is not None:
                    env.set(k, va)
                continue
            if va is None or vb is None:
                env.set(k, ('cond', c, va if va is not None else opaque(f'<unbound {k}>'), vb if vb is not None else opaque(f'<unbound {k}>')))
            else:
                env.set(k, ('cond', c, va, vb))

    # ---- assignments and accumulator effects
    def _assign(self, target, val, env: _Env, fr: _Frame, value_node):
        if isinstance(target, ast.Name):
            env.setdeep(target.id, val) if env.has(target.id) and target.id not in env.vars else env.set(target.id, val)
        elif isinstance(target, (ast.Tuple, ast.List)):
            star = next((i for i, e in enumerate(target.elts) if isinstance(e, ast.Starred)), None)
            n_t = len(target.elts)
            for i, elt in enumerate(target.elts):
                if val[0] in ('tuple', 'list') and i < len(val[1]) and star is None:
                    self._assign(elt, val[1][i], env, fr, None)
                elif star is not None and i == star:
                    # *rest takes what the other targets leave
                    after = n_t - star - 1
                    self._assign(elt.value, ('slice', val, lit(star) if star else lit(None), lit(-after) if after else lit(None)), env, fr, None)
                elif star is not None and i > star:
                    self._assign(elt, ('index', val, lit(i - n_t)), env, fr, None)
                else:
                    self._assign(elt, ('index', val, lit(i)), env, fr, None)
        elif isinstance(target, ast.Subscript) and isinstance(target.value, ast.Name) and not (env.get(target.value.id) == ('self',)):
            cur = env.get(target.value.id)
            k = self.ev(target.slice, env, fr)
            if cur is not None and cur[0] == 'dict':
                env.setdeep(target.value.id, ('dict', cur[1] + ((k, val),)))
            elif cur is not None and cur[0] == 'acc':
                self._emit(env, target.value.id, ('kv', k, val))
            elif cur is not None:
                env.setdeep(target.value.id, ('call', 'setitem', (cur, k, val)))
        elif isinstance(target, ast.Attribute):
            self._field_stores = getattr(self, '_field_stores', [])
            self._field_stores.append((fr.ctx, target, val))
            if isinstance(target.value, ast.Name) and env.get(target.value.id) == ('self',) and fr.depth == 0:
                # the attribute doubles as a pseudo-variable so that `self.x = {}; for ..: self.x[k] = v` is summarised
                env.set(f'self.{target.attr}', val)
                self._attr_nodes = getattr(self, '_attr_nodes', {})
                self._attr_nodes[f'self.{target.attr}'] = (fr.ctx, target)
        elif isinstance(target, ast.Subscript) and isinstance(target.value, ast.Attribute) and isinstance(target.value.value, ast.Name) \
                and env.get(target.value.value.id) == ('self',):
            name = f'self.{target.value.attr}'
            cur = env.get(name)
            k = self.ev(target.slice, env, fr)
            if cur is not None and cur[0] == 'dict':
                env.setdeep(name, ('dict', cur[1] + ((k, val),)))
            elif cur is not None and cur[0] == 'acc':
                self._emit(env, name, ('kv', k, val))

    def _emit(self, env, name, what):
        acc = env.get(name)
        guard = getattr(self, '_loop_guard', [])
        env.setdeep(name, ('acc', acc[1], acc[2] + ((tuple(guard[-1]) if guard else (), what),)))

    def _effect_expr(self, node, env: _Env, fr: _Frame):
        """Expression statement: recognise accumulator mutations (append/add/update/extend)."""
        if isinstance(node, ast.Call) and isinstance(node.func, ast.Attribute) and isinstance(node.func.value, ast.Name):
            name = node.func.value.id
            cur = env.get(name)
            m = node.func.attr
            if cur is not None and m in ('append', 'add') and len(node.args) == 1:
                v = self.ev(node.args[0], env, fr)
                if cur[0] == 'list':
                    env.setdeep(name, ('list', cur[1] + (v,)))
                    return
                if cur[0] == 'acc':
                    self._emit(env, name, ('elem', v))
                    return
                env.setdeep(name, ('call', 'append', (cur, v)))
                return
            if cur is not None and m == 'setdefault' and len(node.args) == 2 and cur[0] == 'acc' and cur[1] == 'dict':
                # d.setdefault(k, v) as a statement: an entry k -> v that does NOT replace an entry already there ('kvs': the first one wins)
                self._emit(env, name, ('kvs', self.ev(node.args[0], env, fr), self.ev(node.args[1], env, fr)))
                return
            if cur is not None and m in ('extend', 'update') and len(node.args) == 1 and cur[0] == 'acc' and cur[1] == 'list':
                self._emit(env, name, ('flat', self.ev(node.args[0], env, fr)))
                return
            if cur is not None and m == 'extend' and len(node.args) == 1 and cur == ('list', ()):
                env.setdeep(name, self.ev(node.args[0], env, fr))
                return
            if cur is not None and m in ('update', 'extend', '__ior__') and len(node.args) == 1:
                env.setdeep(name, ('call', m, (cur, self.ev(node.args[0], env, fr))))
                return
            if cur is not None and m == 'sort' and not node.args and cur[0] != 'acc':
                # in-place sort: the name now holds sorted(<old value>, key=...)
                kw = {k.arg: self.ev(k.value, env, fr) for k in node.keywords if k.arg}
                t = ('sorted', cur, kw.get('key', NONE_T))
                rev = kw.get('reverse')
                env.setdeep(name, ('call', 'reversed', (t,)) if rev is not None and rev != lit(False) else t)
                return
            if cur is not None and m == 'reverse' and not node.args and not node.keywords and cur[0] != 'acc':
                env.setdeep(name, ('call', 'reversed', (cur,)))
                return
        if isinstance(node, ast.Call) and isinstance(node.func, ast.Attribute) and node.func.attr in ('append', 'add') and len(node.args) == 1 \
                and isinstance(node.func.value, ast.Attribute) and isinstance(node.func.value.value, ast.Name) and env.get(node.func.value.value.id) == ('self',):
            name = f'self.{node.func.value.attr}'
            cur = env.get(name)
            if cur is not None and cur[0] == 'acc':
                self._emit(env, name, ('elem', self.ev(node.args[0], env, fr)))
                return
        # other expression statements: evaluate so that attribute stores inside inlined callees are recorded
        if isinstance(node, (ast.Call, ast.Await)):
            self.ev(node, env, fr)
        return

    # ---- loops
    def _exec_for(self, st: ast.For, env: _Env, fr: _Frame):
        seq = self.ev(st.iter, env, fr)
        # accumulators: outer variables that are empty list/dict/set literals or existing accumulators mutated in the body
        mutated = set()
        assigned = set()
        for n in ast.walk(st):
            if isinstance(n, ast.Call) and isinstance(n.func, ast.Attribute) and isinstance(n.func.value, ast.Name) and n.func.attr in ('append', 'add', 'extend', 'update', 'setdefault'):
                mutated.add(n.func.value.id)
            if isinstance(n, ast.AugAssign) and isinstance(n.target, ast.Name) and isinstance(n.op, (ast.BitOr, ast.Add)):
                mutated.add(n.target.id)
            if isinstance(n, ast.Subscript) and isinstance(n.ctx, ast.Store) and isinstance(n.value, ast.Name):
                mutated.add(n.value.id)
            if isinstance(n, ast.Subscript) and isinstance(n.ctx, ast.Store) and isinstance(n.value, ast.Attribute) and isinstance(n.value.value, ast.Name) \
                    and env.get(n.value.value.id) == ('self',):
                mutated.add(f'self.{n.value.attr}')
            if isinstance(n, ast.Call) and isinstance(n.func, ast.Attribute) and n.func.attr in ('append', 'add') and isinstance(n.func.value, ast.Attribute) \
                    and isinstance(n.func.value.value, ast.Name) and env.get(n.func.value.value.id) == ('self',):
                mutated.add(f'self.{n.func.value.attr}')
        target_names = {n.id for n in ast.walk(st.target) if isinstance(n, ast.Name)}
        for b in st.body + st.orelse:
            for n in ast.walk(b):
                if isinstance(n, ast.Name) and isinstance(n.ctx, ast.Store):
                    assigned.add(n.id)
                if isinstance(n, (ast.FunctionDef, ast.AsyncFunctionDef)):
                    assigned.add(n.name)
        outer_assigned = {a for a in assigned if env.has(a) and a not in target_names}
        accs = {}
        prior = {}   # mappings that already hold entries when the loop starts
        nested = {}  # accumulators of an enclosing loop that this loop appends to
        for name in mutated:
            cur = env.get(name)
            if cur is None:
                continue
            if cur in (('list', ()), ('dict', ()), ('call', 'set', ())) or cur == ('list', ()) :
                accs[name] = cur
            elif cur[0] == 'acc' and cur[1] == 'list':
                accs[name] = ('list', ())
                nested[name] = cur
            elif cur[0] == 'mapdict' or (cur[0] == 'call' and cur[1] in ('merge', 'first_wins')):
                # a mapping built before (by an earlier loop / comprehension) receives more entries: union, later wins
                accs[name] = ('dict', ())
                prior[name] = cur
        uid = next(_uid)
        vars_ = self._bind_loop_vars(st.target, env, uid)
        body_env = _Env(env)
        for name, init in accs.items():
            body_env.set(name, ('acc', 'dict' if init[0] == 'dict' else 'list', ()))
        for v, t in vars_.items():
            body_env.set(v, t)
        saved_guard = getattr(self, '_loop_guard', [])
        self._loop_guard = saved_guard + [[]]
        ok = self._exec_loop_body(st.body, body_env, fr)
        self._loop_guard = saved_guard
        varnames = tuple(vars_[v] for v in sorted(vars_, key=lambda x: self._target_order(st.target).index(x)))
        for name in accs:
            acc = body_env.get(name)
            if not ok or acc is None or acc[0] != 'acc':
                env.setdeep(name, opaque(f'<loop-built {name}>'))
                continue
            ems = self._fold_emissions(list(acc[2]))
            if len(ems) == 0:
                if name in nested:
                    env.setdeep(name, nested[name])
                if name in prior:
                    env.setdeep(name, prior[name])
                continue
            if len(ems) != 1:
                env.setdeep(name, opaque(f'<loop-built {name}: {len(ems)} emissions>'))
                continue
            guard, what = ems[0]
            g = self._conj(guard)
            if what[0] == 'elem':
                built = ('map', varnames, what[1], seq, g)
            elif what[0] == 'flat':
                built = ('call', 'flatten', (('map', varnames, what[1], seq, g),))
            elif what[0] == 'kvs':
                # filled by setdefault: among equal keys the first entry stays (and entries present before the loop stay as well)
                built = ('call', 'first_wins', (('mapdict', varnames, what[1], what[2], seq, g),))
                if name in prior:
                    built = ('call', 'merge', (built, prior[name]))
            else:
                built = ('mapdict', varnames, what[1], what[2], seq, g)
            if name in prior and what[0] != 'kvs':
                built = ('call', 'merge', (prior[name], built))
            if name in nested:
                # inner loop appending to the accumulator of the enclosing loop: one `extend` emission of the outer iteration
                env.setdeep(name, nested[name])
                self._emit(env, name, ('flat', built))
                continue
            env.setdeep(name, built)
            if name.startswith('self.') and name in getattr(self, '_attr_nodes', {}):
                c0, tgt = self._attr_nodes[name]
                self._field_stores.append((c0, tgt, env.get(name)))
        for name in mutated - set(accs):
            if env.has(name) and name not in target_names:
                env.setdeep(name, opaque(f'<loop-mutated {name}>'))
        for name in outer_assigned:
            if name in accs and env.get(name) is not None and env.get(name)[0] != 'opaque' and not any(
                    isinstance(n, ast.Assign) and any(isinstance(t_, ast.Name) and t_.id == name for t_ in n.targets) for b in st.body for n in ast.walk(b)):
                continue  # only updated as an accumulator (`acc |= ...`): summarised above
            env.setdeep(name, opaque(f'<loop-assigned {name}>'))
        for v in target_names:
            env.set(v, opaque(f'<loop-var {v}>'))

    def _fold_emissions(self, ems):
        """Two emissions under complementary guards (if c: acc.append(x) else: acc.append(y)) are one emission cond(c, x, y)."""
        changed = True
        while changed and len(ems) > 1:
            changed = False
            for i in range(len(ems)):
                for j in range(i + 1, len(ems)):
                    (g1, w1), (g2, w2) = ems[i], ems[j]
                    if len(g1) != len(g2) or not g1 or g1[:-1] != g2[:-1] or w1[0] != w2[0]:
                        continue
                    a, b = g1[-1], g2[-1]
                    if self._neg(a) == b or self._neg(b) == a:
                        if w1[0] in ('elem', 'flat'):
                            merged = (w1[0], ('cond', a, w1[1], w2[1]))
                        elif w1[1] == w2[1]:
                            merged = (w1[0], w1[1], ('cond', a, w1[2], w2[2]))
                        else:
                            continue
                        ems = [e for k, e in enumerate(ems) if k not in (i, j)]
                        ems.insert(i, (g1[:-1], merged))
                        changed = True
                        break
                if changed:
                    break
        return ems

    def _target_order(self, target) -> List[str]:
        return [n.id for n in ast.walk(target) if isinstance(n, ast.Name)]

    def _bind_loop_vars(self, target, env, uid) -> Dict[str, tuple]:
        out = {}
        for n in ast.walk(target):
            if isinstance(n, ast.Name):
                out[n.id] = ('var', f'{n.id}#{uid}')
        return out

    def _conj(self, guard) -> Optional[tuple]:
        guard = [g for g in guard if g != lit(True)]
        if not guard:
            return None
        if len(guard) == 1:
            return guard[0]
        return ('and', tuple(guard))

    def _exec_loop_body(self, stmts, env: _Env, fr: _Frame) -> bool:
        """Execute one symbolic iteration; conditional `continue`/raise add negated guards for what follows."""
        guard = self._loop_guard[-1]
        for i, st in enumerate(stmts):
            if isinstance(st, ast.If):
                c = self.ev_cond(st.test, env, fr)
                body_kind = self._block_kind(st.body)
                else_kind = self._block_kind(st.orelse) if st.orelse else 'fall'
                if body_kind in ('cont', 'bottom') and else_kind == 'fall':
                    if body_kind == 'cont' and len(st.body) > 1:
                        # statements before the `continue` run under c (their emissions must not be lost)
                        n0 = len(guard)
                        guard.append(c)
                        ea = env.copy()
                        ok = self._exec_loop_body(st.body[:-1], ea, fr)
                        del guard[n0:]
                        if not ok:
                            return False
                        self._take_accs(env, ea)
                    # a raising branch contributes no guard: terms describe the non-raising executions (as for whole functions)
                    if st.orelse:
                        if body_kind == 'cont':
                            guard.append(self._neg(c))
                        if not self._exec_loop_body(st.orelse, env, fr):
                            return False
                    elif body_kind == 'cont':
                        guard.append(self._neg(c))
                    continue
                if body_kind == 'fall' and else_kind in ('cont', 'bottom'):
                    if else_kind == 'cont' and len(st.orelse) > 1:
                        n0 = len(guard)
                        guard.append(self._neg(c))
                        eb = env.copy()
                        ok = self._exec_loop_body(st.orelse[:-1], eb, fr)
                        del guard[n0:]
                        if not ok:
                            return False
                        self._take_accs(env, eb)
                    if else_kind == 'cont':
                        guard.append(c)
                    if not self._exec_loop_body(st.body, env, fr):
                        return False
                    continue
                if body_kind == 'fall' and else_kind == 'fall':
                    # both fall: emissions inside are guarded
                    ea, eb = env.copy(), env.copy()
                    n0 = len(guard)
                    guard.append(c)
                    oka = self._exec_loop_body(st.body, ea, fr)
                    del guard[n0:]
                    guard.append(self._neg(c))
                    okb = self._exec_loop_body(st.orelse, eb, fr) if st.orelse else True
                    del guard[n0:]
                    if not (oka and okb):
                        return False
                    # accumulators: take emissions from both (already guarded); other vars: cond-merge
                    accs_a = {k: v for k, v in self._all_vars(ea).items() if v[0] == 'acc'}
                    accs_b = {k: v for k, v in self._all_vars(eb).items() if v[0] == 'acc'}
                    base = {k: v for k, v in self._all_vars(env).items() if v[0] == 'acc'}
                    self._merge(env, c, self._strip_acc(ea), self._strip_acc(eb))
                    for k in base:
                        na = accs_a.get(k, base[k])[2][len(base[k][2]):]
                        nb = accs_b.get(k, base[k])[2][len(base[k][2]):]
                        env.setdeep(k, ('acc', base[k][1], base[k][2] + na + nb))
                    continue
                # a branch leaves the iteration somewhere inside (nested continue / raise): run the rest of the body once
                # per branch, each under its own guard (emissions under complementary guards are folded afterwards)
                if getattr(self, '_cps_depth', 0) >= 6:
                    return False
                rest = list(stmts[i + 1:])
                n0 = len(guard)
                self._cps_depth = getattr(self, '_cps_depth', 0) + 1
                try:
                    for ct, branch in ((c, st.body), (self._neg(c), st.orelse)):
                        eb = env.copy()
                        guard.append(ct)
                        ok = self._exec_loop_body(list(branch) + rest, eb, fr)
                        del guard[n0:]
                        if not ok:
                            return False
                        self._take_accs(env, eb)
                finally:
                    self._cps_depth -= 1
                return True
            if isinstance(st, ast.Continue):
                return True
            if isinstance(st, ast.Raise):
                return True
            if isinstance(st, (ast.Break, ast.Return)):
                return False
            if isinstance(st, (ast.For, ast.While, ast.Try)):
                if isinstance(st, ast.For):
                    if not self._break_assign_loop(st, env, fr):
                        self._exec_for(st, env, fr)
                    continue
                if isinstance(st, ast.Try):
                    # value semantics on the no-exception path (as for straight-line code)
                    inner = st.body + st.orelse + st.finalbody
                    if not self._exec_loop_body(inner, env, fr):
                        return False
                    if inner and isinstance(inner[-1], (ast.Continue, ast.Raise)):
                        return True
                    continue
                return False
            r = self._exec_stmt(st, env, fr, stmts[i + 1:])
            if r is not None:
                return False
        return True

    def _take_accs(self, env: _Env, branch: _Env):
        """accumulator emissions of a branch that ends the iteration (`continue`) are kept; its other bindings are not"""
        for k, v in self._all_vars(branch).items():
            if v[0] == 'acc' and env.get(k) is not None and env.get(k)[0] == 'acc':
                env.setdeep(k, v)

    def _all_vars(self, env: _Env) -> Dict[str, tuple]:
        out = {}
        chain = []
        e = env
        while e is not None:
            chain.append(e)
            e = e.parent
        for e in reversed(chain):
            out.update(e.vars)
        return out

    def _strip_acc(self, env: _Env) -> _Env:
        e = _Env(env.parent)
        e.vars = {k: v for k, v in env.vars.items() if v[0] != 'acc'}
        return e

    def _block_kind(self, stmts) -> str:
        if not stmts:
            return 'fall'
        last = stmts[-1]
        if isinstance(last, ast.Continue):
            return 'cont' if all(not isinstance(n, (ast.While, ast.Return, ast.Break, ast.Continue)) for s in stmts[:-1] for n in ast.walk(s)) else 'other'
        if isinstance(last, ast.Raise):
            return 'bottom'
        if any(isinstance(n, (ast.Continue, ast.Break, ast.Return)) for s in stmts for n in ast.walk(s)):
            return 'other'
        if any(isinstance(n, ast.Raise) for s in stmts for n in ast.walk(s)):
            # a nested conditional raise: treat as fall (raising paths are dropped)
            return 'fall'
        return 'fall'

    def _neg(self, c):
        if c[0] == 'not':
            return c[1]
        if c == lit(True):
            return lit(False)
        if c == lit(False):
            return lit(True)
        return ('not', c)

    # ================================================================== expressions
    def ev_cond(self, node, env, fr) -> tuple:
        if isinstance(node, ast.UnaryOp) and isinstance(node.op, ast.Not):
            return self._neg(self.ev_cond(node.operand, env, fr))
        if isinstance(node, ast.BoolOp):
            parts = tuple(self.ev_cond(v, env, fr) for v in node.values)
            return ('and' if isinstance(node.op, ast.And) else 'or', parts)
        if isinstance(node, ast.NamedExpr):
            v = self.ev(node.value, env, fr)
            self._assign(node.target, v, env, fr, node.value)
            return v
        return self.ev(node, env, fr)

    def ev(self, node, env: _Env, fr: _Frame) -> tuple:
        m = getattr(self, '_ev_' + type(node).__name__, None)
        if m is None:
            return opaque(node)
        cap = getattr(self, '_capture', None)
        if cap is not None and id(node) in cap:
            t = m(node, env, fr)
            cap[id(node)].append(t)
            return t
        return m(node, env, fr)

    def _ev_Constant(self, node, env, fr):
        if isinstance(node.value, (str, int, float, bool, type(None))):
            return lit(node.value)
        return opaque(node)

    def _local_defs(self, func: FuncInfo) -> Dict[str, list]:
        d = getattr(func, '_local_defs', None)
        if d is None:
            d = {}
            for n in self.typer.own_nodes(func):
                if isinstance(n, ast.Assign):
                    for t in n.targets:
                        if isinstance(t, ast.Name):
                            d.setdefault(t.id, []).append(('assign', n.value))
                        elif isinstance(t, (ast.Tuple, ast.List)) and isinstance(n.value, (ast.Tuple, ast.List)) and len(t.elts) == len(n.value.elts) \
                                and all(isinstance(e, ast.Name) for e in t.elts):
                            for te, ve in zip(t.elts, n.value.elts):
                                d.setdefault(te.id, []).append(('assign', ve))
                        else:
                            for x in ast.walk(t):
                                if isinstance(x, ast.Name) and isinstance(x.ctx, ast.Store):
                                    d.setdefault(x.id, []).append(('other', n))
                elif isinstance(n, ast.AnnAssign) and isinstance(n.target, ast.Name) and n.value is not None:
                    d.setdefault(n.target.id, []).append(('assign', n.value))
                elif isinstance(n, (ast.AugAssign, ast.For, ast.AsyncFor, ast.comprehension)):
                    for x in ast.walk(n.target):
                        if isinstance(x, ast.Name):
                            d.setdefault(x.id, []).append(('other', n))
                elif isinstance(n, (ast.With, ast.AsyncWith)):
                    for item in n.items:
                        if isinstance(item.optional_vars, ast.Name):
                            d.setdefault(item.optional_vars.id, []).append(('with', item.context_expr))
                elif isinstance(n, ast.NamedExpr) and isinstance(n.target, ast.Name):
                    d.setdefault(n.target.id, []).append(('assign', n.value))
                # in-place changes of a container local: its defining expression alone is not its value
                if isinstance(n, ast.Subscript) and isinstance(n.ctx, (ast.Store, ast.Del)) and isinstance(n.value, ast.Name):
                    d.setdefault(n.value.id, []).append(('mut', n))
                elif isinstance(n, ast.Call) and isinstance(n.func, ast.Attribute) and isinstance(n.func.value, ast.Name) and \
                        n.func.attr in ('append', 'add', 'extend', 'update', 'setdefault', 'pop', 'popitem', 'clear', 'insert', 'remove', 'discard', 'sort', 'reverse'):
                    d.setdefault(n.func.value.id, []).append(('mut', n))
            func._local_defs = d
        return d

    def _ev_Name(self, node, env, fr):
        v = env.get(node.id)
        if v is not None:
            if v[0] == 'closure' and len(v) == 3 and (v[1], v[2]) in getattr(self, '_closures', {}):
                lam = self._closure_as_lambda(*self._closures[(v[1], v[2])], fr)
                if lam is not None:
                    return lam
            return v
        # flow-insensitive resolution of a single-assignment local (used when evaluating an isolated expression)
        if getattr(fr, 'resolve_locals', False):
            f = fr.ctx.func
            while f is not None:
                defs = self._local_defs(f).get(node.id)
                if defs:
                    key = ('local', f.qualname, node.id)
                    muts = [d_ for d_ in defs if d_[0] == 'mut']
                    if muts and key not in self._stack and node.id not in f.params and sum(1 for d_ in defs if d_[0] != 'mut') == 1 and defs[0][0] == 'assign':
                        # a container filled in place (loop with item stores / appends): its value at the end of the function
                        self._stack.append(key)
                        try:
                            t = self.local_term(f, fr.ctx.recv, node.id)
                        finally:
                            self._stack.pop()
                        return t if not is_opaque(t) else ('local', node.id)
                    if muts:
                        defs = [d_ for d_ in defs if d_[0] != 'mut'] + [('other', None)]
                    if len(defs) == 1 and defs[0][0] in ('assign', 'with') and key not in self._stack and node.id not in f.params:
                        self._stack.append(key)
                        try:
                            sub = _Frame(Ctx(f, fr.ctx.recv), fr.self_term, fr.self_cls, fr.depth)
                            sub.resolve_locals = True
                            t = self.ev(defs[0][1], env, sub)
                            return t if defs[0][0] == 'assign' else ('call', 'with', (t,))
                        finally:
                            self._stack.pop()
                    return ('local', node.id)
                f = f.parent
        else:
            # a free variable of a nested function that is a single-assignment local of an enclosing function: its defining expression
            own = fr.ctx.func
            if own is not None and own.parent is not None and node.id not in own.params and not self._local_defs(own).get(node.id):
                f = own.parent
                while f is not None:
                    defs = self._local_defs(f).get(node.id)
                    if defs or node.id in f.params:
                        key = ('local', f.qualname, node.id)
                        if defs and len(defs) == 1 and defs[0][0] == 'assign' and key not in self._stack and node.id not in f.params \
                                and isinstance(defs[0][1], (ast.Compare, ast.BoolOp, ast.UnaryOp, ast.Call, ast.Constant, ast.Attribute, ast.Subscript, ast.JoinedStr)) and not self._own_level([defs[0][1]], (ast.Await, ast.Yield)):
                            self._stack.append(key)
                            try:
                                sub = _Frame(Ctx(f, fr.ctx.recv), fr.self_term, fr.self_cls, fr.depth)
                                sub.resolve_locals = True
                                return self.ev(defs[0][1], _Env(), sub)
                            finally:
                                self._stack.pop()
                        break
                    f = f.parent
        r = self.prog.resolve_global(fr.ctx.func.module, node.id)
        if r is not None:
            if r[0] == 'class':
                return ('global', r[1].short)
            if r[0] == 'func':
                return ('global', r[1].short)
            if r[0] == 'module':
                return ('global', r[1])
            if r[0] == 'ext':
                return ('global', r[1])
            if r[0] == 'var':
                val = r[1].globals.get(r[2])
                if isinstance(val, ast.Constant):
                    return lit(val.value)
                return ('global', f'{r[1].name.split(".")[-1]}.{r[2]}')
        return ('global', node.id)

    def _ev_JoinedStr(self, node, env, fr):
        parts = []
        for v in node.values:
            if isinstance(v, ast.Constant):
                parts.append(lit(v.value))
            elif isinstance(v, ast.FormattedValue):
                t = self.ev(v.value, env, fr)
                if v.format_spec is not None:
                    parts.append(('call', 'format', (t, self.ev(v.format_spec, env, fr))))
                elif v.conversion == ord('r'):
                    parts.append(('repr', t))
                else:
                    parts.append(('str', t))
        return ('cat', tuple(parts))

    def _ev_FormattedValue(self, node, env, fr):
        t = self.ev(node.value, env, fr)
        return ('repr', t) if node.conversion == ord('r') else ('str', t)

    def _plus(self, a, b):
        if is_stringy(a) or is_stringy(b):
            return ('cat', (a, b))
        if a[0] == 'list' and b[0] == 'list':
            return ('list', a[1] + b[1])
        return ('call', '+', (a, b))

    def _ev_BinOp(self, node, env, fr):
        a = self.ev(node.left, env, fr)
        b = self.ev(node.right, env, fr)
        if isinstance(node.op, ast.Add):
            return self._plus(a, b)
        if isinstance(node.op, ast.Div):
            ts = self.typer.expr(node.left, fr.ctx) | self.typer.expr(node.right, fr.ctx)
            if ('ext', 'Path') in ts or a[0] == 'pathjoin' or (a[0] == 'call' and a[1] == 'Path'):
                return ('pathjoin', a, b)
            return ('call', '/', (a, b))
        if isinstance(node.op, ast.Mod) and a[0] == 'lit' and isinstance(a[1], str):
            args = b[1] if b[0] == 'tuple' else (b,)
            import re as _re
            specs = _re.findall(r'%[sr]', a[1])
            pieces = _re.split(r'%[sr]', a[1])
            if a[1].count('%') == len(specs) and len(pieces) == len(args) + 1:
                parts = []
                for i, pc in enumerate(pieces):
                    parts.append(lit(pc))
                    if i < len(args):
                        parts.append(('str', args[i]) if specs[i] == '%s' else ('repr', args[i]))
                return ('cat', tuple(parts))
            return ('call', '%', (a, b))
        return ('call', type(node.op).__name__, (a, b))

    def _ev_UnaryOp(self, node, env, fr):
        if isinstance(node.op, ast.Not):
            return self._neg(self.ev_cond(node.operand, env, fr))
        v = self.ev(node.operand, env, fr)
        if isinstance(node.op, ast.USub) and v[0] == 'lit' and isinstance(v[1], (int, float)):
            return lit(-v[1])
        return ('call', type(node.op).__name__, (v,))

    def _ev_BoolOp(self, node, env, fr):
        parts = tuple(self.ev_cond(v, env, fr) for v in node.values)
        return ('and' if isinstance(node.op, ast.And) else 'or', parts)

    def _ev_Compare(self, node, env, fr):
        left = self.ev(node.left, env, fr)
        parts = []
        for op, comp in zip(node.ops, node.comparators):
            right = self.ev(comp, env, fr)
            parts.append(('cmp', type(op).__name__, left, right))
            left = right
        return parts[0] if len(parts) == 1 else ('and', tuple(parts))

    def _ev_IfExp(self, node, env, fr):
        c = self.ev_cond(node.test, env, fr)
        return ('cond', c, self.ev(node.body, env, fr), self.ev(node.orelse, env, fr))

    def _ev_NamedExpr(self, node, env, fr):
        v = self.ev(node.value, env, fr)
        self._assign(node.target, v, env, fr, node.value)
        return v

    def _ev_List(self, node, env, fr):
        return ('list', tuple(self.ev(e, env, fr) for e in node.elts))

    def _ev_Tuple(self, node, env, fr):
        return ('tuple', tuple(self.ev(e, env, fr) for e in node.elts))

    def _ev_Set(self, node, env, fr):
        return ('call', 'set', tuple(self.ev(e, env, fr) for e in node.elts))

    def _ev_Dict(self, node, env, fr):
        if any(k is None for k in node.keys):
            # {**a, 'k': v, **b}: union of mappings, later entries win
            parts, cur = [], []
            for k, v in zip(node.keys, node.values):
                if k is None:
                    if cur:
                        parts.append(('dict', tuple(cur)))
                        cur = []
                    parts.append(self.ev(v, env, fr))
                else:
                    cur.append((self.ev(k, env, fr), self.ev(v, env, fr)))
            if cur:
                parts.append(('dict', tuple(cur)))
            return parts[0] if len(parts) == 1 else ('call', 'merge', tuple(parts))
        return ('dict', tuple((self.ev(k, env, fr), self.ev(v, env, fr)) for k, v in zip(node.keys, node.values)))

    def _ev_Starred(self, node, env, fr):
        return ('call', '*', (self.ev(node.value, env, fr),))

    def _ev_Await(self, node, env, fr):
        return self.ev(node.value, env, fr)

    def _closure_as_lambda(self, info, cenv, fr):
        """`def f(x): return <expr>` used as a value (sort key, map function) is the lambda `lambda x: <expr>`."""
        st = info.node
        if not isinstance(st, ast.FunctionDef) or st.decorator_list:
            return None
        a = st.args
        if a.vararg or a.kwarg or a.kwonlyargs or a.posonlyargs or a.defaults or not a.args:
            return None
        body = [b for b in st.body if not (isinstance(b, ast.Expr) and isinstance(b.value, ast.Constant))]
        if len(body) != 1 or not isinstance(body[0], ast.Return) or body[0].value is None:
            return None
        if any(isinstance(n_, ast.Name) and n_.id == st.name for n_ in ast.walk(body[0].value)):
            return None
        uid = next(_uid)
        e = _Env(cenv)
        params = []
        for p_ in a.args:
            v = ('var', f'{p_.arg}#{uid}')
            e.set(p_.arg, v)
            params.append(v)
        sub = _Frame(Ctx(info, fr.ctx.recv), fr.self_term, fr.self_cls, fr.depth)
        return ('lam', tuple(params), self.ev(body[0].value, e, sub))

    def _ev_Lambda(self, node, env, fr):
        uid = next(_uid)
        e = _Env(env)
        params = []
        for a in node.args.args:
            v = ('var', f'{a.arg}#{uid}')
            e.set(a.arg, v)
            params.append(v)
        li = getattr(node, '_lambda_info', None)
        sub = _Frame(Ctx(li, fr.ctx.recv) if li else fr.ctx, fr.self_term, fr.self_cls, fr.depth)
        return ('lam', tuple(params), self.ev(node.body, e, sub))

    def _comp(self, node, env, fr, kind):
        if len(node.generators) != 1:
            return opaque(node)
        g = node.generators[0]
        seq = self.ev(g.iter, env, fr)
        uid = next(_uid)
        e = _Env(env)
        vars_ = self._bind_loop_vars(g.target, e, uid)
        for v, t in vars_.items():
            e.set(v, t)
        guard = self._conj([self.ev_cond(c, e, fr) for c in g.ifs])
        varnames = tuple(vars_[v] for v in self._target_order(g.target))
        if kind == 'dict':
            return ('mapdict', varnames, self.ev(node.key, e, fr), self.ev(node.value, e, fr), seq, guard)
        body = self.ev(node.elt, e, fr)
        t = ('map', varnames, body, seq, guard)
        return ('call', 'set', (t,)) if kind == 'set' else t

    def _ev_ListComp(self, node, env, fr):
        return self._comp(node, env, fr, 'list')

    def _ev_GeneratorExp(self, node, env, fr):
        return self._comp(node, env, fr, 'list')

    def _ev_SetComp(self, node, env, fr):
        return self._comp(node, env, fr, 'set')

    def _ev_DictComp(self, node, env, fr):
        return self._comp(node, env, fr, 'dict')

    def _ev_Subscript(self, node, env, fr):
        base = self.ev(node.value, env, fr)
        if isinstance(node.slice, ast.Slice):
            lo = self.ev(node.slice.lower, env, fr) if node.slice.lower is not None else NONE_T
            hi = self.ev(node.slice.upper, env, fr) if node.slice.upper is not None else NONE_T
            if node.slice.step is not None:
                return ('call', 'slice3', (base, lo, hi, self.ev(node.slice.step, env, fr)))
            return ('slice', base, lo, hi)
        idx = self.ev(node.slice, env, fr)
        # in-package __getitem__
        tg = self._protocol_target(node.value, '__getitem__', fr)
        if tg is not None:
            return self._inline_targets(tg, base, [idx], {}, fr, '__getitem__')
        if base[0] in ('tuple', 'list') and idx[0] == 'lit' and isinstance(idx[1], int) and -len(base[1]) <= idx[1] < len(base[1]):
            return base[1][idx[1]]
        return ('index', base, idx)

    def _protocol_target(self, recv_node, name, fr) -> Optional[List[Target]]:
        out = []
        for t in self.typer.expr(recv_node, fr.ctx):
            if t[0] == 'inst':
                exact = self._exact(recv_node, fr)
                for c in ([t[1]] if exact else t[1].all_subclasses()):
                    f = c.lookup(name)
                    if f is not None:
                        out.append(Target('func', f, ('inst', c)))
        return out or None

    def _exact(self, node, fr) -> bool:
        from .callgraph import is_exact_receiver
        return is_exact_receiver(self.typer, node, fr.ctx)

    # ---- attributes
    def _ev_Attribute(self, node, env, fr):
        if isinstance(node.value, ast.Name) and fr.depth == 0 and env.get(node.value.id) == ('self',):
            pv = env.get(f'self.{node.attr}')
            if pv is not None and pv[0] in ('map', 'mapdict', 'acc', 'dict', 'list'):
                return pv
        base = self.ev(node.value, env, fr)
        name = node.attr
        # module attribute
        if base[0] == 'global':
            return ('global', f'{base[1]}.{name}')
        ts, tgs = self.typer.attribute(node, fr.ctx)
        props = [t for t in tgs if t.via == 'property']
        if props:
            exact = self._exact(node.value, fr)
            expanded = []
            for tg in props:
                expanded.extend(self._expand(tg, exact, name))
            return self._inline_targets(expanded, base, [], {}, fr, name)
        return self._field(base, name, node, fr)

    def _field(self, base, name, node, fr):
        if base[0] == 'new' and isinstance(base[1], str):
            ci = self.prog.find_cls(base[1])
            if ci is not None and ci.lookup(name) is None and ci.lookup_class_attr(name)[1] is None:
                ga = ci.lookup('__getattr__')
                stores = self.typer.attr_store_exprs.get((ci.qualname, name))
                if ga is not None and not stores and ('getattr', ga.qualname) not in [s_[0:2] for s_ in self._stack] and fr.depth < MAX_DEPTH:
                    # attribute not defined by the class: served by its __getattr__
                    self._stack.append(('getattr', ga.qualname))
                    try:
                        return self._inline(ga, ('inst', ci), base, [lit(name)], {}, fr)
                    finally:
                        self._stack.pop()
        return ('attr', base, name)

    def _expand(self, tg: Target, exact: bool, name: str) -> List[Target]:
        if exact or tg.recv is None or tg.func.parent is not None:
            return [tg]
        kind, ci = tg.recv
        out, seen = [], set()
        for c in ci.all_subclasses():
            impl = c.lookup(name)
            if kind == 'cls' and c.metaclass is not None and (impl is None or c.metaclass.lookup(name) is not None and c.metaclass.lookup(name).is_property):
                impl = c.metaclass.lookup(name) or impl
            if impl is None:
                continue
            out.append(Target('func', impl, (kind, c), via=tg.via))
        return out or [tg]

    # ---- calls
    def _ev_Call(self, node: ast.Call, env, fr):
        args = [self.ev(a, env, fr) for a in node.args]
        kwargs = {k.arg: self.ev(k.value, env, fr) for k in node.keywords if k.arg}
        for k in node.keywords:
            if k.arg is None:
                # f(**mapping): a mapping with literal keys (e.g. the **kwargs of an inlined caller) binds by name
                v = self.ev(k.value, env, fr)
                if v[0] == 'dict' and all(kk[0] == 'lit' and isinstance(kk[1], str) for kk, _ in v[1]):
                    for kk, vv in v[1]:
                        kwargs.setdefault(kk[1], vv)
        f = node.func
        # closures / local callables
        if isinstance(f, ast.Name):
            v = env.get(f.id)
            if v is not None:
                if v[0] == 'closure':
                    info, cenv = self._closures[(v[1], v[2])]
                    return self._inline_closure(info, cenv, args, kwargs, fr)
                if v[0] == 'lam':
                    return self._apply_lam(v, args)
                return ('call', 'apply', (v,) + tuple(args))
            # a sibling closure (another nested function of an enclosing function) when this function is evaluated on its own
            g = fr.ctx.func
            while g is not None and g.parent is not None:
                sib = g.parent.nested.get(f.id)
                if sib is not None and sib is not g and not isinstance(sib.node, ast.Lambda):
                    root = env
                    while root.parent is not None:
                        root = root.parent
                    return self._inline_closure(sib, root, args, kwargs, fr)
                g = g.parent
            return self._call_named(f.id, node, args, kwargs, env, fr)
        if isinstance(f, ast.Attribute):
            if isinstance(f.value, ast.Call) and isinstance(f.value.func, ast.Name) and f.value.func.id == 'super' and fr.self_term is not None:
                recv = fr.self_term  # super().m(...) runs on the same object
            else:
                recv = self.ev(f.value, env, fr)
            return self._call_method(recv, f.attr, node, args, kwargs, env, fr)
        return ('call', 'apply', (self.ev(f, env, fr),) + tuple(args))

    def _apply_lam(self, lam, args):
        params, body = lam[1], lam[2]
        if len(params) != len(args):
            return ('call', 'apply', (lam,) + tuple(args))
        return substitute(body, dict(zip(params, args)))

    def _inline_closure(self, info: FuncInfo, cenv: _Env, args, kwargs, fr):
        key = ('closure', info.qualname)
        if key in [s[0:2] for s in self._stack] or fr.depth >= MAX_DEPTH:
            return ('rec', info.short, tuple(args))
        e = _Env(cenv)
        self._bind_params(info, e, args, kwargs, skip_self=False, fr=fr)
        sub = _Frame(Ctx(info, fr.ctx.recv), fr.self_term, fr.self_cls, fr.depth + 1)
        self._stack.append(key)
        try:
            self.inlined.add(info.qualname)
            return self._run_func(info, e, sub)
        finally:
            self._stack.pop()

    def _bind_params(self, func: FuncInfo, e: _Env, args, kwargs, skip_self, fr, self_term=None):
        params = list(func.pos_params)
        if skip_self and params:
            e.set(params[0], self_term)
            params = params[1:]
        a = func.node.args
        for i, p in enumerate(params):
            if i < len(args):
                e.set(p, args[i])
            elif p in kwargs:
                e.set(p, kwargs[p])
            else:
                d = func.param_default(p)
                sub = _Frame(Ctx(func, None), None, None, fr.depth)
                e.set(p, self.ev(d, _Env(), sub) if d is not None else ('p', p))
        for p in [x.arg for x in a.kwonlyargs]:
            if p in kwargs:
                e.set(p, kwargs[p])
            else:
                d = func.param_default(p)
                e.set(p, self.ev(d, _Env(), _Frame(Ctx(func, None), None, None, fr.depth)) if d is not None else ('p', p))
        if a.vararg:
            e.set(a.vararg.arg, ('tuple', tuple(args[len(params):])))
        if a.kwarg:
            e.set(a.kwarg.arg, ('dict', tuple((lit(k), v) for k, v in kwargs.items() if k not in params)))

    def _call_named(self, name, node, args, kwargs, env, fr):
        r = self.prog.resolve_global(fr.ctx.func.module, name)
        if r is not None and r[0] == 'func':
            if r[1].name in ('isinstance', 'issubclass') and r[1].module.name.endswith('utils.clazz') and len(args) == 2:
                # the package's autoreload-tolerant shims: same truth value as the builtins (trusted)
                return ('isinst' if r[1].name == 'isinstance' else 'issub', args[0], args[1])
            return self._inline(r[1], None, None, args, kwargs, fr)
        if r is not None and r[0] == 'class':
            return ('new', r[1].short, tuple(args), tuple(sorted(kwargs.items())))
        dotted = name
        if r is not None and r[0] == 'ext':
            dotted = r[1]
        return self._ext_call(dotted, node, args, kwargs, env, fr)

    def _ext_call(self, name, node, args, kwargs, env, fr):
        base = name.split('.')[-1]
        if name in ('sorted',) or name == 'builtins.sorted':
            key = kwargs.get('key')
            rev = kwargs.get('reverse')
            t = ('sorted', args[0] if args else opaque(node), key if key is not None else NONE_T)
            return ('call', 'reversed', (t,)) if rev is not None and rev != lit(False) else t
        if name == 'repr':
            return ('repr', args[0])
        if name == 'str':
            return ('str', args[0]) if args else lit('')
        if name in ('list', 'tuple') and len(args) == 1:
            return args[0] if args[0][0] in ('map', 'sorted', 'list', 'items', 'keys', 'values') else ('call', name, tuple(args))
        if name in ('list', 'dict') and not args and not kwargs:
            return ('list', ()) if name == 'list' else ('dict', ())
        if name == 'set' and not args:
            return ('call', 'set', ())
        if name in ('isinstance', 'custom_isinstance') and len(args) == 2:
            return ('isinst', args[0], args[1])
        if name == 'len' and len(args) == 1:
            return ('call', 'len', (args[0],))
        if name in ('deepcopy', 'copy.deepcopy', 'copy.copy', 'copy'):
            if getattr(self, 'keep_copies', False) and args:
                return ('call', 'copy.deepcopy' if 'deep' in name else 'copy.copy', (args[0],))   # object identity matters to the caller
            return args[0] if args else opaque(node)
        if base == 'Path' and name in ('Path', 'pathlib.Path') and len(args) == 1:
            return ('call', 'Path', (args[0],))
        if name == 'getattr' and len(args) >= 2 and args[1][0] == 'lit' and isinstance(args[1][1], str) and len(args) == 2:
            return ('attr', args[0], args[1][1])
        return ('call', name, tuple(args) + tuple(('kw', k, v) for k, v in sorted(kwargs.items())))

    def _call_method(self, recv, name, node: ast.Call, args, kwargs, env, fr):
        f = node.func
        # accumulator views inside loops
        if recv[0] == 'global':
            dotted = f'{recv[1]}.{name}'
            r = None
            # module function of the package?
            parts = _dotted(f)
            if parts:
                head = parts.split('.')[0]
                g = self.prog.resolve_global(fr.ctx.func.module, head)
                cur = g
                for pth in parts.split('.')[1:]:
                    if cur is None:
                        break
                    if cur[0] == 'module':
                        cur = self.prog.resolve_dotted_in_module(cur[1], pth)
                    elif cur[0] == 'class':
                        m = cur[1].lookup(pth)
                        cur = ('func', m) if m is not None else None
                    else:
                        cur = None
                r = cur
            if r is not None and r[0] == 'func':
                fn = r[1]
                if fn.cls is not None and not fn.is_static and not fn.is_classmethod and fn.parent is None:
                    # unbound method call C.m(obj, ...)
                    return self._inline(fn, ('inst', fn.cls), args[0] if args else opaque(node), args[1:], kwargs, fr)
                return self._inline(fn, ('cls', fn.cls) if fn.is_classmethod else None, recv if fn.is_classmethod else None, args, kwargs, fr)
            if r is not None and r[0] == 'class':
                return ('new', r[1].short, tuple(args), tuple(sorted(kwargs.items())))
            return self._ext_call(dotted, node, args, kwargs, env, fr)
        # typed receivers: in-package methods
        tgs = self.typer.call_targets(node, fr.ctx)
        funcs = [t for t in tgs if t.kind == 'func']
        if funcs and len(funcs) == len(tgs):
            exact = self._exact(f.value, fr)
            expanded = []
            for tg in funcs:
                expanded.extend(self._expand(tg, exact or tg.recv is None, name))
            return self._inline_targets(expanded, recv, args, kwargs, fr, name)
        # canonical string / container operations on external receivers
        if name == 'join' and len(args) == 1:
            return ('join', recv, args[0])
        if name in ('items', 'keys', 'values') and not args:
            return (name, recv)
        if name == 'encode':
            return ('call', 'encode', (recv,) + tuple(args) + tuple(('kw', k_, v_) for k_, v_ in sorted((kwargs or {}).items()) if k_ is not None))
        if name == 'format' and recv[0] == 'lit' and isinstance(recv[1], str) and not kwargs:
            # automatic fields only: {} {!s} {!r} (also the explicit positions {0} {1!r} ... when they come in order)
            import re as _re
            fields = list(_re.finditer(r'\{(\d*)(![rs])?\}', recv[1]))
            if len(fields) == len(args) and recv[1].count('{') == len(args) and recv[1].count('}') == len(args) and \
                    all(m.group(1) in ('', str(i)) for i, m in enumerate(fields)):
                parts, pos = [], 0
                for i, m in enumerate(fields):
                    parts.append(lit(recv[1][pos:m.start()]))
                    parts.append(('repr', args[i]) if m.group(2) == '!r' else ('str', args[i]))
                    pos = m.end()
                parts.append(lit(recv[1][pos:]))
                return ('cat', tuple(parts))
        if name == 'get' and len(args) in (1, 2) and not funcs:
            return ('method', recv, 'get', tuple(args))
        return ('method', recv, name, tuple(args) + tuple(('kw', k, v) for k, v in sorted(kwargs.items())))

    # ---- inlining
    def _is_user_hook(self, func: FuncInfo) -> bool:
        if not func.is_abstract:
            return False
        body = [s for s in func.node.body if not (isinstance(s, ast.Expr) and isinstance(s.value, ast.Constant))]
        return all(isinstance(s, (ast.Pass, ast.Raise)) for s in body)

    def _inline_targets(self, tgs: List[Target], recv_term, args, kwargs, fr, name):
        results = []
        seen = set()
        for tg in tgs:
            key = (id(tg.func), tg.recv[1].qualname if tg.recv else None)
            if key in seen:
                continue
            seen.add(key)
            if self._is_user_hook(tg.func):
                has_impl = any(not self._is_user_hook(o.func) for o in tgs)
                t = ('user', f'{tg.func.cls.short}.{tg.func.name}' if tg.func.cls else tg.func.short, recv_term, tuple(args))
                if has_impl and tg.recv is not None and tg.recv[1].subclasses:
                    # abstract base with in-package implementations: user subclasses still possible -> keep hook
                    pass
                results.append((tg.recv[1].short if tg.recv else '', t))
                continue
            t = self._inline(tg.func, tg.recv, recv_term, args, kwargs, fr)
            results.append((tg.recv[1].short if tg.recv else '', t))
        distinct = []
        for c, t in results:
            if t not in [x for _, x in distinct]:
                distinct.append((c, t))
        if len(distinct) == 1:
            return distinct[0][1]
        # group classes by term
        groups = {}
        for c, t in results:
            groups.setdefault(t, []).append(c)
        return ('dispatch', name, tuple(sorted(((tuple(sorted(cs)), t) for t, cs in groups.items()), key=lambda x: x[0])))

    def _inline(self, func: FuncInfo, recv, recv_term, args, kwargs, fr: _Frame):
        key = ('func', func.qualname, recv[1].qualname if recv else None)
        if key in self._stack or fr.depth >= MAX_DEPTH:
            return ('rec', func.short, tuple(args))
        if func.qualname in self.stop_at:
            return ('ref', func.short, recv_term if recv_term is not None else NONE_T, tuple(args) + tuple(('kw', k_, v_) for k_, v_ in sorted((kwargs or {}).items())))
        e = _Env()
        bound = func.cls is not None and func.parent is None and not func.is_static and recv is not None
        self._bind_params(func, e, args, kwargs, skip_self=bound, fr=fr, self_term=recv_term)
        sub = _Frame(Ctx(func, recv), recv_term if bound else None, recv[1] if recv else None, fr.depth + 1)
        self._stack.append(key)
        try:
            self.inlined.add(func.qualname)
            return self._run_func(func, e, sub)
        finally:
            self._stack.pop()


# ====================================================================== substitution / normalisation
# Terms are DAGs (shared tuples).  Every pass below is memoised by object identity so that cost is linear in the
# number of distinct nodes, not in the size of the unfolded tree.

def assume(t, decide):
    """The term under an assumption: decide(test term) -> True / False / None (unknown) is applied to the test of every
    `cond`, to the operands of `or` / `and`, and to `not`; result is normalised."""
    memo = {}

    def truth(c):
        if not (isinstance(c, tuple) and c):
            return None
        v = decide(c)
        if v is not None:
            return v
        if c[0] == 'not':
            v = truth(c[1])
            return None if v is None else (not v)
        if c[0] == 'lit':
            return bool(c[1])
        if c[0] in ('and', 'or') and isinstance(c[1], tuple):
            vs = [truth(p_) for p_ in c[1]]
            if c[0] == 'and':
                return False if any(v is False for v in vs) else (True if all(v is True for v in vs) else None)
            return True if any(v is True for v in vs) else (False if all(v is False for v in vs) else None)
        return None

    def go(x):
        if not isinstance(x, tuple):
            return x
        k = id(x)
        if k in memo:
            return memo[k][1]
        if x and x[0] == 'cond':
            v = truth(x[1])
            if v is None:
                tt = go(x[1])
                v = True if tt == ('lit', True) else False if tt == ('lit', False) else None
            r = go(x[2]) if v is True else go(x[3]) if v is False else tuple(go(y) for y in x)
        elif x and x[0] == 'and' and isinstance(x[1], tuple):
            parts = []
            for p_ in x[1]:
                v = truth(p_)
                if v is True and p_ is not x[1][-1]:
                    continue
                if v is True:
                    parts.append(('lit', True) if not parts else go(p_))
                    continue
                if v is False:
                    parts = [('lit', False)]
                    break
                parts.append(go(p_))
            parts = [q_ for q_ in parts if q_ != ('lit', True)] or [('lit', True)]
            r = parts[0] if len(parts) == 1 else ('and', tuple(parts))
        elif x and x[0] == 'or' and isinstance(x[1], tuple):
            parts = []
            r = None
            for p_ in x[1]:
                v = truth(p_)
                if v is True:
                    parts.append(go(p_))
                    break
                if v is False and p_ is not x[1][-1]:
                    continue
                parts.append(go(p_))
            r = parts[0] if len(parts) == 1 else ('or', tuple(parts))
        else:
            r = tuple(go(y) for y in x)
        memo[k] = (x, r)
        return r

    return normalise(go(t))


def truth_under(t, decide):
    """Three-valued truth of a condition term under an assumption (see assume): True / False / None."""
    def truth(c):
        if not (isinstance(c, tuple) and c):
            return None
        v = decide(c)
        if v is not None:
            return v
        if c[0] == 'not':
            v = truth(c[1])
            return None if v is None else (not v)
        if c[0] == 'lit':
            return bool(c[1])
        if c[0] in ('and', 'or') and isinstance(c[1], tuple):
            vs = [truth(p_) for p_ in c[1]]
            if c[0] == 'and':
                return False if any(v is False for v in vs) else (True if all(v is True for v in vs) else None)
            return True if any(v is True for v in vs) else (False if all(v is False for v in vs) else None)
        if c[0] == 'cond':
            v = truth(c[1])
            if v is None:
                a, b = truth(c[2]), truth(c[3])
                return a if a == b else None
            return truth(c[2]) if v else truth(c[3])
        return None
    return truth(t)


def factor_cond(t):
    """c ? Cat[a, s, x] : Cat[b, s, x]  is  Cat[c ? a : b, s, x]: a decision between two concatenations of the same shape is moved into the
    parts that differ (the inverse of lifting; used by rules that read the shape of a rendered text)."""
    if not (isinstance(t, tuple) and t and t[0] == 'cond'):
        return t
    a, b = factor_cond(t[2]), factor_cond(t[3])
    if a[0] == 'cat' and b[0] == 'cat' and len(a[1]) == len(b[1]):
        return ('cat', tuple(x if x == y else ('cond', t[1], x, y) for x, y in zip(a[1], b[1])))
    return t


def cond_leaves(t):
    """Alternatives of a value term: leaves of nested cond / or nodes."""
    if isinstance(t, tuple) and t and t[0] == 'cond':
        return cond_leaves(t[2]) + cond_leaves(t[3])
    if isinstance(t, tuple) and t and t[0] == 'or' and isinstance(t[1], tuple):
        return [l for p_ in t[1] for l in cond_leaves(p_)]
    return [t]


def substitute(t, mapping: Dict[tuple, tuple]):
    memo = {}

    def go(x):
        if not isinstance(x, tuple):
            return x
        i = id(x)
        if i in memo:
            return memo[i][1]
        if x in mapping and len(x) == 2 and x[0] == 'var':
            r = mapping[x]
        else:
            r = tuple(go(y) for y in x)
            if all(a is b for a, b in zip(r, x)):
                r = x
        memo[i] = (x, r)
        return r

    return go(t)


def dag_nodes(t) -> List[tuple]:
    """Every distinct (by identity) tuple node of the term, parents before children."""
    seen = {}
    out = []
    stack = [t]
    while stack:
        x = stack.pop()
        if not isinstance(x, tuple) or not x or id(x) in seen:
            continue
        seen[id(x)] = x
        if isinstance(x[0], str):
            out.append(x)
        for y in reversed(x):
            if isinstance(y, tuple):
                stack.append(y)
    return out


_NORMALISED: set = set()


def normalise(t):
    if id(t) in _NORMALISED:
        return t
    r = _normalise(t)
    _NORMALISED.add(id(r))  # interned terms live for the whole run, so their ids are stable
    return r


def _normalise(t):
    # canonical bound-variable names first: two evaluations of the same code must compare equal during rewriting
    t = intern_term(_alpha(t))
    memo = {}
    keep = []

    def go(x):
        if not isinstance(x, tuple) or not x:
            return x
        i = id(x)
        if i in memo:
            return memo[i]
        k = x[0]
        if k in ('lit', 'p', 'var', 'self', 'opaque', 'bottom', 'global'):
            r = x
        elif k == 'closure':
            r = ('closure', x[1])
        else:
            y = tuple(go(c) if isinstance(c, tuple) else c for c in x)
            r = _norm1(y)
            if r is not y and isinstance(r, tuple) and r and r[0] in ('cat', 'cond', 'and', 'or', 'not'):
                # result of a rewrite may enable another local rewrite
                r2 = _norm1(r)
                r = r2
        memo[i] = r
        keep.append(x)
        return r

    return intern_term(_alpha(go(t)))


_INTERN: Dict[str, tuple] = {}


def intern_term(t):
    """Hash-consing: structurally equal sub-terms become one object (so DAG walks and sharing are canonical)."""
    memo = {}

    def go(x):
        if not isinstance(x, tuple):
            return x
        i = id(x)
        if i in memo:
            return memo[i][1]
        y = tuple(go(c) for c in x)
        h = hashlib.sha1()
        for c in y:
            h.update((('h:%x' % id(c)) if isinstance(c, tuple) else 'a:' + json.dumps(c, default=str)).encode())
            h.update(b'|')
        key = h.hexdigest()
        r = _INTERN.setdefault(key, y)
        memo[i] = (x, r)
        return r

    return go(t)


def _neg_weight(c) -> int:
    if not isinstance(c, tuple) or not c:
        return 0
    if c[0] == 'not':
        return 1 + _neg_weight(c[1])
    if c[0] == 'cmp' and c[1] in ('IsNot', 'NotEq', 'NotIn'):
        return 1
    if c[0] in ('and', 'or') and isinstance(c[1], tuple):
        return sum(_neg_weight(p_) for p_ in c[1])
    return 0


def _cond_depth(t, d=0):
    if d > 6 or not (isinstance(t, tuple) and t and t[0] == 'cond'):
        return d
    return max(_cond_depth(t[2], d + 1), _cond_depth(t[3], d + 1))


def _norm1(t):
    k = t[0]
    if k == 'str':
        return t[1] if is_stringy(t[1]) else t
    if k == 'index' and len(t) == 3 and t[2][0] == 'lit' and isinstance(t[2][1], int) and not isinstance(t[2][1], bool):
        base, i = t[1], t[2][1]
        if base[0] in ('tuple', 'list') and -len(base[1]) <= i < len(base[1]):
            return base[1][i]
        # element of a conditional tuple: (a, b) if c else (d, e)
        if base[0] == 'cond' and (base[2][0] in ('tuple', 'list', 'cond') or base[3][0] in ('tuple', 'list', 'cond')) and _cond_depth(base) <= 4:
            return _norm1(('cond', base[1], _norm1(('index', base[2], t[2])), _norm1(('index', base[3], t[2]))))
        return t
    if k == 'cat':
        parts = []
        for p in t[1]:
            # inside a concatenation str(x) and x are the same text on every non-raising path (x + '...' requires a str)
            p = p[1] if p[0] == 'str' else p
            if p[0] == 'cat':
                parts.extend(p[1])
            else:
                parts.append(p)
        fused = []
        for p in parts:
            if p[0] == 'lit' and isinstance(p[1], str):
                if p[1] == '':
                    continue
                if fused and fused[-1][0] == 'lit' and isinstance(fused[-1][1], str):
                    fused[-1] = ('lit', fused[-1][1] + p[1])
                    continue
            fused.append(p)
        if not fused:
            return ('lit', '')
        if len(fused) == 1 and is_stringy(fused[0]):
            return fused[0]
        return ('cat', tuple(fused))
    if k == 'cond':
        c, a, b = t[1], t[2], t[3]
        if a == BOTTOM:
            return b
        if b == BOTTOM:
            return a
        if a is b or a == b:
            return a
        if c == ('lit', True):
            return a
        if c == ('lit', False) or c == ('lit', None):
            return b
        if c[0] in ('and', 'or'):
            # canonical polarity of a compound test: the form with fewer negations (De Morgan), branches swapped
            nc = _norm1(('not', c))
            if _neg_weight(nc) < _neg_weight(c):
                return _norm1(('cond', nc, b, a))
        if a[0] == 'cond' and a[1] == c:
            return _norm1(('cond', c, a[2], b))   # inside the true branch the same test is true
        if b[0] == 'cond' and b[1] == c:
            return _norm1(('cond', c, a, b[3]))
        if c[0] == 'cond' and _cond_depth(c) <= 3:
            # the test is itself conditional: decide it branch by branch
            return _norm1(('cond', c[1], _norm1(('cond', c[2], a, b)), _norm1(('cond', c[3], a, b))))
        if c[0] == 'not':
            return ('cond', c[1], b, a)
        if c[0] == 'cmp' and c[1] in ('IsNot', 'NotEq', 'NotIn'):
            return _norm1(('cond', ('cmp', {'IsNot': 'Is', 'NotEq': 'Eq', 'NotIn': 'In'}[c[1]], c[2], c[3]), b, a))
        # if c: (if d: X else Y) else Y   ==   if c and d: X else Y
        if a[0] == 'cond' and (a[3] is b or a[3] == b):
            return _norm1(('cond', _norm1(('and', (c, a[1]))), a[2], b))
        # if c: X else (if d: X else Y)   ==   if c or d: X else Y
        if b[0] == 'cond' and (b[2] is a or b[2] == a):
            return _norm1(('cond', _norm1(('or', (c, b[1]))), a, b[3]))
        return t
    if k == 'slice':
        if t[2] == ('lit', 0):
            return ('slice', t[1], NONE_T, t[3])
        return t
    if k == 'join':
        sep, seq = t[1], t[2]
        if seq[0] == 'method' and seq[2] == 'split' and len(seq[3]) == 1 and seq[3][0][0] == 'lit' and isinstance(seq[3][0][1], str) and seq[3][0][1] and sep[0] == 'lit':
            return ('method', seq[1], 'replace', (seq[3][0], sep))   # sep.join(x.split(old)) == x.replace(old, sep)
        if seq[0] in ('list', 'tuple') and sep[0] == 'lit' and isinstance(sep[1], str) and seq[1]:
            parts = []
            for i, x in enumerate(seq[1]):
                if i:
                    parts.append(sep)
                parts.append(x if is_stringy(x) else ('str', x))
            return _norm1(('cat', tuple(parts)))
        return t
    if k == 'sorted':
        key = t[2]
        # sorted(d.items(), key=lambda kv: kv[0]) == sorted(d.items()): dict keys are unique, so the value never decides
        if key[0] == 'lam' and len(key[1]) == 1 and key[2] == ('index', key[1][0], ('lit', 0)) and t[1][0] == 'items':
            return ('sorted', t[1], NONE_T)
        return t
    if k == 'call' and t[1] == 'encode':
        args = t[2]

        def _default(i, a):
            # the defaults spelled out: encoding utf-8 (first positional / keyword), errors='strict'
            if a[0] == 'lit' and i == 1:
                return str(a[1]).lower().replace('-', '') == 'utf8'
            if a[0] == 'lit' and i == 2:
                return a[1] == 'strict'
            if a[0] == 'kw' and a[2][0] == 'lit':
                return (a[1] == 'encoding' and str(a[2][1]).lower().replace('-', '') == 'utf8') or (a[1] == 'errors' and a[2][1] == 'strict')
            return False
        kept = tuple(a for i, a in enumerate(args) if i == 0 or not _default(i, a))
        if kept != args:
            return ('call', 'encode', kept)
        return t
    if k == 'not':
        c = t[1]
        if c[0] == 'not':
            return c[1]
        if c[0] == 'lit' and isinstance(c[1], bool):
            return ('lit', not c[1])
        if c[0] == 'cmp':
            flip = {'Is': 'IsNot', 'IsNot': 'Is', 'Eq': 'NotEq', 'NotEq': 'Eq', 'In': 'NotIn', 'NotIn': 'In'}
            if c[1] in flip:
                return ('cmp', flip[c[1]], c[2], c[3])
        if c[0] in ('and', 'or') and isinstance(c[1], tuple):
            # De Morgan (order of the operands is kept, so short-circuit evaluation is the same)
            return _norm1(('or' if c[0] == 'and' else 'and', tuple(_norm1(('not', p_)) for p_ in c[1])))
        return t
    if k in ('and', 'or'):
        parts = []
        for p in t[1]:
            if p[0] == k:
                parts.extend(p[1])
            else:
                parts.append(p)
        unit = ('lit', k == 'and')
        zero = ('lit', k != 'and')
        if any(p == zero for p in parts):
            return zero
        parts = [p for p in parts if p != unit]
        if not parts:
            return unit
        if len(parts) == 1:
            return parts[0]
        return (k, tuple(parts))
    if k == 'cmp':
        if t[2][0] == 'lit' and t[3][0] == 'lit' and t[1] in ('Is', 'Eq', 'IsNot', 'NotEq'):
            same = t[2][1] == t[3][1] and type(t[2][1]) is type(t[3][1])
            return ('lit', same if t[1] in ('Is', 'Eq') else not same)
        # len(x) == 0  ->  not x ;  len(x) > 0 / != 0 -> x   (emptiness of a sized container)
        if t[2][0] == 'call' and t[2][1] == 'len' and t[3] == ('lit', 0):
            if t[1] == 'Eq':
                return _norm1(('not', t[2][2][0]))
            if t[1] in ('Gt', 'NotEq'):
                return t[2][2][0]
        return t
    if k == 'call' and t[1] == 'len' and len(t[2]) == 1 and t[2][0][0] == 'lit' and isinstance(t[2][0][1], str):
        return ('lit', len(t[2][0][1]))
    if k == 'call' and t[1] == 'USub' and len(t[2]) == 1 and t[2][0][0] == 'lit' and isinstance(t[2][0][1], (int, float)):
        return ('lit', -t[2][0][1])
    if k == 'map':
        vars_, body, seq, guard = t[1], t[2], t[3], t[4]
        if guard is None and len(vars_) == 1 and body == vars_[0]:
            return seq
        # (b) map over a map: compose (a generator consumed by a filtering comprehension)
        if len(vars_) == 1 and seq[0] == 'map':
            inner_vars, inner_body, inner_seq, inner_guard = seq[1], seq[2], seq[3], seq[4]
            sub = {vars_[0]: inner_body}
            nb = _subst_vars(body, sub)
            ng = _subst_vars(guard, sub) if guard is not None else None
            gs = [g for g in (inner_guard, ng) if g is not None]
            g2 = None if not gs else (gs[0] if len(gs) == 1 else _norm1(('and', tuple(gs))))
            return _norm1(('map', inner_vars, nb, inner_seq, g2))
        # (c) enumerate whose index is not used
        if seq[0] == 'call' and seq[1] in ('enumerate', 'builtins.enumerate') and len(seq[2]) == 1 and len(vars_) >= 2:
            idx = vars_[0]
            if not _mentions(body, idx) and (guard is None or not _mentions(guard, idx)):
                ren = {vars_[i]: vars_[i - 1] for i in range(1, len(vars_))}
                nb, ng = body, guard
                for old_v in vars_[1:]:
                    nb = _subst_vars(nb, {old_v: ren[old_v]})
                    ng = _subst_vars(ng, {old_v: ren[old_v]}) if ng is not None else None
                return _norm1(('map', tuple(vars_[:-1]), nb, seq[2][0], ng))
        # (a) sorted keys + indexing == sorted items
        r = _keys_to_items(t)
        if r is not None:
            return r
        return t
    if k == 'mapdict':
        vars_, kb, vb, seq, guard = t[1], t[2], t[3], t[4], t[5]
        # a dict comprehension over a mapped sequence: compose ({n: f(n) for n in [g(p) for p in ps]})
        if len(vars_) == 1 and seq[0] == 'map':
            inner_vars, inner_body, inner_seq, inner_guard = seq[1], seq[2], seq[3], seq[4]
            sub = {vars_[0]: inner_body}
            nk, nv = _subst_vars(kb, sub), _subst_vars(vb, sub)
            ng = _subst_vars(guard, sub) if guard is not None else None
            gs = [g_ for g_ in (inner_guard, ng) if g_ is not None]
            g2 = None if not gs else (gs[0] if len(gs) == 1 else _norm1(('and', tuple(gs))))
            return _norm1(('mapdict', inner_vars, nk, nv, inner_seq, g2))
        if seq[0] == 'call' and seq[1] in ('enumerate', 'builtins.enumerate') and len(seq[2]) == 1 and len(vars_) >= 2:
            idx = vars_[0]
            if not _mentions(kb, idx) and not _mentions(vb, idx) and (guard is None or not _mentions(guard, idx)):
                ren = {vars_[i]: vars_[i - 1] for i in range(1, len(vars_))}
                nk, nv, ng = kb, vb, guard
                for old_v in vars_[1:]:
                    nk = _subst_vars(nk, {old_v: ren[old_v]})
                    nv = _subst_vars(nv, {old_v: ren[old_v]})
                    ng = _subst_vars(ng, {old_v: ren[old_v]}) if ng is not None else None
                return ('mapdict', tuple(vars_[:-1]), nk, nv, seq[2][0], ng)
        return t
    if k == 'union':
        parts = []
        for p in t[1]:
            if not any(p is q or p == q for q in parts):
                parts.append(p)
        if len(parts) == 1:
            return parts[0]
        return ('union', tuple(sorted(parts, key=term_hash)))
    if k == 'acc':
        return ('opaque', '<accumulator>')
    return t


_BINDERS = {'map': (1, (2, 4)), 'mapdict': (1, (2, 3, 5)), 'lam': (1, (2,))}


def _mentions(t, v) -> bool:
    return any(x is v or x == v for x in dag_nodes(t)) if isinstance(t, tuple) else False


def _subst_vars(t, mapping):
    """Replace bound-variable leaves (exact match) by terms; DAG-memoised."""
    if t is None:
        return None
    memo = {}

    def go(x):
        if not isinstance(x, tuple):
            return x
        i = id(x)
        if i in memo:
            return memo[i]
        if len(x) == 2 and x[0] == 'var' and x in mapping:
            r = mapping[x]
        else:
            r = tuple(go(y) for y in x)
            if all(a is b for a, b in zip(r, x)):
                r = x
        memo[i] = r
        return r

    return go(t)


def _keys_to_items(t):
    """map over sorted(D) [or sorted(keys(D))] whose body reads D[k]  ==  map over sorted(items(D)) with (k, v)."""
    vars_, body, seq, guard = t[1], t[2], t[3], t[4]
    if len(vars_) != 1 or seq[0] != 'sorted' or seq[2] != NONE_T:
        return None
    d = seq[1]
    if d[0] == 'keys':
        d = d[1]
    if d[0] in ('items', 'values', 'call', 'list', 'tuple', 'map', 'sorted', 'lit'):
        return None
    kvar = vars_[0]
    idx = ('index', d, kvar)
    if not (_mentions(body, idx) or (guard is not None and _mentions(guard, idx))):
        return None
    name = kvar[1]
    if not (isinstance(name, str) and name.startswith('b') and name.endswith('.0')):
        return None
    vvar = ('var', name[:-2] + '.1')
    memo = {}

    def go(x):
        if not isinstance(x, tuple):
            return x
        if x == idx:
            return vvar
        i = id(x)
        if i in memo:
            return memo[i]
        r = tuple(go(y) for y in x)
        memo[i] = r
        return r

    nb = go(body)
    ng = go(guard) if guard is not None else None
    return ('map', (kvar, vvar), nb, ('sorted', ('items', d), NONE_T), ng)


def _alpha(t):
    """Canonical names for bound variables: a variable is named after the nesting depth of its binder and its
    position in the binder (`b<depth>.<i>`), so two evaluations of the same expression get identical terms no matter
    how many other binders were instantiated in between.  Variables without a binder keep first-occurrence names."""
    mapping = {}
    seen = set()

    def assign(x, depth):
        if not isinstance(x, tuple) or not x:
            return
        key = (id(x), depth)
        if key in seen:
            return
        seen.add(key)
        k = x[0]
        if k in _BINDERS and len(x) > max(_BINDERS[k][1]):
            vi, scoped = _BINDERS[k]
            for i, v in enumerate(x[vi]):
                if isinstance(v, tuple) and len(v) == 2 and v[0] == 'var' and v[1] not in mapping:
                    mapping[v[1]] = f'b{depth}.{i}'
            for idx, c in enumerate(x):
                if isinstance(c, tuple):
                    assign(c, depth + 1 if idx in scoped else depth)
            return
        for c in x:
            if isinstance(c, tuple):
                assign(c, depth)

    assign(t, 0)
    free = 0
    for x in dag_nodes(t):
        if len(x) == 2 and x[0] == 'var' and isinstance(x[1], str) and x[1] not in mapping:
            mapping[x[1]] = f'f{free}'
            free += 1
    memo = {}

    def go(x):
        if not isinstance(x, tuple):
            return x
        i = id(x)
        if i in memo:
            return memo[i]
        if len(x) == 2 and x[0] == 'var' and isinstance(x[1], str):
            r = ('var', mapping.get(x[1], x[1]))
        else:
            r = tuple(go(y) for y in x)
            if all(a is b for a, b in zip(r, x)):
                r = x
        memo[i] = r
        return r

    return go(t)


def term_hash(t, _memo=None) -> str:
    """Merkle hash of a term, memoised by identity."""
    memo = {} if _memo is None else _memo

    def go(x):
        if not isinstance(x, tuple):
            return 'a:' + json.dumps(x, default=str)
        i = id(x)
        if i in memo:
            return memo[i][1]
        h = hashlib.sha1()
        for y in x:
            h.update(go(y).encode())
            h.update(b'|')
        r = 'h:' + h.hexdigest()[:20]
        memo[i] = (x, r)
        return r

    return go(t)


def merkle(t) -> Tuple[str, Dict[str, list]]:
    """(top hash, table hash -> [children as atoms or hash refs]) for the whole DAG."""
    memo = {}
    top = term_hash(t, memo)
    table = {}
    for x, h in memo.values():
        row = []
        for y in x:
            if isinstance(y, tuple):
                row.append({'h': memo[id(y)][1]})
            else:
                row.append(y)
        table[h] = row
    return top, table


def term_size(t) -> int:
    return len(dag_nodes(t))


def dumps(t) -> str:
    return term_hash(t)


def to_jsonable(t):
    if isinstance(t, tuple):
        return [to_jsonable(x) for x in t]
    return t


def from_jsonable(j):
    if isinstance(j, list):
        return tuple(from_jsonable(x) for x in j)
    return j


def pretty_shared(t, threshold=12, width=100000) -> str:
    """Rendering with let-bindings for shared sub-terms: `$1 = ...` lines, then the body."""
    nodes = dag_nodes(t)
    refs = {}
    for x in nodes:
        for y in x:
            if isinstance(y, tuple):
                refs[id(y)] = refs.get(id(y), 0) + 1
    size = {}
    for x in reversed(nodes):
        size[id(x)] = 1 + sum(size.get(id(y), 1) for y in x if isinstance(y, tuple))
    names = {}
    order = []
    for x in reversed(nodes):  # children first
        if refs.get(id(x), 0) > 1 and size[id(x)] >= threshold and x[0] not in ('lit', 'var', 'p', 'self', 'global'):
            names[id(x)] = f'${len(names) + 1}'
            order.append(x)
    lines = []
    for x in order:
        lines.append(f'{names[id(x)]} = {_pretty(x, names, top=True)}')
    lines.append(_pretty(t, names, top=True))
    return '\n'.join(lines)


def pretty(t) -> str:
    return _pretty(t, {}, top=True)


def _pretty(t, names, top=False) -> str:
    """Compact human-readable rendering."""
    if not isinstance(t, tuple) or not t:
        return repr(t)
    if not top and id(t) in names:
        return names[id(t)]
    pretty = lambda x: _pretty(x, names)  # noqa: E731
    k = t[0]
    if k == 'lit':
        return repr(t[1])
    if k == 'self':
        return 'self'
    if k in ('p', 'var', 'global'):
        return str(t[1])
    if k == 'attr':
        return f'{pretty(t[1])}.{t[2]}'
    if k == 'cat':
        return 'Cat[' + ', '.join(pretty(x) for x in t[1]) + ']'
    if k in ('str', 'repr', 'items', 'keys', 'values', 'not'):
        return f'{k.capitalize()}({pretty(t[1])})'
    if k == 'join':
        return f'Join({pretty(t[1])}, {pretty(t[2])})'
    if k == 'map':
        g = f' if {pretty(t[4])}' if t[4] is not None else ''
        return f'Map({pretty(t[2])} for {",".join(pretty(v) for v in t[1])} in {pretty(t[3])}{g})'
    if k == 'mapdict':
        g = f' if {pretty(t[5])}' if t[5] is not None else ''
        return f'MapDict({pretty(t[2])}: {pretty(t[3])} for {",".join(pretty(v) for v in t[1])} in {pretty(t[4])}{g})'
    if k == 'sorted':
        return f'Sorted({pretty(t[1])}' + (f', key={pretty(t[2])})' if t[2] != NONE_T else ')')
    if k == 'cond':
        return f'Cond({pretty(t[1])} ? {pretty(t[2])} : {pretty(t[3])})'
    if k == 'cmp':
        return f'({pretty(t[2])} {t[1]} {pretty(t[3])})'
    if k in ('and', 'or'):
        return '(' + f' {k} '.join(pretty(x) for x in t[1]) + ')'
    if k == 'isinst':
        return f'isinstance({pretty(t[1])}, {pretty(t[2])})'
    if k == 'call':
        return f'{t[1]}(' + ', '.join(pretty(x) for x in t[2]) + ')'
    if k == 'method':
        return f'{pretty(t[1])}.{t[2]}(' + ', '.join(pretty(x) for x in t[3]) + ')'
    if k == 'slice':
        return f'{pretty(t[1])}[{"" if t[2] == NONE_T else pretty(t[2])}:{"" if t[3] == NONE_T else pretty(t[3])}]'
    if k == 'index':
        return f'{pretty(t[1])}[{pretty(t[2])}]'
    if k == 'pathjoin':
        return f'({pretty(t[1])} / {pretty(t[2])})'
    if k in ('list', 'tuple'):
        return ('[' if k == 'list' else '(') + ', '.join(pretty(x) for x in t[1]) + (']' if k == 'list' else ')')
    if k == 'dict':
        return '{' + ', '.join(f'{pretty(a)}: {pretty(b)}' for a, b in t[1]) + '}'
    if k == 'rec':
        return f'Rec<{t[1]}>(' + ', '.join(pretty(x) for x in t[2]) + ')'
    if k == 'user':
        return f'User<{t[1]}>({pretty(t[2])}' + ''.join(', ' + pretty(x) for x in t[3]) + ')'
    if k == 'dispatch':
        return f'Dispatch<{t[1]}>{{' + '; '.join(f'{"|".join(cs)}: {pretty(x)}' for cs, x in t[2]) + '}'
    if k == 'union':
        return 'Union{' + ' | '.join(pretty(x) for x in t[1]) + '}'
    if k == 'lam':
        return f'lambda {",".join(pretty(v) for v in t[1])}: {pretty(t[2])}'
    if k == 'opaque':
        return f'Opaque<{t[1][:40]}>'
    if k == 'kw':
        return f'{t[1]}={pretty(t[2])}'
    if k == 'new' and len(t) < 4:
        return f'new {t[1]}(...)'
    if k == 'new':
        return f'new {t[1]}(' + ', '.join(pretty(x) for x in t[2]) + ''.join(f', {a}={pretty(b)}' for a, b in t[3]) + ')'
    if k == 'bottom':
        return '⊥'
    if k == 'ref':
        return f'Ref<{t[1]}>({pretty(t[2])}' + ''.join(', ' + pretty(x) for x in t[3]) + ')'
    return str(t)


# ---------------------------------------------------------------------------------------------- decision-tree canonical form
def decision_canon(t, max_atoms=10):
    """Canonical form of the *decisions* in a term: every maximal tree of `cond` nodes (tests combined with and / or / not) is rebuilt
    as a reduced ordered decision tree over its atomic tests, atoms ordered by their hash.  Two spellings of the same case analysis
    (early returns, a boolean flag updated in steps, merged or split conditions, De Morgan) get the same form.  Pure rewriting of
    control structure: leaves and atoms are untouched (but canonicalised recursively)."""
    memo = {}

    def atoms_of(c, acc):
        if c[0] in ('and', 'or'):
            for x in c[1]:
                atoms_of(x, acc)
        elif c[0] == 'not':
            atoms_of(c[1], acc)
        elif c[0] == 'lit':
            pass
        else:
            acc.append(c)

    def ev_test(c, val):
        if c[0] == 'and':
            return all(ev_test(x, val) for x in c[1])
        if c[0] == 'or':
            return any(ev_test(x, val) for x in c[1])
        if c[0] == 'not':
            return not ev_test(c[1], val)
        if c[0] == 'lit':
            return bool(c[1])
        return val[c]

    def collect(x, acc):
        if isinstance(x, tuple) and x and x[0] == 'cond':
            atoms_of(x[1], acc)
            collect(x[2], acc)
            collect(x[3], acc)

    def ev_tree(x, val):
        while isinstance(x, tuple) and x and x[0] == 'cond':
            x = x[2] if ev_test(x[1], val) else x[3]
        return x

    def go(x):
        if not isinstance(x, tuple) or not x:
            return x
        i = id(x)
        if i in memo:
            return memo[i][1]
        if x[0] == 'cond':
            raw = []
            collect(x, raw)
            # atoms canonicalised first (they may contain decisions themselves), identical atoms merged
            canon_atom = {}
            for a in raw:
                if a not in canon_atom:
                    canon_atom[a] = go(a)
            order = sorted(set(canon_atom.values()), key=term_hash)
            if len(order) <= max_atoms:
                def build(k, val):
                    if k == len(order):
                        leaf = ev_tree(x, {a: val[canon_atom[a]] for a in canon_atom})
                        return go(leaf)
                    hi = build(k + 1, {**val, order[k]: True})
                    lo = build(k + 1, {**val, order[k]: False})
                    return hi if hi == lo else ('cond', order[k], hi, lo)
                r = build(0, {})
                memo[i] = (x, r)
                return r
        r = tuple(go(c) if isinstance(c, tuple) else c for c in x)
        if isinstance(x[0], str) and x[0] not in _BINDERS and x[0] not in ('lit', 'and', 'or', 'not'):
            r = lift(r)
        memo[i] = (x, r)
        return r

    def cond_children(r):
        """decisions that are operands of r (directly or inside its operand lists)"""
        out = []
        for c in r[1:]:
            if isinstance(c, tuple) and c:
                if c[0] == 'cond':
                    out.append(c)
                elif not isinstance(c[0], str):
                    out.extend(e for e in c if isinstance(e, tuple) and e and e[0] == 'cond')
        return out

    def lift(r):
        """K(.., c ? a : b, ..) is c ? K(.., a, ..) : K(.., b, ..): a decision taken inside an operand is the same decision taken around the
        operation (terms have no effects), so `'%s=%s' % (x if c else y, z)` and `(.. % (x, z)) if c else (.. % (y, z))` get one form."""
        cs = cond_children(r)
        if not cs:
            return r
        raw = []
        for c in cs:
            collect(c, raw)
        order = sorted(set(raw), key=term_hash)
        if not order or len(order) > 3:
            return r

        def pick(c, val):
            if isinstance(c, tuple) and c and c[0] == 'cond':
                return ev_tree(c, val)
            if isinstance(c, tuple) and c and not isinstance(c[0], str):
                return tuple(ev_tree(e, val) if isinstance(e, tuple) and e and e[0] == 'cond' else e for e in c)
            return c

        def build(k, val):
            if k == len(order):
                return (r[0],) + tuple(pick(c, val) for c in r[1:])
            hi = build(k + 1, {**val, order[k]: True})
            lo = build(k + 1, {**val, order[k]: False})
            return hi if hi == lo else ('cond', order[k], hi, lo)
        return build(0, {})

    return go(t)
