"""Program model: modules, imports, classes (with MRO), functions (incl. nested and lambdas).

Built from `ast` only.  Every AST node gets `_parent`; every node inside a function gets `_func`.
"""
from __future__ import annotations

import ast
import os
from typing import Dict, List, Optional, Tuple

PKG = 'taskchain'


class AnalysisError(Exception):
    """An anchor vanished / the model cannot be built.  Ends the run with exit code 2."""


class FuncInfo:
    def __init__(self, node, module, qualname, cls, parent):
        self.node = node
        self.module: Module = module
        self.qualname: str = qualname  # e.g. taskchain.task.Task.data
        self.cls: Optional[ClassInfo] = cls  # owning class for methods
        self.parent: Optional[FuncInfo] = parent  # enclosing function for nested defs / lambdas
        self.name = getattr(node, 'name', '<lambda>')
        self.decorators: List[str] = []
        self.nested: Dict[str, FuncInfo] = {}
        self.lambdas: List[FuncInfo] = []
        self.is_property = False
        self.is_setter = False
        self.is_static = False
        self.is_classmethod = False
        self.is_abstract = False
        self.is_async = isinstance(node, ast.AsyncFunctionDef)

    @property
    def short(self) -> str:
        """Qualified name without the module prefix: Task.data, Chain._create_tasks._register_task"""
        q = self.qualname[len(self.module.name) + 1:]
        return q.replace('.<locals>', '')

    @property
    def is_method(self):
        return self.cls is not None and self.parent is None

    @property
    def params(self) -> List[str]:
        a = self.node.args
        return [x.arg for x in a.posonlyargs + a.args] + ([a.vararg.arg] if a.vararg else []) + \
               [x.arg for x in a.kwonlyargs] + ([a.kwarg.arg] if a.kwarg else [])

    @property
    def pos_params(self) -> List[str]:
        a = self.node.args
        return [x.arg for x in a.posonlyargs + a.args]

    def param_default(self, name):
        a = self.node.args
        pos = a.posonlyargs + a.args
        defaults = [None] * (len(pos) - len(a.defaults)) + list(a.defaults)
        for p, d in zip(pos, defaults):
            if p.arg == name:
                return d
        for p, d in zip(a.kwonlyargs, a.kw_defaults):
            if p.arg == name:
                return d
        return None

    def param_annotation(self, name):
        a = self.node.args
        for p in a.posonlyargs + a.args + a.kwonlyargs + ([a.vararg] if a.vararg else []) + ([a.kwarg] if a.kwarg else []):
            if p.arg == name:
                return p.annotation
        return None

    @property
    def loc(self) -> str:
        return f'{self.module.relpath}:{self.node.lineno}'

    def __repr__(self):
        return f'<func {self.short}>'


class ClassInfo:
    def __init__(self, node, module, qualname, outer):
        self.node: ast.ClassDef = node
        self.module: Module = module
        self.qualname: str = qualname
        self.name = node.name
        self.outer: Optional[ClassInfo] = outer
        self.base_exprs = list(node.bases)
        self.bases: List[object] = []  # ClassInfo or str (external dotted name)
        self.metaclass: Optional[ClassInfo] = None
        self.methods: Dict[str, FuncInfo] = {}
        self.setters: Dict[str, FuncInfo] = {}
        self.class_attrs: Dict[str, ast.AST] = {}  # name -> value expr (class-level assignments)
        self.class_attr_ann: Dict[str, ast.AST] = {}
        self.nested_classes: Dict[str, ClassInfo] = {}
        self.mro: List[object] = []
        self.subclasses: List[ClassInfo] = []  # direct, in-package

    @property
    def short(self):
        return self.qualname[len(self.module.name) + 1:]

    def in_pkg_mro(self) -> List['ClassInfo']:
        return [c for c in self.mro if isinstance(c, ClassInfo)]

    def ext_bases(self) -> List[str]:
        return [c for c in self.mro if isinstance(c, str)]

    def lookup(self, name) -> Optional[FuncInfo]:
        for c in self.in_pkg_mro():
            if name in c.methods:
                return c.methods[name]
        return None

    def lookup_owner(self, name) -> Optional['ClassInfo']:
        for c in self.in_pkg_mro():
            if name in c.methods or name in c.class_attrs:
                return c
        return None

    def lookup_class_attr(self, name):
        for c in self.in_pkg_mro():
            if name in c.class_attrs:
                return c, c.class_attrs[name]
        return None, None

    def all_subclasses(self, include_self=True) -> List['ClassInfo']:
        out, seen, work = [], set(), [self]
        while work:
            c = work.pop(0)
            if c.qualname in seen:
                continue
            seen.add(c.qualname)
            if c is not self or include_self:
                out.append(c)
            work.extend(c.subclasses)
        return out

    def is_subclass_of(self, other: 'ClassInfo') -> bool:
        return other in self.mro

    def derives_ext(self, name) -> bool:
        return any(b == name or b.endswith('.' + name) for b in self.ext_bases())

    def __repr__(self):
        return f'<class {self.short}>'


class Module:
    def __init__(self, name, path, relpath, source):
        self.name = name
        self.path = path
        self.relpath = relpath
        self.source = source
        self.tree = ast.parse(source, filename=path)
        self.imports: Dict[str, Tuple[str, ...]] = {}  # local name -> binding
        self.functions: Dict[str, FuncInfo] = {}
        self.classes: Dict[str, ClassInfo] = {}
        self.globals: Dict[str, ast.AST] = {}  # top-level simple assignments name -> value
        self.is_package = os.path.basename(path) == '__init__.py'

    def __repr__(self):
        return f'<module {self.name}>'


def _dotted(node) -> Optional[str]:
    if isinstance(node, ast.Name):
        return node.id
    if isinstance(node, ast.Attribute):
        b = _dotted(node.value)
        return None if b is None else f'{b}.{node.attr}'
    return None


class Program:
    def __init__(self, root: str, overlay: Optional[Dict[str, str]] = None):
        """overlay: {path relative to root: replacement source} - analysed instead of the file on disk (used by the
        checker's self-validation to analyse edited variants without writing them anywhere)."""
        self.root = root
        self.overlay = overlay or {}
        self.src = os.path.join(root, 'src')
        self.modules: Dict[str, Module] = {}
        self.classes: Dict[str, ClassInfo] = {}
        self.functions: Dict[str, FuncInfo] = {}
        self._load()
        self._index()
        self._link_classes()

    # ------------------------------------------------------------------ loading
    def _load(self):
        pkgdir = os.path.join(self.src, PKG)
        if not os.path.isdir(pkgdir):
            raise AnalysisError(f'package directory {pkgdir} not found')
        for dirpath, dirnames, filenames in os.walk(pkgdir):
            dirnames[:] = sorted(d for d in dirnames if d != '__pycache__')
            for fn in sorted(filenames):
                if not fn.endswith('.py'):
                    continue
                path = os.path.join(dirpath, fn)
                rel = os.path.relpath(path, self.src)
                parts = rel[:-3].split(os.sep)
                if parts[-1] == '__init__':
                    parts = parts[:-1]
                name = '.'.join(parts)
                relroot = os.path.relpath(path, self.root)
                if relroot in self.overlay:
                    src = self.overlay[relroot]
                else:
                    with open(path, encoding='utf-8') as f:
                        src = f.read()
                try:
                    m = Module(name, path, relroot, src)
                except SyntaxError as e:
                    raise AnalysisError(f'cannot parse {path}: {e}')
                self.modules[name] = m

    # ------------------------------------------------------------------ indexing
    def _index(self):
        for m in self.modules.values():
            for node in ast.walk(m.tree):
                for child in ast.iter_child_nodes(node):
                    child._parent = node
            m.tree._parent = None
            self._index_block(m, m.tree.body, prefix=m.name, cls=None, func=None, top=True)

    def _index_block(self, m: Module, body, prefix, cls: Optional[ClassInfo], func: Optional[FuncInfo], top=False):
        for st in body:
            self._index_stmt(m, st, prefix, cls, func, top)

    def _index_stmt(self, m, st, prefix, cls, func, top):
        if isinstance(st, (ast.Import, ast.ImportFrom)):
            if func is None and cls is None:
                self._index_import(m, st, m.imports)
            return
        if isinstance(st, ast.ClassDef):
            qn = f'{prefix}.{st.name}'
            ci = ClassInfo(st, m, qn, cls)
            self.classes[qn] = ci
            if cls is not None and func is None:
                cls.nested_classes[st.name] = ci
            elif func is None:
                m.classes[st.name] = ci
            self._index_block(m, st.body, qn, ci, None)
            return
        if isinstance(st, (ast.FunctionDef, ast.AsyncFunctionDef)):
            if func is not None:
                qn = f'{func.qualname}.<locals>.{st.name}'
            else:
                qn = f'{prefix}.{st.name}'
            fi = FuncInfo(st, m, qn, cls if func is None else func.cls, func)
            if func is not None:
                fi.cls = None if not func.cls else func.cls
            for d in st.decorator_list:
                dn = _dotted(d if not isinstance(d, ast.Call) else d.func) or '?'
                fi.decorators.append(dn)
                if dn in ('property', 'abc.abstractproperty', 'functools.cached_property', 'cached_property'):
                    fi.is_property = True
                if dn.endswith('.setter'):
                    fi.is_setter = True
                if dn == 'staticmethod':
                    fi.is_static = True
                if dn == 'classmethod':
                    fi.is_classmethod = True
                if dn in ('abc.abstractmethod', 'abstractmethod'):
                    fi.is_abstract = True
            if qn in self.functions:
                # redefinition (e.g. property + setter): keep distinct key for the later one
                qn2 = qn + '#2'
                fi.qualname = qn
                self.functions[qn2] = fi
            else:
                self.functions[qn] = fi
            if func is not None:
                func.nested[st.name] = fi
            elif cls is not None:
                if fi.is_setter:
                    cls.setters[st.name] = fi
                else:
                    cls.methods[st.name] = fi
            else:
                m.functions[st.name] = fi
            self._mark_func(fi)
            return
        if func is None:
            # class-level or module-level assignment
            if isinstance(st, ast.Assign):
                for t in st.targets:
                    if isinstance(t, ast.Name):
                        (cls.class_attrs if cls else m.globals)[t.id] = st.value
                    elif isinstance(t, ast.Tuple) and isinstance(st.value, ast.Tuple) and len(t.elts) == len(st.value.elts):
                        for te, ve in zip(t.elts, st.value.elts):
                            if isinstance(te, ast.Name):
                                (cls.class_attrs if cls else m.globals)[te.id] = ve
            elif isinstance(st, ast.AnnAssign) and isinstance(st.target, ast.Name):
                if st.value is not None:
                    (cls.class_attrs if cls else m.globals)[st.target.id] = st.value
                if cls:
                    cls.class_attr_ann[st.target.id] = st.annotation
            elif isinstance(st, (ast.If, ast.Try)) and cls is None:
                # conditional top-level definitions
                for sub in ast.iter_child_nodes(st):
                    if isinstance(sub, ast.stmt):
                        self._index_stmt(m, sub, prefix, cls, func, top)
                    elif isinstance(sub, ast.ExceptHandler):
                        self._index_block(m, sub.body, prefix, cls, func, top)
            # lambdas at module/class level are ignored (none in the package)

    def _mark_func(self, fi: FuncInfo):
        """Tag nodes of fi's body with _func, index nested defs/lambdas/classes."""
        m = fi.module

        def walk(node, owner: FuncInfo):
            for child in ast.iter_child_nodes(node):
                visit(child, owner)

        def visit(child, owner: FuncInfo):
            if True:
                if isinstance(child, (ast.FunctionDef, ast.AsyncFunctionDef)):
                    child._func = owner
                    # decorators/defaults evaluated in owner
                    for d in child.decorator_list:
                        d._func = owner
                        walk(d, owner)
                    self._index_stmt(m, child, None, None, owner, False)
                elif isinstance(child, ast.Lambda):
                    child._func = owner
                    idx = len(owner.lambdas)
                    lf = FuncInfo(child, m, f'{owner.qualname}.<locals>.<lambda#{idx}>', None, owner)
                    lf.cls = owner.cls
                    owner.lambdas.append(lf)
                    self.functions[lf.qualname] = lf
                    child._lambda_info = lf
                    for a in ast.iter_child_nodes(child.args):
                        a._func = owner
                    child.body._func = lf
                    walk(child.body, lf)
                elif isinstance(child, ast.ClassDef):
                    child._func = owner
                    qn = f'{owner.qualname}.<locals>.{child.name}'
                    ci = ClassInfo(child, m, qn, None)
                    self.classes[qn] = ci
                    self._index_block(m, child.body, qn, ci, None)
                else:
                    child._func = owner
                    walk(child, owner)

        node = fi.node
        node._info = fi
        for part in (node.args,):
            part._func = fi.parent
        body = node.body if isinstance(node.body, list) else [node.body]
        for st in body:
            visit(st, fi)

    def _index_import(self, m: Module, st, table):
        if isinstance(st, ast.Import):
            for a in st.names:
                if a.asname:
                    table[a.asname] = ('module', a.name)
                else:
                    table[a.name.split('.')[0]] = ('module', a.name.split('.')[0])
        else:
            base = st.module or ''
            if st.level:
                pkg_parts = m.name.split('.')
                if not m.is_package:
                    pkg_parts = pkg_parts[:-1]
                if st.level > 1:
                    pkg_parts = pkg_parts[: len(pkg_parts) - (st.level - 1)]
                base = '.'.join(pkg_parts + ([st.module] if st.module else []))
            for a in st.names:
                table[a.asname or a.name] = ('from', base, a.name)

    # ------------------------------------------------------------------ name resolution
    def resolve_global(self, m: Module, name: str, _depth=0):
        """Resolve a module-level name to a binding tuple:
        ('class', ClassInfo) | ('func', FuncInfo) | ('module', dotted) | ('ext', dotted) | ('var', Module, name) | None
        """
        if _depth > 10:
            return None
        if name in m.classes:
            return ('class', m.classes[name])
        if name in m.functions:
            return ('func', m.functions[name])
        if name in m.globals:
            return ('var', m, name)
        if name in m.imports:
            b = m.imports[name]
            if b[0] == 'module':
                return ('module', b[1])
            _, base, attr = b
            if base in self.modules:
                sub = f'{base}.{attr}'
                tgt = self.modules[base]
                r = self.resolve_global(tgt, attr, _depth + 1)
                if r is not None:
                    return r
                if sub in self.modules:
                    return ('module', sub)
                return ('ext', sub)
            sub = f'{base}.{attr}'
            if sub in self.modules:
                return ('module', sub)
            return ('ext', sub)
        return None

    def resolve_dotted_in_module(self, modname: str, attr: str):
        """module attribute access: taskchain.config.Config"""
        if modname in self.modules:
            r = self.resolve_global(self.modules[modname], attr)
            if r is not None:
                return r
            sub = f'{modname}.{attr}'
            if sub in self.modules:
                return ('module', sub)
            return None
        # package prefix, e.g. `taskchain` . `config`
        sub = f'{modname}.{attr}'
        if sub in self.modules or any(k.startswith(sub + '.') for k in self.modules):
            return ('module', sub)
        return ('ext', sub)

    # ------------------------------------------------------------------ classes
    def _link_classes(self):
        for ci in self.classes.values():
            for b in ci.base_exprs:
                ci.bases.append(self._resolve_class_expr(ci.module, b))
            for kw in ci.node.keywords:
                if kw.arg == 'metaclass':
                    r = self._resolve_class_expr(ci.module, kw.value)
                    if isinstance(r, ClassInfo):
                        ci.metaclass = r
        for ci in self.classes.values():
            for b in ci.bases:
                if isinstance(b, ClassInfo):
                    b.subclasses.append(ci)
        for ci in self.classes.values():
            ci.mro = self._c3(ci, set())
        for ci in self.classes.values():
            if ci.metaclass is None:
                for c in ci.in_pkg_mro()[1:]:
                    if c.metaclass is not None:
                        ci.metaclass = c.metaclass
                        break

    def _resolve_class_expr(self, m: Module, expr):
        d = _dotted(expr)
        if d is None:
            return ast.dump(expr)
        parts = d.split('.')
        r = self.resolve_global(m, parts[0])
        for p in parts[1:]:
            if r is None:
                break
            if r[0] == 'module':
                r = self.resolve_dotted_in_module(r[1], p)
            elif r[0] == 'ext':
                r = ('ext', f'{r[1]}.{p}')
            elif r[0] == 'class' and p in r[1].nested_classes:
                r = ('class', r[1].nested_classes[p])
            else:
                r = None
        if r is None:
            return d  # builtin or unknown: keep the spelling (dict, str, object, type ...)
        if r[0] == 'class':
            return r[1]
        if r[0] in ('ext', 'module'):
            return r[1]
        return d

    def _c3(self, ci: ClassInfo, visiting):
        if ci.qualname in visiting:
            return [ci]
        visiting = visiting | {ci.qualname}
        seqs = []
        for b in ci.bases:
            if isinstance(b, ClassInfo):
                seqs.append(list(self._c3(b, visiting)))
            else:
                seqs.append([b])
        seqs.append(list(ci.bases))
        res = [ci]
        seqs = [s for s in seqs if s]
        while seqs:
            for s in seqs:
                cand = s[0]
                if not any(cand in o[1:] for o in seqs):
                    break
            else:
                cand = seqs[0][0]  # inconsistent hierarchy: fall back
            res.append(cand)
            seqs = [[x for x in s if x is not cand and x != cand] for s in seqs]
            seqs = [s for s in seqs if s]
        # 'object' last, deduplicated
        res = [c for c in res if c != 'object'] + (['object'] if 'object' in res else [])
        return res

    # ------------------------------------------------------------------ lookup helpers
    def cls(self, short: str) -> ClassInfo:
        """Find class by short qualified name `module_tail:Class` or unique bare name."""
        hits = [c for c in self.classes.values() if c.short == short or c.qualname == short]
        if len(hits) != 1:
            raise AnalysisError(f'anchor class `{short}`: {len(hits)} candidates')
        return hits[0]

    def find_cls(self, short: str) -> Optional[ClassInfo]:
        hits = [c for c in self.classes.values() if c.short == short or c.qualname == short]
        return hits[0] if len(hits) == 1 else None

    def func(self, short: str) -> FuncInfo:
        """Anchor lookup by short name (`Task.data`, `repr_from_instantiation`,
        `Chain._create_tasks._register_task`); module may be given as prefix `utils.iter:parallel_map`."""
        mod = None
        if ':' in short:
            mod, short = short.split(':', 1)
        hits = [f for f in self.functions.values() if f.short == short and (mod is None or f.module.name.endswith(mod))]
        if len(hits) != 1:
            raise AnalysisError(f'anchor function `{short}`{" in " + mod if mod else ""}: {len(hits)} candidates')
        return hits[0]

    def find_func(self, short: str) -> Optional[FuncInfo]:
        try:
            return self.func(short)
        except AnalysisError:
            return None

    def method(self, cls: ClassInfo, name: str) -> FuncInfo:
        f = cls.lookup(name)
        if f is None:
            raise AnalysisError(f'anchor method `{cls.short}.{name}` not found in MRO')
        return f

    def stats(self):
        return {
            'modules': len(self.modules),
            'classes': len(self.classes),
            'functions': len(self.functions),
            'lines': sum(m.source.count('\n') + 1 for m in self.modules.values()),
        }


def enclosing_func(node) -> Optional[FuncInfo]:
    return getattr(node, '_func', None)


def src(node) -> str:
    try:
        return ast.unparse(node)
    except Exception:  # pragma: no cover
        return ast.dump(node)


def norm(node) -> str:
    """Normalised text of an AST node (position independent, formatting independent)."""
    return ast.unparse(node) if isinstance(node, ast.AST) else str(node)
