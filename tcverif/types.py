"""Receiver typing and call resolution (flow-insensitive, receiver-class specialised).

Types are tuples:
  ('inst', ClassInfo) ('cls', ClassInfo) ('ext', name) ('extcls', name) ('extfunc', dotted)
  ('dict', K, V) ('list', E) ('tuple', (E0, E1, ...)) ('func', FuncInfo, recv) ('none',) ('module', dotted)
  ('super', ClassInfo recv, ClassInfo after, kind)
where K, V, E are frozensets of types.  A type *set* is a frozenset; the empty set means "unknown".
"""
from __future__ import annotations

import ast
from typing import Dict, FrozenSet, List, Optional, Tuple

from .model import AnalysisError, ClassInfo, FuncInfo, Module, Program, _dotted, src

EMPTY: FrozenSet = frozenset()
NONE = ('none',)
STR = ('ext', 'str')
INT = ('ext', 'int')
BOOL = ('ext', 'bool')
PATH = ('ext', 'Path')

# (function short name, variable) -> type expression (as annotation source), reason.  Frozen, confirmed by reading.
HINTS: Dict[Tuple[str, str], Tuple[str, str]] = {
    ('Chain._init_objects', 'obj'): ('ChainObject', 'values of config data narrowed by isinstance(obj, ChainObject)'),
    ('Chain.draw', 'node'): ('Task', 'graph nodes are the Task objects added in _build_graph'),
    ('Chain.draw', 'n'): ('Task', 'graph nodes are the Task objects added in _build_graph'),
    ('Chain.draw._is_node_in_groups', 'node'): ('Task', 'called with graph nodes'),
    ('Chain.draw', 'edge'): ('Tuple[Task, Task]', 'graph edges are pairs of Task objects'),
    ('Chain.force', 'task'): ('Task', 'elements of dependent_tasks() sets / resolved through get_task'),
    ('Chain._create_softlink_to_task_data', 'task'): ('Task', 'called from create_readable_filenames with chain tasks'),
    ('Chain._create_tasks._process_task', '_task_class'): ('Type[Task]', 'classes filtered by issubclass(.., Task)'),
    ('Chain._create_tasks', 'task_class'): ('Type[Task]', 'get_classes_by_import_string(.., Task)'),
    ('Chain._create_tasks', 'task_description'): ('Type[Task]', 'non-str branch is guarded by issubclass(.., Task)'),
    ('Chain._process_dependencies', 'input_task'): ('Union[str, Type[Task], AbstractParameter]', 'Meta.input_tasks / Meta.parameters entries'),
    ('Chain._expand_tasks', 'input_task'): ('Union[str, Type[Task]]', 'annotation of input_tasks'),
    ('InputTaskParameter.value', 'self.task'): ('Task', 'documented: initialised with the input task before access'),
    ('InputTaskParameter.name', 'self.task_identifier'): ('Union[str, Type[Task]]', 'annotation of __init__ parameter'),
    ('MultiChain.force', 'chain'): ('Chain', 'values of self.chains'),
    ('TestChain._create_tasks', 'task_class'): ('Type[Task]', 'annotation List[Type[Task]] of __init__'),
    ('TestChain._create_tasks', 'mock_task'): ('Union[str, Type[Task]]', 'annotation of mock_tasks keys'),
    ('create_test_task', 'task'): ('Type[Task]', 'annotation'),
    ('TaskParameterConfig.get_name_for_persistence._get_input_task_repr', '_task'): ('str', 'values of self.input_tasks are storage keys (str)'),
    ('migrate_to_parameter_mode', 't'): ('Task', 'values of Chain.tasks'),
    ('Config.prepare_context', 'context'): ('Context', 'all branches build a Context'),
    ('Context.prepare_context', 'context'): ('Context', 'all branches build a Context'),
    ('Task._init_persistence', 'data'): ('Data', 'called with data objects only'),
    ('MetaTask.data_class', 'c'): ('Type[Data]', 'inheritors(Data)'),
    ('AbstractParameter.value_repr', 'self.value'): ('Any', 'user value'),
}

_EXT_ALIASES = {
    'pathlib.Path': 'Path', 'Path': 'Path', 'str': 'str', 'int': 'int', 'float': 'float', 'bool': 'bool',
    'dict': 'dict', 'list': 'list', 'set': 'set', 'tuple': 'tuple', 'bytes': 'bytes',
    'networkx.DiGraph': 'DiGraph', 'filelock.FileLock': 'FileLock', 'logging.Logger': 'Logger',
}

_BUILTINS = {
    'open', 'sorted', 'len', 'isinstance', 'issubclass', 'repr', 'str', 'int', 'float', 'bool', 'list', 'dict', 'set',
    'tuple', 'enumerate', 'zip', 'map', 'filter', 'any', 'all', 'max', 'min', 'sum', 'print', 'getattr', 'setattr',
    'hasattr', 'type', 'super', 'callable', 'iter', 'next', 'reversed', 'range', 'id', 'hash', 'dir', 'vars', 'abs',
    'round', 'frozenset', 'bytes', 'object', 'property', 'staticmethod', 'classmethod', 'Exception', 'ValueError',
    'KeyError', 'AttributeError', 'TypeError', 'ImportError', 'NameError', 'ModuleNotFoundError', 'NotImplemented',
    'NotImplementedError', 'AssertionError', 'RuntimeError', 'StopIteration', 'OSError', 'IOError', 'BaseException',
    'delattr', 'format', 'chr', 'ord', 'divmod', 'pow', 'slice', 'input', 'globals', 'locals', 'exec', 'eval',
    'compile', '__import__', 'memoryview', 'bytearray', 'complex', 'isinstance', 'get_ipython',
}


def merge(*sets) -> FrozenSet:
    out = set()
    for s in sets:
        out |= s
    return normalise(frozenset(out))


def _depth(t) -> int:
    k = t[0]
    if k == 'dict':
        return 1 + max([_depth(x) for x in t[1] | t[2]] or [0])
    if k == 'list':
        return 1 + max([_depth(x) for x in t[1]] or [0])
    if k == 'tuple':
        return 1 + max([_depth(x) for e in t[1] for x in e] or [0])
    if k == 'bound_ext':
        return _depth(t[3])
    return 0


def _truncate(t, d=3):
    """Widening: container types nested deeper than d lose their element types."""
    k = t[0]
    if k == 'dict':
        if d == 0:
            return ('dict', EMPTY, EMPTY)
        return ('dict', frozenset(_truncate(x, d - 1) for x in t[1]), frozenset(_truncate(x, d - 1) for x in t[2]))
    if k == 'list':
        if d == 0:
            return ('list', EMPTY)
        return ('list', frozenset(_truncate(x, d - 1) for x in t[1]))
    if k == 'tuple':
        if d == 0:
            return ('list', EMPTY)
        return ('tuple', tuple(frozenset(_truncate(x, d - 1) for x in e) for e in t[1]))
    return t


def normalise(ts: FrozenSet) -> FrozenSet:
    """Merge multiple dict / list members into one each."""
    if any(t[0] in ('dict', 'list', 'tuple') for t in ts):
        ts = frozenset(_truncate(t, 2) for t in ts)
    dk, dv, le = set(), set(), set()
    nd = nl = 0
    rest = set()
    for t in ts:
        if t[0] == 'dict':
            nd += 1
            dk |= t[1]
            dv |= t[2]
        elif t[0] == 'list':
            nl += 1
            le |= t[1]
        else:
            rest.add(t)
    if nd:
        rest.add(('dict', frozenset(dk), frozenset(dv)))
    if nl:
        rest.add(('list', frozenset(le)))
    return frozenset(rest)


def tshow(ts) -> str:
    def one(t):
        k = t[0]
        if k in ('inst', 'cls'):
            return f'{k}:{t[1].short}'
        if k in ('ext', 'extcls', 'extfunc', 'module'):
            return f'{k}:{t[1]}'
        if k == 'dict':
            return f'dict[{tshow(t[1])},{tshow(t[2])}]'
        if k == 'list':
            return f'list[{tshow(t[1])}]'
        if k == 'tuple':
            return 'tuple[' + ','.join(tshow(e) for e in t[1]) + ']'
        if k == 'func':
            return f'func:{t[1].short}'
        return k
    return '{' + ','.join(sorted(one(t) for t in ts)) + '}'


class Ctx:
    """Analysis context: a function under a concrete receiver type."""
    __slots__ = ('func', 'recv', 'key')

    def __init__(self, func: FuncInfo, recv):
        self.func = func
        self.recv = recv  # None | ('inst', C) | ('cls', C)
        self.key = (func.qualname, id(func.node), None if recv is None else (recv[0], recv[1].qualname))

    def __hash__(self):
        return hash(self.key)

    def __eq__(self, o):
        return isinstance(o, Ctx) and self.key == o.key

    def __repr__(self):
        r = '' if self.recv is None else f'@{self.recv[0]}:{self.recv[1].short}'
        return f'{self.func.short}{r}'

    @property
    def label(self):
        return repr(self)


class Target:
    """Resolved callee of a call / property read."""
    __slots__ = ('kind', 'func', 'recv', 'name', 'cls', 'via')

    def __init__(self, kind, func=None, recv=None, name=None, cls=None, via=None):
        self.kind = kind  # 'func' | 'ext' | 'ctor' | 'unknown' | 'userhook'
        self.func = func
        self.recv = recv
        self.name = name
        self.cls = cls
        self.via = via  # 'call' | 'property' | 'protocol:<name>'

    @property
    def ctx(self) -> Optional[Ctx]:
        return Ctx(self.func, self.recv) if self.func is not None else None

    def __repr__(self):
        if self.kind == 'func':
            return f'<T func {self.ctx}>'
        if self.kind == 'ctor':
            return f'<T ctor {self.cls.short}>'
        return f'<T {self.kind} {self.name}>'


class Typer:
    def __init__(self, prog: Program):
        self.prog = prog
        self.attr_types: Dict[Tuple[str, str], set] = {}  # (class qualname, attr) -> set of types
        self.anon_attr_store_exprs: Dict[str, List[Tuple[Ctx, ast.AST]]] = {}
        self.attr_store_exprs: Dict[Tuple[str, str], List[Tuple[Ctx, ast.AST]]] = {}
        self.param_in: Dict[Tuple, set] = {}  # (ctx.key, param) -> types from call sites
        self.local_extra: Dict[Tuple, set] = {}  # (ctx.key of owner, var) -> types added by element stores
        self._env_cache: Dict[Ctx, Dict[str, FrozenSet]] = {}
        self._ret_cache: Dict[Ctx, FrozenSet] = {}
        self._ret_stack: set = set()
        self._env_stack: set = set()
        self.unresolved: List[Tuple[Ctx, ast.AST, str]] = []
        self.stats = {'attr_sites': 0, 'resolved': 0, 'external': 0, 'hinted': 0, 'unresolved': 0}
        self._round = 0
        self._frozen = False
        self._expr_cache: Dict[Tuple, FrozenSet] = {}
        self._all_ctx: List[Ctx] = self._enumerate_contexts()
        self._member_names = self._collect_member_names()
        self._fixpoint()

    # ------------------------------------------------------------------ contexts
    def _enumerate_contexts(self) -> List[Ctx]:
        out = []
        seen = set()

        def add(f, recv):
            c = Ctx(f, recv)
            if c not in seen:
                seen.add(c)
                out.append(c)
                for n in list(f.nested.values()) + f.lambdas:
                    add(n, recv)

        metas = {c.qualname for c in self.prog.classes.values() if 'type' in c.ext_bases()}
        for ci in self.prog.classes.values():
            if ci.qualname in metas:
                continue
            for base in ci.in_pkg_mro():
                for name, f in list(base.methods.items()) + list(base.setters.items()):
                    if f.is_static:
                        add(f, None)
                    elif f.is_classmethod:
                        add(f, ('cls', ci))
                    else:
                        add(f, ('inst', ci))
            if ci.metaclass is not None:
                for mbase in ci.metaclass.in_pkg_mro():
                    for name, f in mbase.methods.items():
                        if ci.metaclass.lookup(name) is f:
                            add(f, ('cls', ci))
        for mc in metas:
            # metaclass methods with an abstract receiver (no concrete class): analyse against Task-like roots anyway
            pass
        for m in self.prog.modules.values():
            for f in m.functions.values():
                add(f, None)
        # functions not reached above (e.g. metaclass methods of metaclasses without instances, local classes)
        for f in self.prog.functions.values():
            if f.parent is None and not any(c.func is f for c in out):
                add(f, ('inst', f.cls) if f.cls is not None and not f.is_static else None)
        return out

    def contexts(self) -> List[Ctx]:
        return list(self._all_ctx)

    def contexts_of(self, func: FuncInfo) -> List[Ctx]:
        return [c for c in self._all_ctx if c.func is func]

    def _collect_member_names(self):
        names = set()
        for ci in self.prog.classes.values():
            names |= set(ci.methods) | set(ci.class_attrs)
        return names

    # ------------------------------------------------------------------ fixpoint driver
    def _fixpoint(self):
        prev = None
        self.round_sigs = []
        for rnd in range(14):
            self._round = rnd
            self._env_cache.clear()
            self._ret_cache.clear()
            self.unresolved = []
            for ctx in self._all_ctx:
                self._scan(ctx)
            sig = (sum(len(v) for v in self.attr_types.values()), sum(len(v) for v in self.param_in.values()),
                   sum(len(v) for v in self.local_extra.values()))
            self.round_sigs.append(sig)
            if sig == prev:
                break
            prev = sig
        self.rounds = rnd + 1
        self._frozen = True

    def _scan(self, ctx: Ctx):
        """Evaluate every store and call in ctx to feed attribute / parameter / element tables."""
        f = ctx.func
        self.own_nodes(f)
        if True:
            for node in f._own_scan:
                if isinstance(node, (ast.Assign, ast.AnnAssign, ast.AugAssign)):
                    targets = node.targets if isinstance(node, ast.Assign) else [node.target]
                    if isinstance(node, ast.AnnAssign) and isinstance(node.target, ast.Attribute):
                        ann = self.annotation(node.annotation, f.module)
                        for bt in self.expr(node.target.value, ctx):
                            if bt[0] == 'inst' and ann:
                                self.attr_types.setdefault((bt[1].qualname, node.target.attr), set()).update(ann)
                    if node.value is None:
                        continue
                    for t in targets:
                        self._record_store(ctx, t, node.value)
                elif isinstance(node, ast.Call):
                    self._record_call(ctx, node)

    def own_nodes(self, f: FuncInfo) -> list:
        """All AST nodes of f's own body (nested defs / lambdas excluded), cached, in source order."""
        c = getattr(f, '_own_nodes', None)
        if c is None:
            body = f.node.body if isinstance(f.node.body, list) else [f.node.body]
            c = []
            for st in body:
                c.extend(self._walk_own(st))
            f._own_nodes = c
            f._own_bind = [n for n in c if isinstance(n, (ast.Assign, ast.AnnAssign, ast.AugAssign, ast.NamedExpr, ast.For, ast.AsyncFor,
                                                             ast.comprehension, ast.With, ast.AsyncWith, ast.ExceptHandler, ast.Import, ast.ImportFrom))]
            f._own_scan = [n for n in c if isinstance(n, (ast.Assign, ast.AnnAssign, ast.AugAssign, ast.Call))]
        return c

    def _walk_own(self, node):
        """Walk nodes of this function only (not nested function / lambda / class bodies)."""
        if isinstance(node, (ast.FunctionDef, ast.AsyncFunctionDef, ast.ClassDef, ast.Lambda)):
            for d in getattr(node, 'decorator_list', []):
                yield from self._walk_own(d)
            return
        yield node
        for child in ast.iter_child_nodes(node):
            if isinstance(child, (ast.FunctionDef, ast.AsyncFunctionDef, ast.ClassDef)):
                continue
            if isinstance(child, ast.Lambda):
                continue
            yield from self._walk_own(child)

    def _record_store(self, ctx: Ctx, target, value):
        if isinstance(target, (ast.Tuple, ast.List)):
            if isinstance(value, (ast.Tuple, ast.List)) and len(value.elts) == len(target.elts):
                for t, v in zip(target.elts, value.elts):
                    self._record_store(ctx, t, v)
            return
        if isinstance(target, ast.Attribute):
            vt = self.expr(value, ctx)
            for bt in self.expr(target.value, ctx):
                if bt[0] == 'inst':
                    classes = bt[1].all_subclasses() if not (isinstance(target.value, ast.Name) and target.value.id == 'self') else [bt[1]]
                    for c in classes:
                        self.attr_types.setdefault((c.qualname, target.attr), set()).update(vt)
                        lst = self.attr_store_exprs.setdefault((c.qualname, target.attr), [])
                        if not any(e is value and c0 == ctx for c0, e in lst):
                            lst.append((ctx, value))
            if not self.expr(target.value, ctx):
                lst = self.anon_attr_store_exprs.setdefault(target.attr, [])
                if not any(e is value for _, e in lst):
                    lst.append((ctx, value))
        elif isinstance(target, ast.Subscript):
            vt = self.expr(value, ctx)
            kt = self.expr(target.slice, ctx)
            self._element_store(ctx, target.value, ('dict', kt, vt))

    def _element_store(self, ctx: Ctx, base, elem_type):
        if isinstance(base, ast.Name):
            owner = self._owner_ctx(ctx, base.id)
            if owner is not None:
                self.local_extra.setdefault((owner.key, base.id), set()).add(elem_type)
        elif isinstance(base, ast.Attribute):
            for bt in self.expr(base.value, ctx):
                if bt[0] == 'inst':
                    self.attr_types.setdefault((bt[1].qualname, base.attr), set()).add(elem_type)

    def _owner_ctx(self, ctx: Ctx, name: str) -> Optional[Ctx]:
        f = ctx.func
        while f is not None:
            if name in self._binding_names(f):
                return Ctx(f, ctx.recv)
            f = f.parent
        return None

    def _binding_names(self, f: FuncInfo):
        cache = getattr(f, '_bind_cache', None)
        if cache is not None:
            return cache
        names = set(f.params)
        for node in self.own_nodes(f):
            if isinstance(node, ast.Name) and isinstance(node.ctx, ast.Store):
                names.add(node.id)
            elif isinstance(node, ast.ExceptHandler) and node.name:
                names.add(node.name)
        # names declared nonlocal/global are not bindings of this scope
        for node in self.own_nodes(f):
            if isinstance(node, (ast.Nonlocal, ast.Global)):
                names -= set(node.names)
        for n in f.nested:
            names.add(n)
        f._bind_cache = names
        return names

    def _record_call(self, ctx: Ctx, call: ast.Call):
        # element stores through list.append / set.add / dict.update / setdefault
        if isinstance(call.func, ast.Attribute) and call.func.attr in ('append', 'add') and len(call.args) == 1:
            self._element_store(ctx, call.func.value, ('list', self.expr(call.args[0], ctx)))
        if isinstance(call.func, ast.Attribute) and call.func.attr == 'setdefault' and len(call.args) == 2:
            self._element_store(ctx, call.func.value, ('dict', self.expr(call.args[0], ctx), self.expr(call.args[1], ctx)))
        for tgt in self.call_targets(call, ctx):
            if tgt.kind == 'func':
                self._bind_args(ctx, call, tgt)
            elif tgt.kind == 'ctor':
                init = tgt.cls.lookup('__init__')
                if init is not None:
                    self._bind_args(ctx, call, Target('func', init, ('inst', tgt.cls)), skip_self=True)

    def _bind_args(self, ctx: Ctx, call: ast.Call, tgt: Target, skip_self=None):
        f = tgt.func
        params = f.pos_params
        bound = (tgt.recv is not None and not f.is_static) if skip_self is None else skip_self
        if f.cls is not None and f.parent is None and not f.is_static and (bound or tgt.recv is not None):
            params = params[1:]
        cctx = Ctx(f, tgt.recv)
        for i, a in enumerate(call.args):
            if isinstance(a, ast.Starred):
                break
            if i < len(params):
                self.param_in.setdefault((cctx.key, params[i]), set()).update(self.expr(a, ctx))
        for kw in call.keywords:
            if kw.arg and kw.arg in f.params:
                self.param_in.setdefault((cctx.key, kw.arg), set()).update(self.expr(kw.value, ctx))

    # ------------------------------------------------------------------ annotations
    def annotation(self, node, module: Module) -> FrozenSet:
        if node is None:
            return EMPTY
        if isinstance(node, ast.Constant):
            if node.value is None:
                return frozenset([NONE])
            if isinstance(node.value, str):
                try:
                    return self.annotation(ast.parse(node.value, mode='eval').body, module)
                except SyntaxError:
                    return EMPTY
            return EMPTY
        if isinstance(node, ast.BinOp) and isinstance(node.op, ast.BitOr):
            return merge(self.annotation(node.left, module), self.annotation(node.right, module))
        if isinstance(node, ast.Subscript):
            head = _dotted(node.value) or ''
            head = head.split('.')[-1]
            args = node.slice.elts if isinstance(node.slice, ast.Tuple) else [node.slice]
            if head in ('Union', 'Optional'):
                r = merge(*[self.annotation(a, module) for a in args])
                return merge(r, frozenset([NONE])) if head == 'Optional' else r
            if head in ('Dict', 'dict', 'Mapping', 'DefaultDict', 'defaultdict'):
                k = self.annotation(args[0], module) if args else EMPTY
                v = self.annotation(args[1], module) if len(args) > 1 else EMPTY
                return frozenset([('dict', k, v)])
            if head in ('List', 'list', 'Set', 'set', 'Iterable', 'Sequence', 'Iterator', 'Generator', 'FrozenSet', 'Collection'):
                return frozenset([('list', self.annotation(args[0], module) if args else EMPTY)])
            if head in ('Tuple', 'tuple'):
                if len(args) == 2 and isinstance(args[1], ast.Constant) and args[1].value is Ellipsis:
                    return frozenset([('list', self.annotation(args[0], module))])
                return frozenset([('tuple', tuple(self.annotation(a, module) for a in args))])
            if head in ('Type', 'type'):
                out = set()
                for t in self.annotation(args[0], module):
                    if t[0] == 'inst':
                        out.add(('cls', t[1]))
                    elif t[0] == 'ext':
                        out.add(('extcls', t[1]))
                return frozenset(out)
            return EMPTY
        d = _dotted(node)
        if d is None:
            return EMPTY
        return self._named_type(d, module)

    def _named_type(self, d: str, module: Module) -> FrozenSet:
        parts = d.split('.')
        r = self.prog.resolve_global(module, parts[0])
        for p in parts[1:]:
            if r is None:
                break
            if r[0] == 'module':
                r = self.prog.resolve_dotted_in_module(r[1], p)
            elif r[0] == 'ext':
                r = ('ext', f'{r[1]}.{p}')
            elif r[0] == 'class' and p in r[1].nested_classes:
                r = ('class', r[1].nested_classes[p])
            else:
                r = None
        if r is None:
            if d in ('Any', 'object', 'Callable', 'type'):
                return EMPTY
            if d in _EXT_ALIASES:
                return frozenset([('ext', _EXT_ALIASES[d])])
            if d == 'None':
                return frozenset([NONE])
            # a bare class name of the package not imported in this module (hint table): search uniquely
            ci = self.prog.find_cls(d)
            if ci is not None:
                return frozenset([('inst', ci)])
            return EMPTY
        if r[0] == 'class':
            return frozenset([('inst', r[1])])
        if r[0] in ('ext', 'module'):
            name = r[1]
            if name.startswith('typing.'):
                return EMPTY
            return frozenset([('ext', _EXT_ALIASES.get(name, name.split('.')[-1]))])
        return EMPTY

    def hint(self, ctx: Ctx, key: str) -> Optional[FrozenSet]:
        h = HINTS.get((ctx.func.short, key))
        if h is None:
            return None
        try:
            node = ast.parse(h[0], mode='eval').body
        except SyntaxError:  # pragma: no cover
            return None
        return self.annotation(node, ctx.func.module)

    # ------------------------------------------------------------------ environments
    def env(self, ctx: Ctx) -> Dict[str, FrozenSet]:
        if ctx in self._env_cache:
            return self._env_cache[ctx]
        if ctx in self._env_stack:
            return {}
        self._env_stack.add(ctx)
        f = ctx.func
        env: Dict[str, FrozenSet] = {}
        self._env_cache[ctx] = env  # provisional (recursion through closures)
        # parameters
        a = f.node.args
        plist = f.params
        for i, p in enumerate(plist):
            ts = self.annotation(f.param_annotation(p), f.module)
            h = self.hint(ctx, p)
            if h is not None:
                ts = h
            if i == 0 and f.cls is not None and f.parent is None and not f.is_static and ctx.recv is not None:
                ts = frozenset([ctx.recv])
            ts = merge(ts, frozenset(self.param_in.get((ctx.key, p), ())))
            d = f.param_default(p)
            if d is not None and isinstance(d, ast.Constant) and d.value is None:
                ts = merge(ts, frozenset([NONE]))
            if a.vararg and p == a.vararg.arg:
                ts = frozenset([('list', EMPTY)])
            if a.kwarg and p == a.kwarg.arg:
                ts = frozenset([('dict', frozenset([STR]), EMPTY)])
            env[p] = ts
        for n, nf in f.nested.items():
            env[n] = frozenset([('func', nf, ctx.recv)])
        self.own_nodes(f)
        extra = [(var, frozenset(ts)) for (k, var), ts in self.local_extra.items() if k == ctx.key]
        for _ in range(3):
            changed = False
            for node in f._own_bind:
                changed |= self._bind_stmt(node, ctx, env)
            # containers filled in place (d[k] = v, l.append(v)): element types count before the loops over them are bound
            for var, ts in extra:
                new_ = merge(env.get(var, EMPTY), ts)
                if new_ != env.get(var, EMPTY):
                    env[var] = new_
                    changed = True
            if not changed:
                break
        self._env_stack.discard(ctx)
        return env

    def _bind(self, env, name, ts, ctx) -> bool:
        h = self.hint(ctx, name)
        if h is not None:
            ts = h
        old = env.get(name, EMPTY)
        new = merge(old, ts)
        if new != old:
            env[name] = new
            return True
        if name not in env:
            env[name] = new
        return False

    def _bind_target(self, target, ts: FrozenSet, ctx, env) -> bool:
        ch = False
        if isinstance(target, ast.Name):
            return self._bind(env, target.id, ts, ctx)
        if isinstance(target, (ast.Tuple, ast.List)):
            for i, elt in enumerate(target.elts):
                sub = set()
                for t in ts:
                    if t[0] == 'tuple' and i < len(t[1]):
                        sub |= t[1][i]
                    elif t[0] == 'list':
                        sub |= t[1]
                if isinstance(elt, ast.Starred):
                    elt = elt.value
                ch |= self._bind_target(elt, normalise(frozenset(sub)), ctx, env)
        return ch

    def _bind_stmt(self, node, ctx, env) -> bool:
        if isinstance(node, ast.Assign):
            ts = self.expr(node.value, ctx, env)
            ch = False
            for t in node.targets:
                if isinstance(t, (ast.Tuple, ast.List)) and isinstance(node.value, (ast.Tuple, ast.List)) and len(t.elts) == len(node.value.elts):
                    for te, ve in zip(t.elts, node.value.elts):
                        ch |= self._bind_target(te, self.expr(ve, ctx, env), ctx, env)
                else:
                    ch |= self._bind_target(t, ts, ctx, env)
            return ch
        if isinstance(node, ast.AnnAssign):
            ts = self.annotation(node.annotation, ctx.func.module)
            if node.value is not None:
                ts = merge(ts, self.expr(node.value, ctx, env))
            return self._bind_target(node.target, ts, ctx, env)
        if isinstance(node, ast.AugAssign):
            return self._bind_target(node.target, self.expr(node.value, ctx, env), ctx, env)
        if isinstance(node, ast.NamedExpr):
            return self._bind_target(node.target, self.expr(node.value, ctx, env), ctx, env)
        if isinstance(node, (ast.For, ast.AsyncFor)):
            return self._bind_target(node.target, self.elem(self.expr(node.iter, ctx, env)), ctx, env)
        if isinstance(node, ast.comprehension):
            return self._bind_target(node.target, self.elem(self.expr(node.iter, ctx, env)), ctx, env)
        if isinstance(node, (ast.With, ast.AsyncWith)):
            ch = False
            for item in node.items:
                if item.optional_vars is not None:
                    ts = self.expr(item.context_expr, ctx, env)
                    ch |= self._bind_target(item.optional_vars, ts, ctx, env)
            return ch
        if isinstance(node, ast.ExceptHandler) and node.name:
            return self._bind(env, node.name, frozenset([('ext', 'Exception')]), ctx)
        if isinstance(node, (ast.Import, ast.ImportFrom)):
            tbl = {}
            self.prog._index_import(ctx.func.module, node, tbl)
            ch = False
            for local, b in tbl.items():
                if b[0] == 'module':
                    ts = frozenset([('module', b[1])])
                else:
                    r = None
                    if b[1] in self.prog.modules:
                        r = self.prog.resolve_global(self.prog.modules[b[1]], b[2])
                    ts = self._binding_type(r) if r else frozenset([('extfunc', f'{b[1]}.{b[2]}')])
                ch |= self._bind(env, local, ts, ctx)
            return ch
        return False

    def elem(self, ts: FrozenSet) -> FrozenSet:
        out = set()
        for t in ts:
            if t[0] == 'list':
                out |= t[1]
            elif t[0] == 'dict':
                out |= t[1]
            elif t[0] == 'tuple':
                for e in t[1]:
                    out |= e
            elif t == STR:
                out.add(STR)
            elif t[0] == 'inst':
                it = t[1].lookup('__iter__')
                if it is not None:
                    out |= self.elem(self.returns(Ctx(it, t)))
        return normalise(frozenset(out))

    def _binding_type(self, r) -> FrozenSet:
        if r is None:
            return EMPTY
        if r[0] == 'class':
            return frozenset([('cls', r[1])])
        if r[0] == 'func':
            return frozenset([('func', r[1], None)])
        if r[0] == 'module':
            return frozenset([('module', r[1])])
        if r[0] == 'ext':
            return frozenset([('extfunc', r[1])])
        if r[0] == 'var':
            m, name = r[1], r[2]
            val = m.globals.get(name)
            if val is None:
                return EMPTY
            return self._global_expr(val, m)
        return EMPTY

    def _global_expr(self, val, m: Module) -> FrozenSet:
        # module-level value: evaluate with a pseudo context
        pseudo = getattr(m, '_pseudo_ctx', None)
        if pseudo is None:
            fn = ast.parse('def __module__(): pass').body[0]
            fi = FuncInfo(fn, m, f'{m.name}.<module>', None, None)
            pseudo = m._pseudo_ctx = Ctx(fi, None)
            self._env_cache[pseudo] = {}
        if getattr(val, '_evaluating', False):
            return EMPTY
        val._evaluating = True
        try:
            return self.expr(val, pseudo, {})
        finally:
            val._evaluating = False

    # ------------------------------------------------------------------ expressions
    def lookup_name(self, name: str, ctx: Ctx, env=None) -> FrozenSet:
        f = ctx.func
        c = ctx
        first = True
        while f is not None:
            e = env if (first and env is not None) else self.env(c)
            if name in e:
                return e[name]
            if name in self._binding_names(f):
                return e.get(name, EMPTY)
            first = False
            f = f.parent
            if f is not None:
                c = Ctx(f, ctx.recv)
        r = self.prog.resolve_global(ctx.func.module, name)
        if r is not None:
            return self._binding_type(r)
        if name in _BUILTINS:
            if name in ('str', 'int', 'float', 'bool', 'dict', 'list', 'set', 'tuple', 'bytes', 'object', 'type', 'frozenset'):
                return frozenset([('extcls', name)])
            return frozenset([('extfunc', f'builtins.{name}')])
        return EMPTY

    def expr(self, node, ctx: Ctx, env=None, keep_bound=False) -> FrozenSet:
        if self._frozen and env is None:
            k = (ctx, id(node), keep_bound)
            r = self._expr_cache.get(k)
            if r is None:
                r = self._expr_uncached(node, ctx, None, keep_bound)
                self._expr_cache[k] = r
            return r
        return self._expr_uncached(node, ctx, env, keep_bound)

    def _expr_uncached(self, node, ctx: Ctx, env=None, keep_bound=False) -> FrozenSet:
        ts = self._expr(node, ctx, env)
        if not keep_bound and any(t[0] == 'bound_ext' for t in ts):
            ts = frozenset(t for t in ts if t[0] != 'bound_ext')
        if isinstance(node, (ast.Name, ast.Attribute)):
            key = _dotted(node)
            if key:
                if isinstance(node, ast.Attribute):
                    h = self.hint(ctx, key)
                    if h is not None:
                        ts = h
                ts = self._narrow(node, key, ts, ctx)
        return ts

    def _expr(self, node, ctx: Ctx, env=None) -> FrozenSet:
        if isinstance(node, ast.Constant):
            v = node.value
            if v is None:
                return frozenset([NONE])
            if isinstance(v, bool):
                return frozenset([BOOL])
            if isinstance(v, str):
                return frozenset([STR])
            if isinstance(v, int):
                return frozenset([INT])
            if isinstance(v, float):
                return frozenset([('ext', 'float')])
            return EMPTY
        if isinstance(node, ast.JoinedStr):
            return frozenset([STR])
        if isinstance(node, ast.Name):
            return self.lookup_name(node.id, ctx, env)
        if isinstance(node, ast.Attribute):
            return self.attribute(node, ctx, env)[0]
        if isinstance(node, ast.Call):
            return self.call_type(node, ctx, env)
        if isinstance(node, ast.Await):
            return self.expr(node.value, ctx, env)
        if isinstance(node, ast.NamedExpr):
            return self.expr(node.value, ctx, env)
        if isinstance(node, ast.IfExp):
            return merge(self.expr(node.body, ctx, env), self.expr(node.orelse, ctx, env))
        if isinstance(node, ast.BoolOp):
            return merge(*[self.expr(v, ctx, env) for v in node.values])
        if isinstance(node, ast.UnaryOp):
            if isinstance(node.op, ast.Not):
                return frozenset([BOOL])
            return self.expr(node.operand, ctx, env)
        if isinstance(node, ast.Compare):
            return frozenset([BOOL])
        if isinstance(node, ast.BinOp):
            lt = self.expr(node.left, ctx, env)
            if isinstance(node.op, ast.Div) and PATH in lt:
                return frozenset([PATH])
            if isinstance(node.op, ast.Mod) and STR in lt:
                return frozenset([STR])
            rt = self.expr(node.right, ctx, env)
            if isinstance(node.op, ast.Div) and PATH in rt:
                return frozenset([PATH])
            return merge(frozenset(t for t in lt if t[0] in ('ext', 'list', 'dict', 'tuple')),
                         frozenset(t for t in rt if t[0] in ('ext', 'list', 'dict', 'tuple')))
        if isinstance(node, (ast.List, ast.Set)):
            return frozenset([('list', merge(*[self.expr(e.value if isinstance(e, ast.Starred) else e, ctx, env) for e in node.elts]) if node.elts else EMPTY)])
        if isinstance(node, ast.Tuple):
            return frozenset([('tuple', tuple(self.expr(e, ctx, env) for e in node.elts))])
        if isinstance(node, ast.Dict):
            ks = merge(*[self.expr(k, ctx, env) for k in node.keys if k is not None]) if node.keys else EMPTY
            vs = merge(*[self.expr(v, ctx, env) for v in node.values]) if node.values else EMPTY
            return frozenset([('dict', ks, vs)])
        if isinstance(node, (ast.ListComp, ast.SetComp, ast.GeneratorExp)):
            return frozenset([('list', self.expr(node.elt, ctx, env))])
        if isinstance(node, ast.DictComp):
            return frozenset([('dict', self.expr(node.key, ctx, env), self.expr(node.value, ctx, env))])
        if isinstance(node, ast.Subscript):
            return self.subscript(node, ctx, env)
        if isinstance(node, ast.Lambda):
            li = getattr(node, '_lambda_info', None)
            if li is not None:
                return frozenset([('func', li, ctx.recv)])
            return EMPTY
        if isinstance(node, ast.Starred):
            return self.expr(node.value, ctx, env)
        return EMPTY

    def subscript(self, node: ast.Subscript, ctx, env) -> FrozenSet:
        out = set()
        bts = self.expr(node.value, ctx, env)
        for t in bts:
            if t[0] == 'dict':
                out |= t[2]
            elif t[0] == 'list':
                if isinstance(node.slice, ast.Slice):
                    out.add(t)
                else:
                    out |= t[1]
            elif t[0] == 'tuple':
                if isinstance(node.slice, ast.Constant) and isinstance(node.slice.value, int) and -len(t[1]) <= node.slice.value < len(t[1]):
                    out |= t[1][node.slice.value]
                elif isinstance(node.slice, ast.Slice):
                    out.add(('list', merge(*t[1]) if t[1] else EMPTY))
                else:
                    for e in t[1]:
                        out |= e
            elif t == STR:
                out.add(STR)
            elif t[0] == 'inst':
                gi = t[1].lookup('__getitem__')
                if gi is not None:
                    out |= self.returns(Ctx(gi, t))
            elif t[0] == 'ext' and t[1] == 'Match':
                out.add(STR)
        return normalise(frozenset(out))

    # ---- attributes
    def attribute(self, node: ast.Attribute, ctx, env=None):
        """Return (types, [Target]) where targets are property getters / __getattr__ invoked by the load."""
        bts = self.expr(node.value, ctx, env)
        out = set()
        targets: List[Target] = []
        for t in bts:
            ts, tg = self.attr_of(t, node.attr, ctx)
            out |= ts
            targets.extend(tg)
        return normalise(frozenset(out)), targets

    def attr_of(self, t, name: str, ctx: Optional[Ctx] = None):
        k = t[0]
        if k == 'inst':
            return self._inst_attr(t, name)
        if k == 'cls':
            return self._cls_attr(t, name)
        if k == 'super':
            return self._super_attr(t, name)
        if k == 'module':
            r = self.prog.resolve_dotted_in_module(t[1], name)
            if r is None:
                return EMPTY, []
            return self._binding_type(r), []
        if k == 'ext':
            return self._ext_attr(t, name), []
        if k == 'extfunc':
            return frozenset([('extfunc', f'{t[1]}.{name}')]), []
        if k == 'extcls':
            return frozenset([('extfunc', f'{t[1]}.{name}')]), []
        if k in ('dict', 'list', 'tuple'):
            return frozenset([('bound_ext', k, name, t)]), []
        return EMPTY, []

    def _inst_attr(self, t, name):
        ci: ClassInfo = t[1]
        if name == '__class__':
            return frozenset([('cls', ci)]), []
        f = ci.lookup(name)
        if f is not None:
            if f.is_property:
                tg = Target('func', f, t, via='property')
                return self.returns(Ctx(f, t)), [tg]
            if f.is_static:
                return frozenset([('func', f, None)]), []
            if f.is_classmethod:
                return frozenset([('func', f, ('cls', ci))]), []
            return frozenset([('func', f, t)]), []
        ts = set()
        found = False
        if (ci.qualname, name) in self.attr_types:
            ts |= self.attr_types[(ci.qualname, name)]
            found = True
        owner, val = ci.lookup_class_attr(name)
        if owner is not None:
            ts |= self._global_expr(val, owner.module)
            found = True
        for c in ci.in_pkg_mro():
            if name in c.class_attr_ann:
                ts |= self.annotation(c.class_attr_ann[name], c.module)
                found = True
            if name in c.nested_classes:
                ts.add(('cls', c.nested_classes[name]))
                found = True
        if found:
            return normalise(frozenset(ts)), []
        # external base behaviour
        for b in ci.ext_bases():
            bn = b.split('.')[-1]
            if bn in ('dict', 'str', 'list', 'set'):
                r = self._ext_attr(('ext', bn), name)
                if r:
                    return r, []
        ga = ci.lookup('__getattr__')
        if ga is not None:
            return self.returns(Ctx(ga, t)), [Target('func', ga, t, via='protocol:__getattr__')]
        return EMPTY, []

    def _cls_attr(self, t, name):
        ci: ClassInfo = t[1]
        if name == '__name__' or name == '__module__' or name == '__qualname__':
            return frozenset([STR]), []
        # metaclass members first for properties (data descriptors on the metaclass win)
        if ci.metaclass is not None:
            mf = ci.metaclass.lookup(name)
            if mf is not None:
                if mf.is_property:
                    return self.returns(Ctx(mf, t)), [Target('func', mf, t, via='property')]
                if name not in [n for c in ci.in_pkg_mro() for n in c.methods]:
                    return frozenset([('func', mf, t)]), []
        f = ci.lookup(name)
        if f is not None:
            if f.is_static:
                return frozenset([('func', f, None)]), []
            if f.is_classmethod:
                return frozenset([('func', f, t)]), []
            if f.is_property:
                return frozenset([('ext', 'property')]), []
            return frozenset([('func', f, None)]), []  # unbound method
        owner, val = ci.lookup_class_attr(name)
        if owner is not None:
            return self._global_expr(val, owner.module), []
        for c in ci.in_pkg_mro():
            if name in c.nested_classes:
                return frozenset([('cls', c.nested_classes[name])]), []
        return EMPTY, []

    def _super_attr(self, t, name):
        _, recv, after, kind = t
        mro = recv.in_pkg_mro()
        try:
            idx = mro.index(after)
        except ValueError:
            return EMPTY, []
        for c in mro[idx + 1:]:
            if name in c.methods:
                f = c.methods[name]
                r = (kind, recv)
                if f.is_property:
                    return self.returns(Ctx(f, r)), [Target('func', f, r, via='property')]
                return frozenset([('func', f, r)]), []
        # external base
        full = recv.mro
        ext = [b for b in full[full.index(after) + 1:] if isinstance(b, str)] if after in full else recv.ext_bases()
        for b in ext:
            bn = b.split('.')[-1]
            if bn != 'object':
                return frozenset([('extfunc', f'{bn}.{name}')]), []
        return frozenset([('extfunc', f'object.{name}')]), []

    _PATH_PATH_ATTRS = {'parent', 'with_suffix', 'with_name', 'relative_to', 'resolve', 'absolute', 'joinpath', 'expanduser'}
    _PATH_STR_ATTRS = {'name', 'stem', 'suffix', 'as_posix'}

    def _ext_attr(self, t, name) -> FrozenSet:
        n = t[1]
        if n == 'Signature' and name == 'parameters':
            return frozenset([('dict', frozenset([STR]), frozenset([('ext', 'InspectParameter')]))])
        if n == 'Path':
            if name in ('parent',):
                return frozenset([PATH])
            if name in self._PATH_STR_ATTRS and name != 'as_posix':
                return frozenset([STR])
        return frozenset([('bound_ext', n, name, t)])

    # ---- calls
    def call_type(self, call: ast.Call, ctx, env=None) -> FrozenSet:
        out = set()
        fts = self.expr(call.func, ctx, env, keep_bound=True)
        for ft in fts:
            out |= self._call_result(ft, call, ctx, env)
        return normalise(frozenset(out))

    def _call_result(self, ft, call: ast.Call, ctx, env) -> FrozenSet:
        k = ft[0]
        if k == 'cls':
            return frozenset([('inst', ft[1])])
        if k == 'extcls':
            n = ft[1]
            if n in ('list', 'set', 'tuple', 'frozenset') and call.args:
                return frozenset([('list', self.elem(self.expr(call.args[0], ctx, env)))])
            if n == 'dict':
                if call.args:
                    return frozenset(t for t in self.expr(call.args[0], ctx, env) if t[0] == 'dict') or frozenset([('dict', EMPTY, EMPTY)])
                return frozenset([('dict', EMPTY, EMPTY)])
            if n in ('list', 'set', 'tuple'):
                return frozenset([('list', EMPTY)])
            if n == 'type' and len(call.args) == 1:
                out = set()
                for t in self.expr(call.args[0], ctx, env):
                    if t[0] == 'inst':
                        out.add(('cls', t[1]))
                    elif t[0] == 'ext':
                        out.add(('extcls', t[1]))
                return frozenset(out)
            return frozenset([('ext', n)])
        if k == 'func':
            f, recv = ft[1], ft[2]
            if f.name == '__init__':
                return frozenset([NONE])
            return self.returns(Ctx(f, recv))
        if k == 'inst':
            c = ft[1].lookup('__call__')
            if c is not None:
                return self.returns(Ctx(c, ft))
            return EMPTY
        if k == 'extfunc':
            return self._extfunc_result(ft[1], call, ctx, env)
        if k == 'bound_ext':
            return self._bound_ext_result(ft, call, ctx, env)
        return EMPTY

    def _extfunc_result(self, name: str, call: ast.Call, ctx, env) -> FrozenSet:
        base = name.split('.')[-1]
        arg0 = self.expr(call.args[0], ctx, env) if call.args and not isinstance(call.args[0], ast.Starred) else EMPTY
        if name in ('builtins.sorted', 'builtins.reversed', 'builtins.iter', 'builtins.filter') or name in ('tqdm.tqdm', 'tqdm.tqdm_notebook', 'tqdm.auto.tqdm'):
            src_ = arg0 if name != 'builtins.filter' else (self.expr(call.args[1], ctx, env) if len(call.args) > 1 else EMPTY)
            return frozenset([('list', self.elem(src_))])
        if name == 'builtins.enumerate':
            return frozenset([('list', frozenset([('tuple', (frozenset([INT]), self.elem(arg0)))]))])
        if name == 'builtins.zip':
            return frozenset([('list', frozenset([('tuple', tuple(self.elem(self.expr(a, ctx, env)) for a in call.args))]))])
        if name == 'itertools.chain':
            return frozenset([('list', merge(*[self.elem(self.expr(a, ctx, env)) for a in call.args]) if call.args else EMPTY)])
        if name == 'builtins.map':
            if call.args:
                out = set()
                for ft in self.expr(call.args[0], ctx, env):
                    out |= self._call_result(ft, ast.Call(func=call.args[0], args=[], keywords=[]), ctx, env)
                return frozenset([('list', normalise(frozenset(out)))])
            return frozenset([('list', EMPTY)])
        if name in ('builtins.repr', 'builtins.format', 'builtins.chr', 'getpass.getuser'):
            return frozenset([STR])
        if name in ('builtins.len', 'builtins.id', 'builtins.hash', 'builtins.ord', 'threading.get_ident'):
            return frozenset([INT])
        if name in ('builtins.isinstance', 'builtins.issubclass', 'builtins.hasattr', 'builtins.callable', 'builtins.any', 'builtins.all',
                    'inspect.isclass', 'inspect.isabstract', 'networkx.is_directed_acyclic_graph', 'networkx.has_path'):
            return frozenset([BOOL])
        if name in ('copy.deepcopy', 'copy.copy'):
            return arg0
        if name == 'builtins.next':
            return self.elem(arg0)
        if name in ('builtins.max', 'builtins.min'):
            return self.elem(arg0) if len(call.args) == 1 else merge(*[self.expr(a, ctx, env) for a in call.args])
        if name == 'builtins.super':
            f = ctx.func
            while f is not None and f.parent is not None:
                f = f.parent
            if f is not None and f.cls is not None and ctx.recv is not None:
                after = f.cls
                if len(call.args) == 2:
                    at = self.expr(call.args[0], ctx, env)
                    for t in at:
                        if t[0] == 'cls':
                            after = t[1]
                return frozenset([('super', ctx.recv[1], after, ctx.recv[0])])
            return EMPTY
        if name == 'builtins.getattr':
            if len(call.args) >= 2 and isinstance(call.args[1], ast.Constant) and isinstance(call.args[1].value, str):
                out = set()
                for t in arg0:
                    out |= self.attr_of(t, call.args[1].value, ctx)[0]
                return normalise(frozenset(out))
            return EMPTY
        if name in ('builtins.open',):
            return frozenset([('ext', 'file')])
        if name in ('pathlib.Path',):
            return frozenset([PATH])
        if name in ('collections.defaultdict',):
            return frozenset([('dict', EMPTY, EMPTY)])
        if name == 'logging.getLogger':
            return frozenset([('ext', 'Logger')])
        if name in ('logging.FileHandler', 'logging.StreamHandler'):
            return frozenset([('ext', 'LogHandler')])
        if name == 'filelock.FileLock':
            return frozenset([('ext', 'FileLock')])
        if name == 'networkx.DiGraph':
            return frozenset([('ext', 'DiGraph')])
        if name in ('networkx.descendants', 'networkx.ancestors'):
            return frozenset([('list', EMPTY)])
        if name in ('re.match', 're.fullmatch', 're.search'):
            return frozenset([('ext', 'Match'), NONE])
        if name in ('re.sub',):
            return frozenset([STR])
        if name in ('inspect.signature',):
            return frozenset([('ext', 'Signature')])
        if name in ('hashlib.sha256',):
            return frozenset([('ext', 'Hash')])
        if name.startswith('str.') or name.startswith('object.'):
            return EMPTY
        if name.startswith('dict.'):
            return EMPTY
        return frozenset([('ext', f'result:{name}')])

    def _bound_ext_result(self, ft, call, ctx, env) -> FrozenSet:
        _, kind, meth, base = ft
        if kind == 'dict' or (kind == 'dict' and base[0] == 'ext'):
            if base[0] == 'dict':
                K, V = base[1], base[2]
                if meth == 'items':
                    return frozenset([('list', frozenset([('tuple', (K, V))]))])
                if meth == 'values':
                    return frozenset([('list', V)])
                if meth == 'keys':
                    return frozenset([('list', K)])
                if meth in ('get', 'pop', 'setdefault'):
                    extra = self.expr(call.args[1], ctx, env) if len(call.args) > 1 else (frozenset([NONE]) if meth == 'get' else EMPTY)
                    return merge(V, extra)
                if meth == 'copy':
                    return frozenset([base])
            else:
                if meth in ('items',):
                    return frozenset([('list', frozenset([('tuple', (EMPTY, EMPTY))]))])
                if meth in ('values', 'keys'):
                    return frozenset([('list', EMPTY)])
            return EMPTY
        if kind == 'list':
            if meth in ('copy',):
                return frozenset([base])
            if meth == 'pop':
                return base[1]
            return EMPTY
        if kind == 'str':
            if meth in ('split', 'rsplit', 'splitlines'):
                return frozenset([('list', frozenset([STR]))])
            if meth in ('startswith', 'endswith', 'isdigit'):
                return frozenset([BOOL])
            if meth in ('join', 'replace', 'lower', 'upper', 'strip', 'lstrip', 'rstrip', 'format', 'encode', 'decode'):
                return frozenset([STR])
            return EMPTY
        if kind == 'Path':
            if meth in self._PATH_PATH_ATTRS:
                return frozenset([PATH])
            if meth == 'open':
                return frozenset([('ext', 'file')])
            if meth in ('exists', 'is_file', 'is_dir', 'is_symlink'):
                return frozenset([BOOL])
            if meth in ('glob', 'iterdir', 'rglob'):
                return frozenset([('list', frozenset([PATH]))])
            if meth == 'read_text':
                return frozenset([STR])
            return EMPTY
        if kind == 'Hash' and meth == 'hexdigest':
            return frozenset([STR])
        if kind == 'Match' and meth in ('group',):
            return frozenset([STR])
        if kind == 'Logger':
            return EMPTY
        return EMPTY

    def returns(self, ctx: Ctx) -> FrozenSet:
        if ctx in self._ret_cache:
            return self._ret_cache[ctx]
        if ctx in self._ret_stack:
            return EMPTY
        self._ret_stack.add(ctx)
        f = ctx.func
        try:
            if isinstance(f.node, ast.Lambda):
                ts = self.expr(f.node.body, ctx)
            else:
                ann = self.annotation(f.node.returns, f.module)
                ts = set(ann)
                is_gen = False
                own = self.own_nodes(f)
                for node in own:
                    if isinstance(node, ast.Return) and node.value is not None:
                        ts |= self.expr(node.value, ctx)
                    elif isinstance(node, (ast.Yield, ast.YieldFrom)):
                        is_gen = True
                if is_gen:
                    ys = set()
                    for node in own:
                        if isinstance(node, ast.Yield) and node.value is not None:
                            ys |= self.expr(node.value, ctx)
                        elif isinstance(node, ast.YieldFrom):
                            ys |= self.elem(self.expr(node.value, ctx))
                    ts = {('list', normalise(frozenset(ys)))}
                # abstract methods: the annotation is all we have; overriding impls give the rest
                ts = normalise(frozenset(ts))
        finally:
            self._ret_stack.discard(ctx)
        self._ret_cache[ctx] = ts
        return ts

    # ------------------------------------------------------------------ narrowing
    def _narrow(self, node, key: str, ts: FrozenSet, ctx: Ctx) -> FrozenSet:
        cache = self.__dict__.setdefault('_narrow_facts', {})
        facts = cache.get(id(node))
        if facts is None:
            facts = cache[id(node)] = self._narrow_facts_of(node)
        for pos, test in facts:
            ts = self._apply_fact(ts, key, pos, test, ctx)
        return ts

    def _narrow_facts_of(self, node):
        facts = []  # list of (positive: bool, test expr)
        child = node
        parent = getattr(node, '_parent', None)
        while parent is not None and not isinstance(parent, (ast.FunctionDef, ast.AsyncFunctionDef, ast.Lambda, ast.ClassDef, ast.Module)):
            if isinstance(parent, (ast.If, ast.While, ast.IfExp)):
                body = parent.body if isinstance(parent.body, list) else [parent.body]
                orelse = parent.orelse if isinstance(parent.orelse, list) else [parent.orelse]
                if any(child is b for b in body):
                    facts.append((True, parent.test))
                elif any(child is b for b in orelse) and not isinstance(parent, ast.While):
                    facts.append((False, parent.test))
            elif isinstance(parent, ast.BoolOp):
                idx = next((i for i, v in enumerate(parent.values) if v is child), None)
                if idx:
                    for prev in parent.values[:idx]:
                        facts.append((isinstance(parent.op, ast.And), prev))
            elif isinstance(parent, (ast.ListComp, ast.SetComp, ast.GeneratorExp, ast.DictComp)):
                if not any(child is g for g in parent.generators):
                    for g in parent.generators:
                        for cond in g.ifs:
                            facts.append((True, cond))
            elif isinstance(parent, ast.comprehension):
                idx = next((i for i, v in enumerate(parent.ifs) if v is child), None)
                if idx:
                    for prev in parent.ifs[:idx]:
                        facts.append((True, prev))
            # sequential facts: earlier siblings in the same block
            for fieldname in ('body', 'orelse', 'finalbody'):
                block = getattr(parent, fieldname, None)
                if isinstance(block, list) and any(child is b for b in block):
                    i = next(i for i, b in enumerate(block) if b is child)
                    for prev in block[:i]:
                        if isinstance(prev, ast.If) and not prev.orelse and prev.body and isinstance(prev.body[-1], (ast.Continue, ast.Return, ast.Raise, ast.Break)):
                            facts.append((False, prev.test))
                        elif isinstance(prev, ast.Assert):
                            facts.append((True, prev.test))
            child = parent
            parent = getattr(parent, '_parent', None)
        if parent is not None and isinstance(parent, (ast.FunctionDef, ast.AsyncFunctionDef)):
            block = parent.body
            if any(child is b for b in block):
                i = next(i for i, b in enumerate(block) if b is child)
                for prev in block[:i]:
                    if isinstance(prev, ast.If) and not prev.orelse and prev.body and isinstance(prev.body[-1], (ast.Continue, ast.Return, ast.Raise, ast.Break)):
                        facts.append((False, prev.test))
                    elif isinstance(prev, ast.Assert):
                        facts.append((True, prev.test))
        return facts

    def _apply_fact(self, ts, key, pos, test, ctx) -> FrozenSet:
        if isinstance(test, ast.UnaryOp) and isinstance(test.op, ast.Not):
            return self._apply_fact(ts, key, not pos, test.operand, ctx)
        if isinstance(test, ast.BoolOp):
            if (isinstance(test.op, ast.And) and pos) or (isinstance(test.op, ast.Or) and not pos):
                for v in test.values:
                    ts = self._apply_fact(ts, key, pos, v, ctx)
            return ts
        if isinstance(test, ast.Call) and isinstance(test.func, ast.Name) and test.func.id in ('isinstance', 'custom_isinstance', 'issubclass') and len(test.args) == 2:
            if _dotted(test.args[0]) != key:
                return ts
            is_sub = test.func.id == 'issubclass'
            ctypes = set()
            cexprs = test.args[1].elts if isinstance(test.args[1], (ast.Tuple, ast.List, ast.Set)) else [test.args[1]]
            for ce in cexprs:
                for t in self._expr(ce, ctx):
                    if t[0] == 'cls':
                        ctypes.add(('cls', t[1]) if is_sub else ('inst', t[1]))
                    elif t[0] == 'extcls':
                        ctypes.add(('extcls', t[1]) if is_sub else ('ext', t[1]))
                    elif t[0] == 'extfunc':
                        ctypes.add(('ext', _EXT_ALIASES.get(t[1], t[1].split('.')[-1])))
            if not ctypes:
                return ts
            if pos:
                keep = set()
                for t in ts:
                    for c in ctypes:
                        if t[0] == c[0] and t[0] in ('inst', 'cls') and t[1].is_subclass_of(c[1]):
                            keep.add(t)
                        elif t == c:
                            keep.add(t)
                return frozenset(keep) if keep else frozenset(ctypes)
            else:
                rem = set()
                for t in ts:
                    for c in ctypes:
                        if t[0] == c[0] and t[0] in ('inst', 'cls') and t[1].is_subclass_of(c[1]):
                            rem.add(t)
                        elif t == c:
                            rem.add(t)
                return frozenset(ts - rem)
        if isinstance(test, ast.Compare) and len(test.ops) == 1:
            l, op, r = test.left, test.ops[0], test.comparators[0]
            # type(x) is str
            if isinstance(l, ast.Call) and isinstance(l.func, ast.Name) and l.func.id == 'type' and len(l.args) == 1 and _dotted(l.args[0]) == key:
                rt = self._expr(r, ctx)
                tt = set()
                for t in rt:
                    if t[0] == 'extcls':
                        tt.add(('ext', t[1]))
                    elif t[0] == 'cls':
                        tt.add(('inst', t[1]))
                if tt:
                    positive = pos == isinstance(op, (ast.Is, ast.Eq))
                    if positive:
                        return frozenset(tt)
                    return frozenset(ts - tt)
                return ts
            if _dotted(l) == key and isinstance(r, ast.Constant) and r.value is None:
                is_none = pos == isinstance(op, (ast.Is, ast.Eq))
                if is_none:
                    return frozenset([NONE])
                return frozenset(t for t in ts if t != NONE)
            return ts
        if _dotted(test) == key:
            if pos:
                return frozenset(t for t in ts if t != NONE)
        return ts

    # ------------------------------------------------------------------ call targets
    def call_targets(self, call: ast.Call, ctx: Ctx) -> List[Target]:
        out: List[Target] = []
        fts = self.expr(call.func, ctx, keep_bound=True)
        if not fts:
            name = call.func.attr if isinstance(call.func, ast.Attribute) else (_dotted(call.func) or '?')
            return [Target('unknown', name=name)]
        for ft in fts:
            k = ft[0]
            if k == 'func':
                out.append(Target('func', ft[1], ft[2], via='call'))
            elif k == 'cls':
                out.append(Target('ctor', cls=ft[1], via='call'))
                newf = ft[1].lookup('__new__')
                if newf is not None:
                    out.append(Target('func', newf, ('cls', ft[1]), via='call'))
            elif k == 'inst':
                c = ft[1].lookup('__call__')
                if c is not None:
                    out.append(Target('func', c, ft, via='protocol:__call__'))
                else:
                    out.append(Target('unknown', name=f'call of {ft[1].short} instance'))
            elif k == 'extfunc':
                out.append(Target('ext', name=ft[1], via='call'))
            elif k == 'extcls':
                out.append(Target('ext', name=ft[1], via='call'))
            elif k == 'bound_ext':
                out.append(Target('ext', name=f'{ft[1]}.{ft[2]}', recv=ft[3], via='call'))
            elif k == 'none':
                continue
            else:
                out.append(Target('unknown', name=_dotted(call.func) or '?'))
        return out

    def subclass_dispatch(self, t, name: str) -> List[Target]:
        """All implementations of `name` for static receiver type t = ('inst', C): C and its subclasses."""
        out, seen = [], set()
        for c in t[1].all_subclasses():
            f = c.lookup(name)
            if f is None:
                continue
            r = (t[0], c)
            key = (id(f), c.qualname)
            if key in seen:
                continue
            seen.add(key)
            out.append(Target('func', f, r))
        return out
