"""CLI: python -m tcverif check C05 [--thorough] [--repo PATH] | selfcheck | explain <replay.json> | all"""
from __future__ import annotations

import importlib
import json
import os
import sys
import time
import traceback

from .model import AnalysisError


def _props():
    here = os.path.dirname(os.path.abspath(__file__))
    out = []
    for f in sorted(os.listdir(os.path.join(here, 'rules'))):
        if f.startswith('c') and f.endswith('.py') and f[1:-3].isdigit():
            out.append('C' + f[1:-3])
    return out


def run_check(prop: str, thorough: bool, root=None, overlay=None, quiet=False, write=True):
    """Returns (exit_code, Report).  Never raises."""
    from .core import Analysis
    from .report import Report
    tier = 'thorough' if thorough else 'quick'
    R = Report(prop, tier, quiet=quiet)
    try:
        mod = importlib.import_module(f'tcverif.rules.{prop.lower()}')
        A = Analysis(root, overlay)
        mod.run(A, R, thorough)
        from .rules import iteration, shared
        iteration.run(A, R, prop)
        shared.run(A, R, prop)
        R.extra.setdefault('units_analysed', A.units())
        if thorough and write:
            # checker validation on in-memory variants of the current tree; reported, never decides the exit code
            from .selftest import run_all
            from .sweeps import sweep
            R.extra['package_sweep'] = sweep(A, prop)
            v = run_all([prop], root=A.root, verbose=False)
            from .selftest import run_seeded
            sd = run_seeded([prop], root=A.root, verbose=False)
            from .selftest import run_benign, run_regressions
            bn = run_benign(props=[prop], root=A.root, verbose=False)
            rg = run_regressions(root=A.root, verbose=False, props=[prop])
            rg = {'total': rg['total'], 'reported': rg['reported'], 'missed': rg['missed'], 'not_applicable': rg['not_applicable'], 'note': 'reverse diffs of all fix: commits; each must be reported by the properties it was repaired for'}
            R.validation = {'seeded_breaks': v['mutants'], 'reported': v['killed'], 'missed': v['missed'], 'benign_variants': v['benign'], 'silent': v['silent'],
                            'false_alarms': v['false_alarms'], 'operators_no_longer_applicable': v['not_applicable'], 'errors': v['errors'], 'wall_s': v['wall_s'],
                            'independent_seeded_changes': sd,
                            'reverted_fixes': rg,
                            'independent_benign_refactorings': {'runs': bn['runs'], 'silent': bn['silent'], 'alarms': bn['alarms'], 'not_applicable': bn['not_applicable']},
                            'note': 'each variant is an in-memory edit of the current /repo sources analysed by the same check; results are evidence about the checker, not about the property'}
        if not write:
            return _dry_finish(R), R
        return R.finish(), R
    except AnalysisError as e:
        if not quiet:
            print(f'ANALYSIS-ERROR property={prop} {e}')
        R.error = str(e)
        return 2, R
    except Exception as e:  # tool bug: never a VIOLATION
        if not quiet:
            traceback.print_exc()
            print(f'ANALYSIS-ERROR property={prop} internal error: {type(e).__name__}: {e}')
        R.error = f'{type(e).__name__}: {e}'
        return 2, R


def _dry_finish(R):
    """Verdict without touching evidence files (used for variants in self-validation)."""
    from .report import VIOLATION, load_known
    known = [k for k in load_known() if k.get('property') == R.prop and k.get('status') == 'known']
    counts = {}
    for o in R.obs:
        counts[o.rule] = counts.get(o.rule, 0) + 1
    for rid, floor in R.floors.items():
        if counts.get(rid, 0) < floor:
            R.error = f'rule {rid}: {counts.get(rid, 0)} < floor {floor}'
            return 2
    n = 0
    for o in R.obs:
        if o.status == VIOLATION:
            if any(k.get('rule') == o.rule and k.get('construct') == o.construct and k.get('key') == o.key for k in known):
                o.status = 'KNOWN-FINDING'
            else:
                n += 1
    return 1 if n else 0


def main(argv):
    import signal
    try:
        signal.signal(signal.SIGPIPE, signal.SIG_DFL)
    except Exception:
        pass
    if not argv:
        print(__doc__)
        return 2
    cmd = argv[0]
    if cmd == 'selfcheck':
        import ast  # noqa
        import networkx  # noqa
        from .core import Analysis
        A = Analysis()
        print('tcverif selfcheck ok:', A.units(), 'properties:', ' '.join(_props()))
        return 0
    if cmd == 'check':
        prop = argv[1]
        thorough = '--thorough' in argv or os.environ.get('VERIF_TIER') == 'thorough'
        root = None
        if '--repo' in argv:
            root = argv[argv.index('--repo') + 1]
        code, _ = run_check(prop, thorough, root)
        return code
    if cmd == 'all':
        thorough = '--thorough' in argv
        worst = 0
        for p in _props():
            code, _ = run_check(p, thorough)
            worst = max(worst, code)
        return worst
    if cmd == 'explain':
        with open(argv[1]) as f:
            d = json.load(f)
        print(json.dumps(d, indent=1))
        print('--- re-deriving on the current tree ---')
        code, R = run_check(d['property'], False, write=False, quiet=True)
        hit = [o for o in R.obs if o.rule == d['rule'] and o.construct == d['construct'] and o.key == d.get('key')]
        for o in hit:
            print(json.dumps(o.as_dict(), indent=1, default=str))
        print('still present' if hit else 'no longer present on the current tree')
        return 1 if hit else 0
    print(__doc__)
    return 2


if __name__ == '__main__':
    sys.exit(main(sys.argv[1:]))
