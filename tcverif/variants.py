"""Seeded breaks (MUTANTS) and behaviour-preserving rewrites (BENIGN) used to validate the checkers.

Each edit is (file under src/taskchain/, old text, new text); the old text must occur exactly once, otherwise the
operator is reported as "no longer applies".  All seeded breaks compile and were chosen to pass the 128 tests
(the ones derived from the `fix:` commits are exactly the pre-fix code).
"""

M = []
B = []


def mut(id_, prop, expect, *edits):
    M.append({'id': id_, 'prop': prop, 'expect': expect, 'edits': [tuple(e) for e in edits]})


def ben(id_, props, *edits):
    B.append({'id': id_, 'props': props, 'edits': [tuple(e) for e in edits]})


# ---------------------------------------------------------------------------------------------- C04
mut('c04-has_data-via-data', 'C04', 'R04.1', ('task.py', "        return self._data_without_value.exists()\n", "        return self.data.exists()\n"))
mut('c04-tasks_df-computed-via-data', 'C04', 'R04.1',
    ('chain.py', "'computed': task.has_data if task.data_path else None,", "'computed': task.data.exists() if task.data_path else None,"))
mut('c04-force-delete-via-data', 'C04', 'R04.1',
    ('task.py', "            data = self._data_without_value\n            if data.exists():\n                data.delete()", "            data = self.data\n            if data.exists():\n                data.delete()"))
mut('c04-chain-force-always-recomputes', 'C04', 'R04.1b',
    ('chain.py', "        if recompute:\n            for task in list(forced_tasks)[::-1]:\n                _ = task.value", "        if True:\n            for task in list(forced_tasks)[::-1]:\n                _ = task.value"))
mut('c04-args-before-branch', 'C04', 'R04.2',
    ('task.py', "        if self._data and self._data.is_persisting and self._data.exists() and not self._forced:\n            self._data.load(self.data_type)",
     "        run_args = self._get_run_arguments()\n        if self._data and self._data.is_persisting and self._data.exists() and not self._forced:\n            self._data.load(self.data_type)"))
mut('c04-memo-dropped', 'C04', 'R04.3',
    ('task.py', "        if hasattr(self, '_data') and self._data is not None:\n            return self._data\n\n        if len(inspect", "        if len(inspect"))
mut('c04-registry-hit-returns-new', 'C04', 'R04.4',
    ('chain.py', "        if task_registry and key in task_registry:\n            del task\n            return task_registry[key]", "        if task_registry and key in task_registry:\n            return task"))
mut('c04-log-via-data', 'C04', 'R04.1', ('task.py', "        data = self._data_without_value\n        if data:\n            return data.log", "        data = self.data\n        if data:\n            return data.log"))
mut('c04-draw-computes', 'C04', 'R04.1', ('chain.py', "if not (node.has_data or issubclass(node.data_class, InMemoryData)):", "if not (node.value is not None or issubclass(node.data_class, InMemoryData)):"))
mut('c04-init-objects-pulls-values', 'C04', 'R04.1', ('chain.py', "                if isinstance(obj, ChainObject):\n                    obj.init_chain(self)",
    "                if isinstance(obj, ChainObject):\n                    obj.init_chain(self)\n        for task in self.tasks.values():\n            _ = task.value"))

ben('ben-has_data-local', ['C04'], ('task.py', "        return self._data_without_value.exists()\n", "        data = self._data_without_value\n        return data.exists()\n"))
ben('ben-memo-nested-if', ['C04', 'C01', 'C07'],
    ('task.py', "        if hasattr(self, '_data') and self._data is not None:\n            return self._data\n\n        if len(inspect",
     "        if hasattr(self, '_data'):\n            if self._data is not None:\n                return self._data\n\n        if len(inspect"))
ben('ben-tasks_df-rename-local', ['C04'], ('chain.py', "        for name, task in self.tasks.items():\n            rows[name] = {", "        for task_name, task in self.tasks.items():\n            rows[task_name] = {"),
    ('chain.py', "                'name': task.slugname.split(':')[-1],", "                'name': task.slugname.split(':')[-1],  # short name"))


MUTANTS = M
BENIGN = B
