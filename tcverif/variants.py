"""Seeded breaks (MUTANTS) and behaviour-preserving rewrites (BENIGN) used to validate the checkers.

Each edit is (file under src/taskchain/, old text, new text); the old text must occur exactly once, otherwise the
operator is reported as "no longer applies".  All seeded breaks compile and were chosen to pass the 128 tests
(the ones derived from the `fix:` commits are exactly the pre-fix code).
"""

M = []
B = []


def mut(id_, prop, expect, *edits):
    M.append({'id': id_, 'prop': prop, 'expect': expect, 'edits': [tuple(e) for e in edits]})


def ben(id_, props, *edits):
    B.append({'id': id_, 'props': props, 'edits': [tuple(e) for e in edits]})


# ---------------------------------------------------------------------------------------------- C04
mut('c04-has_data-via-data', 'C04', 'R04.1', ('task.py', "        return self._data_without_value.exists()\n", "        return self.data.exists()\n"))
mut('c04-tasks_df-computed-via-data', 'C04', 'R04.1',
    ('chain.py', "'computed': task.has_data if task.data_path else None,", "'computed': task.data.exists() if task.data_path else None,"))
mut('c04-force-delete-via-data', 'C04', 'R04.1',
    ('task.py', "            data = self._data_without_value\n            if data.exists():\n                data.delete()", "            data = self.data\n            if data.exists():\n                data.delete()"))
mut('c04-chain-force-always-recomputes', 'C04', 'R04.1b',
    ('chain.py', "        if recompute:\n            for task in list(forced_tasks)[::-1]:\n                _ = task.value", "        if True:\n            for task in list(forced_tasks)[::-1]:\n                _ = task.value"))
mut('c04-args-before-branch', 'C04', 'R04.2',
    ('task.py', "        if self._data and self._data.is_persisting and self._data.exists() and not self._forced:\n            self._data.load(self.data_type)",
     "        run_args = self._get_run_arguments()\n        if self._data and self._data.is_persisting and self._data.exists() and not self._forced:\n            self._data.load(self.data_type)"))
mut('c04-memo-dropped', 'C04', 'R04.3',
    ('task.py', "        if hasattr(self, '_data') and self._data is not None:\n            return self._data\n\n        if len(inspect", "        if len(inspect"))
mut('c04-registry-hit-returns-new', 'C04', 'R04.4',
    ('chain.py', "        if task_registry and key in task_registry:\n            del task\n            return task_registry[key]", "        if task_registry and key in task_registry:\n            return task"))
mut('c04-log-via-data', 'C04', 'R04.1', ('task.py', "        data = self._data_without_value\n        if data:\n            return data.log", "        data = self.data\n        if data:\n            return data.log"))
mut('c04-draw-computes', 'C04', 'R04.1', ('chain.py', "if not (node.has_data or issubclass(node.data_class, InMemoryData)):", "if not (node.value is not None or issubclass(node.data_class, InMemoryData)):"))
mut('c04-init-objects-pulls-values', 'C04', 'R04.1', ('chain.py', "                if isinstance(obj, ChainObject):\n                    obj.init_chain(self)",
    "                if isinstance(obj, ChainObject):\n                    obj.init_chain(self)\n        for task in self.tasks.values():\n            _ = task.value"))

ben('ben-has_data-local', ['C04'], ('task.py', "        return self._data_without_value.exists()\n", "        data = self._data_without_value\n        return data.exists()\n"))
ben('ben-memo-nested-if', ['C04', 'C01', 'C07'],
    ('task.py', "        if hasattr(self, '_data') and self._data is not None:\n            return self._data\n\n        if len(inspect",
     "        if hasattr(self, '_data'):\n            if self._data is not None:\n                return self._data\n\n        if len(inspect"))
ben('ben-tasks_df-rename-local', ['C04'], ('chain.py', "        for name, task in self.tasks.items():\n            rows[name] = {", "        for task_name, task in self.tasks.items():\n            rows[task_name] = {"),
    ('chain.py', "                'name': task.slugname.split(':')[-1],", "                'name': task.slugname.split(':')[-1],  # short name"))


MUTANTS = M
BENIGN = B

# ---------------------------------------------------------------------------------------------- C05
mut('c05-prefix-json-direct', 'C05', 'R05.1', ('data.py', "        with self.tmp_path.open('w') as f:\n            json.dump(self.value, f, indent=2, sort_keys=True)\n        self._publish()",
                                               "        json.dump(self.value, self.path.open('w'), indent=2, sort_keys=True)"))
mut('c05-dirdata-copytree', 'C05', 'R05.1', ('data.py', "        shutil.move(str(self.tmp_path), str(self.path))\n        self._value = self._dir = self.path\n\n    def load(self, data_type: Type) -> Path:",
                                             "        shutil.copytree(str(self.tmp_path), str(self.path))\n        shutil.rmtree(self.tmp_path)\n        self._value = self._dir = self.path\n\n    def load(self, data_type: Type) -> Path:"))
mut('c05-publish-by-copy', 'C05', 'R05.1', ('data.py', "        os.replace(self.tmp_path, self.path)", "        shutil.copyfile(self.tmp_path, self.path)\n        os.remove(self.tmp_path)"))
mut('c05-lazy-direct', 'C05', 'R05.1', ('data.py', "        write_jsons(value, self.tmp_path)\n        shutil.move(str(self.tmp_path), str(self.path))", "        write_jsons(value, self.path)"))
mut('c05-numpy-list-late-write', 'C05', 'R05.1', ('data.py', "        shutil.move(str(self.tmp_path), str(self.path))\n\n    def load(self, data_type: Type) -> Any:\n        self._value = []",
                                                  "        shutil.move(str(self.tmp_path), str(self.path))\n        np.save(str(self.path / 'count.npy'), len(self.value))\n\n    def load(self, data_type: Type) -> Any:\n        self._value = []"))
mut('c05-handler-no-reset', 'C05', 'R05.2', ('task.py', "                    self._data.on_run_error()\n                    self._data = None\n", "                    self._data.on_run_error()\n"))
mut('c05-handler-no-on_run_error', 'C05', 'R05.2', ('task.py', "                    self._data.on_run_error()\n                    self._data = None\n", "                    self._data = None\n"))
mut('c05-handler-swallows', 'C05', 'R05.2', ('task.py', "                    self._data = None\n                raise error\n", "                    self._data = None\n                self.logger.error(error)\n                return None\n"))
mut('c05-process-result-outside-try', 'C05', 'R05.2', ('task.py', "                self._process_run_result(run_result)\n            except Exception as error:\n                if self._data:\n                    self._data.on_run_error()\n                    self._data = None\n                raise error\n",
                                                        "            except Exception as error:\n                if self._data:\n                    self._data.on_run_error()\n                    self._data = None\n                raise error\n            self._process_run_result(run_result)\n"))
mut('c05-mismatch-saved', 'C05', 'R05.3', ('task.py', "            if not issubclass(self.data_class, InMemoryData):\n                raise ValueError(\n                    f'{fullname(self.__class__)}: When ignoring return type mismatch, InMemoryData data class is required.'\n                )\n", ""))
mut('c05-dir-error-rmtree', 'C05', 'R05.4', ('data.py', "        if self.error_path.exists():\n            shutil.rmtree(self.error_path)\n        shutil.move(str(self.tmp_path), str(self.error_path))", "        shutil.rmtree(self.tmp_path)"))
mut('c05-continues-init-cleans', 'C05', 'R05.4', ('data.py', "        if not self.tmp_path.exists():\n            self.tmp_path.mkdir()\n        self._dir = self.tmp_path",
                                                   "        if self.tmp_path.exists():\n            shutil.rmtree(self.tmp_path)\n        self.tmp_path.mkdir()\n        self._dir = self.tmp_path"))
mut('c05-new-class-direct-write', 'C05', 'R05.1', ('data.py', "class GeneratedDataLazy(FileData):", "class TextData(FileData):\n    @property\n    def extension(self):\n        return 'txt'\n\n    def save(self):\n        self.path.write_text(self.value)\n\n    def load(self, data_type):\n        self._value = self.path.read_text()\n        return self._value\n\n\nclass GeneratedDataLazy(FileData):"))

ben('ben-json-save-local-tmp', ['C05', 'C06', 'C12'], ('data.py', "        with self.tmp_path.open('w') as f:\n            json.dump(self.value, f, indent=2, sort_keys=True)\n        self._publish()",
                                         "        tmp = self.tmp_path\n        with tmp.open('w') as f:\n            json.dump(self.value, f, indent=2, sort_keys=True)\n        self._publish()"))
ben('ben-publish-path-replace', ['C05', 'C06'], ('data.py', "        os.replace(self.tmp_path, self.path)", "        self.tmp_path.replace(self.path)"))
ben('ben-handler-reorder', ['C05', 'C18', 'C04'], ('task.py', "                if self._data:\n                    self._data.on_run_error()\n                    self._data = None\n",
                                     "                if self._data:\n                    failed = self._data\n                    self._data = None\n                    failed.on_run_error()\n"))
ben('ben-handler-bare-raise', ['C05', 'C18'], ('task.py', "                    self._data = None\n                raise error\n", "                    self._data = None\n                raise\n"))
ben('ben-save-extra-log', ['C05'], ('task.py', "        if self._data.is_persisting:\n            self._data.save()", "        if self._data.is_persisting:\n            self.logger.debug('saving')\n            self._data.save()"))
