"""Seeded breaks (MUTANTS) and behaviour-preserving rewrites (BENIGN) used to validate the checkers.

Each edit is (file under src/taskchain/, old text, new text); the old text must occur exactly once, otherwise the
operator is reported as "no longer applies".  All seeded breaks compile and were chosen to pass the 128 tests
(the ones derived from the `fix:` commits are exactly the pre-fix code).
"""

M = []
B = []


def mut(id_, prop, expect, *edits):
    M.append({'id': id_, 'prop': prop, 'expect': expect, 'edits': [tuple(e) for e in edits]})


def ben(id_, props, *edits):
    B.append({'id': id_, 'props': props, 'edits': [tuple(e) for e in edits]})


# ---------------------------------------------------------------------------------------------- C04
mut('c04-has_data-via-data', 'C04', 'R04.1', ('task.py', "        return self._data_without_value.exists()\n", "        return self.data.exists()\n"))
mut('c04-tasks_df-computed-via-data', 'C04', 'R04.1',
    ('chain.py', "'computed': task.has_data if task.data_path else None,", "'computed': task.data.exists() if task.data_path else None,"))
mut('c04-force-delete-via-data', 'C04', 'R04.1',
    ('task.py', "            data = self._data_without_value\n            if data.exists():\n                data.delete()", "            data = self.data\n            if data.exists():\n                data.delete()"))
mut('c04-chain-force-always-recomputes', 'C04', 'R04.1b',
    ('chain.py', "        if recompute:\n            for task in list(forced_tasks)[::-1]:\n                _ = task.value", "        if True:\n            for task in list(forced_tasks)[::-1]:\n                _ = task.value"))
mut('c04-args-before-branch', 'C04', 'R04.2',
    ('task.py', "        if self._data and self._data.is_persisting and self._data.exists() and not self._forced:\n            self._data.load(self.data_type)",
     "        run_args = self._get_run_arguments()\n        if self._data and self._data.is_persisting and self._data.exists() and not self._forced:\n            self._data.load(self.data_type)"))
mut('c04-memo-dropped', 'C04', 'R04.3',
    ('task.py', "        if hasattr(self, '_data') and self._data is not None:\n            return self._data\n\n        if len(inspect", "        if len(inspect"))
mut('c04-registry-hit-returns-new', 'C04', 'R04.4',
    ('chain.py', "        if task_registry and key in task_registry:\n            del task\n            return task_registry[key]", "        if task_registry and key in task_registry:\n            return task"))
mut('c04-log-via-data', 'C04', 'R04.1', ('task.py', "        data = self._data_without_value\n        if data:\n            return data.log", "        data = self.data\n        if data:\n            return data.log"))
mut('c04-draw-computes', 'C04', 'R04.1', ('chain.py', "if not (node.has_data or issubclass(node.data_class, InMemoryData)):", "if not (node.value is not None or issubclass(node.data_class, InMemoryData)):"))
mut('c04-init-objects-pulls-values', 'C04', 'R04.1', ('chain.py', "                if isinstance(obj, ChainObject):\n                    obj.init_chain(self)",
    "                if isinstance(obj, ChainObject):\n                    obj.init_chain(self)\n        for task in self.tasks.values():\n            _ = task.value"))

ben('ben-has_data-local', ['C04'], ('task.py', "        return self._data_without_value.exists()\n", "        data = self._data_without_value\n        return data.exists()\n"))
ben('ben-memo-nested-if', ['C04', 'C01', 'C07'],
    ('task.py', "        if hasattr(self, '_data') and self._data is not None:\n            return self._data\n\n        if len(inspect",
     "        if hasattr(self, '_data'):\n            if self._data is not None:\n                return self._data\n\n        if len(inspect"))
ben('ben-tasks_df-rename-local', ['C04'], ('chain.py', "        for name, task in self.tasks.items():\n            rows[name] = {", "        for task_name, task in self.tasks.items():\n            rows[task_name] = {"),
    ('chain.py', "                'name': task.slugname.split(':')[-1],", "                'name': task.slugname.split(':')[-1],  # short name"))


MUTANTS = M
BENIGN = B

# ---------------------------------------------------------------------------------------------- C05
mut('c05-prefix-json-direct', 'C05', 'R05.1', ('data.py', "        with self.tmp_path.open('w') as f:\n            json.dump(self.value, f, indent=2, sort_keys=True)\n        self._publish()",
                                               "        json.dump(self.value, self.path.open('w'), indent=2, sort_keys=True)"))
mut('c05-dirdata-copytree', 'C05', 'R05.1', ('data.py', "        shutil.move(str(self.tmp_path), str(self.path))\n        self._value = self._dir = self.path\n\n    def load(self, data_type: Type) -> Path:",
                                             "        shutil.copytree(str(self.tmp_path), str(self.path))\n        shutil.rmtree(self.tmp_path)\n        self._value = self._dir = self.path\n\n    def load(self, data_type: Type) -> Path:"))
mut('c05-publish-by-copy', 'C05', 'R05.1', ('data.py', "        os.replace(self.tmp_path, self.path)", "        shutil.copyfile(self.tmp_path, self.path)\n        os.remove(self.tmp_path)"))
mut('c05-lazy-direct', 'C05', 'R05.1', ('data.py', "        write_jsons(value, self.tmp_path)\n        shutil.move(str(self.tmp_path), str(self.path))", "        write_jsons(value, self.path)"))
mut('c05-numpy-list-late-write', 'C05', 'R05.1', ('data.py', "        shutil.move(str(self.tmp_path), str(self.path))\n\n    def load(self, data_type: Type) -> Any:\n        self._value = []",
                                                  "        shutil.move(str(self.tmp_path), str(self.path))\n        np.save(str(self.path / 'count.npy'), len(self.value))\n\n    def load(self, data_type: Type) -> Any:\n        self._value = []"))
mut('c05-handler-no-reset', 'C05', 'R05.2', ('task.py', "                    self._data.on_run_error()\n                    self._data = None\n", "                    self._data.on_run_error()\n"))
mut('c05-handler-no-on_run_error', 'C05', 'R05.2', ('task.py', "                    self._data.on_run_error()\n                    self._data = None\n", "                    self._data = None\n"))
mut('c05-handler-swallows', 'C05', 'R05.2', ('task.py', "                    self._data = None\n                raise error\n", "                    self._data = None\n                self.logger.error(error)\n                return None\n"))
mut('c05-process-result-outside-try', 'C05', 'R05.2', ('task.py', "                self._process_run_result(run_result)\n            except BaseException as error:\n                # also KeyboardInterrupt / SystemExit raised inside run must not leave a half-initialised data object behind\n                if self._data:\n                    self._data.on_run_error()\n                    self._data = None\n                raise error\n",
                                                        "            except BaseException as error:\n                # also KeyboardInterrupt / SystemExit raised inside run must not leave a half-initialised data object behind\n                if self._data:\n                    self._data.on_run_error()\n                    self._data = None\n                raise error\n            self._process_run_result(run_result)\n"))
mut('c05-mismatch-saved', 'C05', 'R05.3', ('task.py', "            if not issubclass(self.data_class, InMemoryData):\n                raise ValueError(\n                    f'{fullname(self.__class__)}: When ignoring return type mismatch, InMemoryData data class is required.'\n                )\n", ""))
mut('c05-dir-error-rmtree', 'C05', 'R05.4', ('data.py', "        if self.error_path.exists():\n            shutil.rmtree(self.error_path)\n        shutil.move(str(self.tmp_path), str(self.error_path))", "        shutil.rmtree(self.tmp_path)"))
mut('c05-continues-init-cleans', 'C05', 'R05.4', ('data.py', "        if not self.tmp_path.exists():\n            self.tmp_path.mkdir()\n        self._dir = self.tmp_path",
                                                   "        if self.tmp_path.exists():\n            shutil.rmtree(self.tmp_path)\n        self.tmp_path.mkdir()\n        self._dir = self.tmp_path"))
mut('c05-new-class-direct-write', 'C05', 'R05.1', ('data.py', "class GeneratedDataLazy(FileData):", "class TextData(FileData):\n    @property\n    def extension(self):\n        return 'txt'\n\n    def save(self):\n        self.path.write_text(self.value)\n\n    def load(self, data_type):\n        self._value = self.path.read_text()\n        return self._value\n\n\nclass GeneratedDataLazy(FileData):"))

ben('ben-json-save-local-tmp', ['C05', 'C06', 'C12'], ('data.py', "        with self.tmp_path.open('w') as f:\n            json.dump(self.value, f, indent=2, sort_keys=True)\n        self._publish()",
                                         "        tmp = self.tmp_path\n        with tmp.open('w') as f:\n            json.dump(self.value, f, indent=2, sort_keys=True)\n        self._publish()"))
ben('ben-publish-path-replace', ['C05', 'C06'], ('data.py', "        os.replace(self.tmp_path, self.path)", "        self.tmp_path.replace(self.path)"))
ben('ben-handler-reorder', ['C05', 'C18', 'C04'], ('task.py', "                if self._data:\n                    self._data.on_run_error()\n                    self._data = None\n",
                                     "                if self._data:\n                    failed = self._data\n                    self._data = None\n                    failed.on_run_error()\n"))
ben('ben-handler-bare-raise', ['C05', 'C18'], ('task.py', "                    self._data = None\n                raise error\n", "                    self._data = None\n                raise\n"))
ben('ben-save-extra-log', ['C05'], ('task.py', "        if self._data.is_persisting:\n            self._data.save()", "        if self._data.is_persisting:\n            self.logger.debug('saving')\n            self._data.save()"))

# ---------------------------------------------------------------------------------------------- C18
mut('c18-prefix-handler-leak', 'C18', 'R18.1',
    ('task.py', "                try:\n                    self.logger.info(f'{self} - run started with params: {self.params.repr}')\n                    run_result = self.run(*self._get_run_arguments())\n                    self.logger.info(f'{self} - run ended')\n                finally:\n                    if data_log_handler is not None:\n                        self.logger.removeHandler(data_log_handler)\n                        data_log_handler.close()\n",
     "                self.logger.info(f'{self} - run started with params: {self.params.repr}')\n                run_result = self.run(*self._get_run_arguments())\n                self.logger.info(f'{self} - run ended')\n                self.logger.removeHandler(data_log_handler)\n"))
mut('c18-remove-only-on-error', 'C18', 'R18.1',
    ('task.py', "                finally:\n                    if data_log_handler is not None:\n                        self.logger.removeHandler(data_log_handler)\n                        data_log_handler.close()\n",
     "                except Exception:\n                    if data_log_handler is not None:\n                        self.logger.removeHandler(data_log_handler)\n                        data_log_handler.close()\n                    raise\n"))
mut('c18-append-mode', 'C18', 'R18.3', ('data.py', "return logging.FileHandler(self.log_path, mode='w')", "return logging.FileHandler(self.log_path)"))
mut('c18-handler-on-wrong-path', 'C18', 'R18.3', ('data.py', "return logging.FileHandler(self.log_path, mode='w')", "return logging.FileHandler(self._base_dir / 'task.log', mode='w')"))
mut('c18-finish-in-finally', 'C18', 'R18.2', ('task.py', "                raise error\n            self._finish_run_info()\n", "                raise error\n            finally:\n                self._finish_run_info()\n"))
mut('c18-finish-before-save', 'C18', 'R18.2', ('task.py', "                self._process_run_result(run_result)\n            except BaseException as error:", "                self._finish_run_info()\n                self._process_run_result(run_result)\n            except BaseException as error:"),
    ('task.py', "                raise error\n            self._finish_run_info()\n", "                raise error\n"))
mut('c18-params-filtered', 'C18', 'R18.4', ("task.py", "'parameters': {p.name: p.value_repr() for p in self.parameters.values()},", "'parameters': {p.name: p.value_repr() for p in self.parameters.values() if not p.ignore_persistence},"))
mut('c18-no-input-keys', 'C18', 'R18.4', ("task.py", "            if isinstance(self._config, TaskParameterConfig):\n                self._run_info['input_tasks'] = self._config.input_tasks\n", ""))
mut('c18-log-list-shared', 'C18', 'R18.4', ("task.py", "            'log': [],\n        }", "            'log': getattr(self, '_run_info', {}).get('log', []),\n        }"))

ben('ben-c18-handler-context', ['C18', 'C05'],
    ('task.py', "                finally:\n                    if data_log_handler is not None:\n                        self.logger.removeHandler(data_log_handler)\n                        data_log_handler.close()\n",
     "                finally:\n                    if data_log_handler:\n                        self.logger.removeHandler(data_log_handler)\n                        data_log_handler.close()\n"))
ben('ben-c18-mode-positional', ['C18'], ('data.py', "return logging.FileHandler(self.log_path, mode='w')", "handler = logging.FileHandler(self.log_path, 'w')\n        return handler"))

# ---------------------------------------------------------------------------------------------- C15
_C15_GET_NEW = "        with lock:\n            if filepath.exists():\n                try:\n                    return self.load_value(filepath, key)\n                except CacheException as error:\n                    raise error\n                except Exception as error:\n                    logger.warning(f'Cannot load cached value, {key=}, {filepath=}.')\n                    logger.exception(error)\n        return NO_VALUE\n"
_C15_GET_OLD = "        with lock:\n            filepath_exists = filepath.exists()\n        if filepath_exists:\n            try:\n                return self.load_value(filepath, key)\n            except CacheException as error:\n                raise error\n            except Exception as error:\n                logger.warning(f'Cannot load cached value, {key=}, {filepath=}.')\n                logger.exception(error)\n        return NO_VALUE\n"
mut('c15-prefix-get-window', 'C15', 'R15.2', ('cache.py', _C15_GET_NEW, _C15_GET_OLD))
mut('c15-save-outside-lock', 'C15', 'R15.1', ('cache.py', "            value = computer()\n            self.save_value(filepath, key, value)\n        return value", "            value = computer()\n        self.save_value(filepath, key, value)\n        return value"))
mut('c15-get-other-lockfile', 'C15', 'R15.3', ('cache.py', "    def get(self, key):\n        filepath = self.filepath(key)\n        lock = FileLock(str(filepath) + '.lock', mode=0o664)", "    def get(self, key):\n        filepath = self.filepath(key)\n        lock = FileLock(str(filepath) + '.rlock', mode=0o664)"))
mut('c15-lock-per-directory-vs-file', 'C15', 'R15.3', ('cache.py', "    def get_or_compute(self, key, computer, force=False):\n        \"\"\"\"\"\"\n        filepath = self.filepath(key)\n        lock = FileLock(str(filepath) + '.lock', mode=0o664)",
                                                        "    def get_or_compute(self, key, computer, force=False):\n        \"\"\"\"\"\"\n        filepath = self.filepath(key)\n        lock = FileLock(str(filepath.parent) + '.lock', mode=0o664)"))

ben('ben-c15-rename-lock', ['C15', 'C14'], ('cache.py', "    def get(self, key):\n        filepath = self.filepath(key)\n        lock = FileLock(str(filepath) + '.lock', mode=0o664)\n        with lock:", "    def get(self, key):\n        filepath = self.filepath(key)\n        key_lock = FileLock(str(filepath) + '.lock', mode=0o664)\n        with key_lock:"))
ben('ben-c15-inline-lock', ['C15', 'C14'], ('cache.py', "    def get(self, key):\n        filepath = self.filepath(key)\n        lock = FileLock(str(filepath) + '.lock', mode=0o664)\n        with lock:", "    def get(self, key):\n        filepath = self.filepath(key)\n        with FileLock(f'{filepath}.lock', mode=0o664):"))

# ---------------------------------------------------------------------------------------------- C14
mut('c14-save-before-compute', 'C14', 'R14.1', ('cache.py', "            value = computer()\n            self.save_value(filepath, key, value)\n        return value", "            self.save_value(filepath, key, None)\n            value = computer()\n            self.save_value(filepath, key, value)\n        return value"))
mut('c14-save-in-finally', 'C14', 'R14.1', ('cache.py', "            value = computer()\n            self.save_value(filepath, key, value)\n        return value", "            value = None\n            try:\n                value = computer()\n            finally:\n                self.save_value(filepath, key, value)\n        return value"))
mut('c14-cacheexception-swallowed', 'C14', 'R14.2', ('cache.py', "            if filepath.exists() and not force:\n                try:\n                    return self.load_value(filepath, key)\n                except CacheException as error:\n                    raise error\n                except Exception as error:",
                                                     "            if filepath.exists() and not force:\n                try:\n                    return self.load_value(filepath, key)\n                except Exception as error:"))
mut('c14-generic-returns-none', 'C14', 'R14.2', ('cache.py', "            if filepath.exists():\n                try:\n                    return self.load_value(filepath, key)\n                except CacheException as error:\n                    raise error\n                except Exception as error:\n                    logger.warning(f'Cannot load cached value, {key=}, {filepath=}.')\n                    logger.exception(error)",
                                                 "            if filepath.exists():\n                try:\n                    return self.load_value(filepath, key)\n                except CacheException as error:\n                    raise error\n                except Exception as error:\n                    logger.warning(f'Cannot load cached value, {key=}, {filepath=}.')\n                    logger.exception(error)\n                    return None"))
mut('c14-generic-before-specific', 'C14', 'R14.2', ('cache.py', "            if filepath.exists() and not force:\n                try:\n                    return self.load_value(filepath, key)\n                except CacheException as error:\n                    raise error\n                except Exception as error:\n                    logger.warning(f'Cannot load cached value, {key=}, {filepath=}.')\n                    logger.exception(error)\n",
                                                    "            if filepath.exists() and not force:\n                try:\n                    return self.load_value(filepath, key)\n                except Exception as error:\n                    logger.warning(f'Cannot load cached value, {key=}, {filepath=}.')\n                    logger.exception(error)\n                except CacheException as error:\n                    raise error\n"))
mut('c14-no-key-check', 'C14', 'R14.3', ('cache.py', "            if key != loaded['key']:\n                raise CacheException(\n                    f'The expected cache key {key} does not match to the retrieved one {loaded[\"key\"]}'\n                )\n", ""))
mut('c14-key-check-prefix', 'C14', 'R14.3', ('cache.py', "            if key != loaded['key']:", "            if not loaded['key'].startswith(key[:8]):"))
mut('c14-digest-truncated', 'C14', 'R14.4', ('cache.py', "        return directory / f'{key_hash[5:]}.{self.extension}'", "        return directory / f'{key_hash[5:16]}.{self.extension}'"))
mut('c14-subcache-same-dir', 'C14', 'R14.4', ('cache.py', "        return self.__class__(self.directory / directory)", "        return self.__class__(self.directory)"))
mut('c14-force-ignored', 'C14', 'R14.5', ('cache.py', "            if filepath.exists() and not force:", "            if filepath.exists():"))
mut('c14-mem-subcache-shared', 'C14', 'R14.4', ('cache.py', "        if name not in self._subcaches[get_ident()]:\n            self._subcaches[get_ident()][name] = InMemoryCache()\n        return self._subcaches[get_ident()][name]", "        return self"))

ben('ben-c14-value-rename', ['C14', 'C15'], ('cache.py', "            value = computer()\n            self.save_value(filepath, key, value)\n        return value", "            computed = computer()\n            self.save_value(filepath, key, computed)\n        return computed"))
ben('ben-c14-keycheck-eq', ['C14'], ('cache.py', "            if key != loaded['key']:\n                raise CacheException(\n                    f'The expected cache key {key} does not match to the retrieved one {loaded[\"key\"]}'\n                )\n",
                                      "            if not (loaded['key'] == key):\n                raise CacheException(\n                    f'The expected cache key {key} does not match to the retrieved one {loaded[\"key\"]}'\n                )\n"))

# ---------------------------------------------------------------------------------------------- C07
mut('c07-forced-ignored', 'C07', 'R07.1', ('task.py', "self._data.exists() and not self._forced:", "self._data.exists():"))
mut('c07-force-keeps-memory', 'C07', 'R07.2', ('task.py', "        self._forced = True\n        self._data = None\n        return self", "        self._forced = True\n        return self"))
mut('c07-force-flag-only-with-delete', 'C07', 'R07.2', ('task.py', "            if data.exists():\n                data.delete()\n\n        self._forced = True", "            if data.exists():\n                data.delete()\n                self._forced = True\n            else:\n                return self\n        self._forced = True"))
mut('c07-delete-unconditional', 'C07', 'R07.2', ('task.py', "        if delete_data:\n            data = self._data_without_value", "        if True:\n            data = self._data_without_value"))
mut('c07-ancestors', 'C07', 'R07.3', ('chain.py', "        descendants = nx.descendants(self.graph, task)", "        descendants = nx.ancestors(self.graph, task)"))
mut('c07-edge-reversed', 'C07', 'R07.3', ('chain.py', "                G.add_edge(input_task, task)", "                G.add_edge(task, input_task)"))
mut('c07-required-descendants', 'C07', 'R07.3', ('chain.py', "        ancestors = nx.ancestors(self.graph, task)", "        ancestors = nx.descendants(self.graph, task)"))
mut('c07-has-path-swapped', 'C07', 'R07.3', ('chain.py', "return nx.has_path(self.graph, dependency_task, task)", "return nx.has_path(self.graph, task, dependency_task)"))
mut('c07-exclude-self', 'C07', 'R07.4', ('chain.py', "forced_tasks |= self.dependent_tasks(task, include_self=True)", "forced_tasks |= self.dependent_tasks(task)\n            forced_tasks.add(task) if isinstance(task, Task) else None"))
mut('c07-delete-flag-dropped', 'C07', 'R07.4', ('chain.py', "            task.force(delete_data=delete_data)", "            task.force()"))
mut('c07-recompute-named-only', 'C07', 'R07.4', ('chain.py', "            for task in list(forced_tasks)[::-1]:\n                _ = task.value", "            for task in tasks:\n                _ = self.get_task(task).value"))
mut('c07-only-last-closure', 'C07', 'R07.4', ('chain.py', "            forced_tasks |= self.dependent_tasks(task, include_self=True)", "            forced_tasks = self.dependent_tasks(task, include_self=True)"))
mut('c07-force-skips-in-memory', 'C07', 'R07.4', ('chain.py', "        for task in forced_tasks:\n            task.force(delete_data=delete_data)", "        for task in forced_tasks:\n            if task.data_path is not None:\n                task.force(delete_data=delete_data)"))
mut('c07-delete-dir-of-task', 'C07', 'R07.5', ('data.py', "    def delete(self):\n        self.path.unlink()", "    def delete(self):\n        shutil.rmtree(self._base_dir)"))
mut('c07-continues-delete-keeps-result', 'C07', 'R07.5', ('data.py', "    def delete(self):\n        shutil.rmtree(str(self.path))\n        shutil.rmtree(str(self.tmp_path))", "    def delete(self):\n        shutil.rmtree(str(self.tmp_path))"))
mut('c07-multichain-first-only', 'C07', 'R07.4', ('chain.py', "        for chain in self.chains.values():\n            chain.force(tasks, **kwargs)", "        for chain in self.chains.values():\n            chain.force(tasks)"))

ben('ben-c07-update-idiom', ['C07', 'C04'], ('chain.py', "            forced_tasks |= self.dependent_tasks(task, include_self=True)", "            forced_tasks.update(self.dependent_tasks(task, include_self=True))"))
ben('ben-c07-sorted-recompute', ['C07', 'C04'], ('chain.py', "            for task in list(forced_tasks)[::-1]:", "            for task in list(forced_tasks):"))
ben('ben-c07-force-order', ['C07'], ('task.py', "        self._forced = True\n        self._data = None\n        return self", "        self._data = None\n        self._forced = True\n        return self"))

# ---------------------------------------------------------------------------------------------- C06
mut('c06-json-load-stdlib', 'C06', 'R06.1', ('data.py', "        self._value = json.load(self.path.open())\n        return self._value\n\n\nclass NumpyData", "        import pickle as _p\n        self._value = _p.load(self.path.open('rb'))\n        return self._value\n\n\nclass NumpyData"))
mut('c06-load-reads-tmp', 'C06', 'R06.1', ('data.py', "        self._value = np.load(str(self.path))\n        return self._value\n\n\nclass ListOfNumpyData", "        self._value = np.load(str(self.tmp_path))\n        return self._value\n\n\nclass ListOfNumpyData"))
mut('c06-figure-text-mode', 'C06', 'R06.1', ('data.py', "        self._value = pickle.load(self.path.open('rb'))", "        self._value = pickle.load(self.path.open('r'))"))
mut('c06-jsoncache-encoding', 'C06', 'R06.1', ('cache.py', "        with filepath.open('r', encoding='utf-8') as file:", "        with filepath.open('r', encoding='latin-1') as file:"))
mut('c06-jsonl-reader-stdjson', 'C06', 'R06.1', ('utils/io.py', "            yield json.loads(row.strip())", "            yield orig_json.loads(row.strip())"))
mut('c06-jsonl-no-newline', 'C06', 'R06.1', ('utils/io.py', "            f.write(json.dumps(j) + '\\n')", "            f.write(json.dumps(j))"))
mut('c06-load-deletes', 'C06', 'R06.2', ('data.py', "        self._value = list(iter_json_file(self.path))\n        return self._value", "        self._value = list(iter_json_file(self.path))\n        self.path.unlink()\n        return self._value"))
mut('c06-exists-creates', 'C06', 'R06.2', ('data.py', "class FileData(Data, abc.ABC):", "class FileData(Data, abc.ABC):\n    def load_run_info(self):\n        self.run_info_path.touch()\n        return super().load_run_info()\n"))
mut('c06-value-truthiness', 'C06', 'R06.3', ('data.py', "        if not hasattr(self, '_value') or self._value is None:", "        if not hasattr(self, '_value') or not self._value:"))
mut('c06-novalue-eq', 'C06', 'R06.3', ('cache.py', "            if store_cache_value is NO_VALUE:\n                computer", "            if store_cache_value == NO_VALUE:\n                computer"))
mut('c06-lexicographic-sort', 'C06', 'R06.4', ('data.py', "        for file in sorted(self.path.glob('*.npy'), key=lambda f: int(f.name.split('.')[0])):", "        for file in sorted(self.path.glob('*.npy')):"))
mut('c06-unsorted-glob', 'C06', 'R06.4', ('data.py', "        for file in sorted(self.path.glob('*.npy'), key=lambda f: int(f.name.split('.')[0])):", "        for file in self.path.glob('*.npy'):"))
mut('c06-generated-not-list', 'C06', 'R06.4', ('data.py', "        self._value = list(iter_json_file(self.path))\n        return self._value", "        self._value = iter_json_file(self.path)\n        return self._value"))

ben('ben-c06-load-local', ['C06'], ('data.py', "        self._value = np.load(str(self.path))\n        return self._value\n\n\nclass ListOfNumpyData", "        value = np.load(str(self.path))\n        self._value = value\n        return value\n\n\nclass ListOfNumpyData"))
ben('ben-c06-json-with', ['C06'], ('data.py', "        self._value = json.load(self.path.open())\n        return self._value\n\n\nclass NumpyData", "        with self.path.open() as f:\n            self._value = json.load(f)\n        return self._value\n\n\nclass NumpyData"))

# ---------------------------------------------------------------------------------------------- C20
mut('c20-prefix-part-dropped', 'C20', 'R20.3', ('utils/migration.py', "context=config.context, part=config._part\n", "context=config.context\n"))
mut('c20-move-instead-of-copy', 'C20', 'R20', ('utils/migration.py', "                copyfile(old_task.data_path, new_task.data_path)", "                import shutil\n                shutil.move(old_task.data_path, new_task.data_path)"))
mut('c20-dry-ignored', 'C20', 'R20.2', ('utils/migration.py', "        if dry:\n            print('    to copy')\n        else:", "        if False:\n            print('    to copy')\n        else:"))
mut('c20-copy-reversed', 'C20', 'R20', ('utils/migration.py', "                copytree(old_task.data_path, new_task.data_path)", "                copytree(new_task.data_path, old_task.data_path)"))
mut('c20-overwrite-existing', 'C20', 'R20.2', ('utils/migration.py', "            print(f'    target already exists')\n            continue", "            print(f'    target already exists')"))
mut('c20-context-dropped', 'C20', 'R20.3', ('utils/migration.py', "global_vars=config.global_vars, context=config.context, part=config._part", "global_vars=config.global_vars, part=config._part"))
mut('c20-pair-by-slugname', 'C20', 'R20.4', ('utils/migration.py', "    old_chain = dict(config.chain(parameter_mode=False).tasks)", "    old_chain = {t.slugname: t for t in config.chain(parameter_mode=False).tasks.values()}"))
mut('c20-has-data-via-value', 'C20', 'R20.4', ('utils/migration.py', "        if not old_task.has_data:", "        if old_task.value is None:"))
mut('c20-marker-in-source', 'C20', 'R20.1', ('utils/migration.py', "            print('    copied')", "            print('    copied')\n            (old_task.data_path.parent / 'MIGRATED').touch()"))
mut('c20-run-info-copy-from-new', 'C20', 'R20', ('utils/migration.py', "            print('    copied')", "            copyfile(new_task._data_without_value.run_info_path, old_task._data_without_value.run_info_path)\n            print('    copied')"))

ben('ben-c20-locals', ['C20'], ('utils/migration.py', "                copyfile(old_task.data_path, new_task.data_path)", "                source, destination = old_task.data_path, new_task.data_path\n                copyfile(source, destination)"))
ben('ben-c20-dry-flip', ['C20'], ('utils/migration.py', "        if dry:\n            print('    to copy')\n        else:\n            print('    copying')", "        if dry:\n            print('    to copy')\n            continue\n        if True:\n            print('    copying')"))

# ---------------------------------------------------------------------------------------------- C12
_KEY_RET = "        return sha256(f'{parameter_repr}$$${input_tasks_repr}'.encode()).hexdigest()[:32]"
mut('c12-param-separator', 'C12', 'C12', ('parameter.py', "            return '###'.join(reprs)", "            return '##'.join(reprs)"))
mut('c12-section-separator', 'C12', 'C12', ('chain.py', _KEY_RET, "        return sha256(f'{parameter_repr}$${input_tasks_repr}'.encode()).hexdigest()[:32]"))
mut('c12-digest-truncation', 'C12', 'C12', ('chain.py', _KEY_RET, "        return sha256(f'{parameter_repr}$$${input_tasks_repr}'.encode()).hexdigest()[:40]"))
mut('c12-digest-function', 'C12', 'C12', ('chain.py', _KEY_RET, "        import hashlib\n        return hashlib.sha1(f'{parameter_repr}$$${input_tasks_repr}'.encode()).hexdigest()[:32]"))
mut('c12-inputs-unsorted', 'C12', 'C12', ('chain.py', "for n, it in sorted(self.input_tasks.items()))\n        return sha256", "for n, it in self.input_tasks.items())\n        return sha256"))
mut('c12-input-binding-char', 'C12', 'C12', ('chain.py', "            return f'{_name}={_task}'", "            return f'{_name}:{_task}'"))
mut('c12-namespace-strip-off-by-one', 'C12', 'C12', ('chain.py', "                _name = _name[len(outer_namespace) + 2 :]", "                _name = _name[len(outer_namespace) + 1 :]"))
mut('c12-json-extension', 'C12', 'C12', ('data.py', "    DATA_TYPES = [str, int, float, bool, dict, list]\n\n    @property\n    def extension(self) -> Union[str, None]:\n        return 'json'", "    DATA_TYPES = [str, int, float, bool, dict, list]\n\n    @property\n    def extension(self) -> Union[str, None]:\n        return 'jsn'"))
mut('c12-group-separator', 'C12', 'C12', ('task.py', "        path = self._config.base_dir / self.slugname.replace(':', '/')", "        path = self._config.base_dir / self.slugname.replace(':', '__')"))
mut('c12-run-info-name', 'C12', 'C12', ('data.py', "        return path.parent / f'{path.stem}.run_info.yaml'", "        return path.parent / f'{path.stem}.runinfo.yaml'"))
mut('c12-log-beside-dir', 'C12', 'C12', ('data.py', "        return path.parent / f'{path.stem}.log'", "        return path / f'{path.stem}.log'"))
mut('c12-dict-repr-colon', 'C12', 'C12', ('utils/clazz.py', "                f\"{repr_from_instantiation(key)}: {repr_from_instantiation(val)}\" for key, val in sorted(obj.items())", "                f\"{repr_from_instantiation(key)}:{repr_from_instantiation(val)}\" for key, val in sorted(obj.items())"))
mut('c12-name-value-binding', 'C12', 'C12', ('parameter.py', "        return f'{self.name}={self.value_repr()}'", "        return f'{self.name}: {self.value_repr()}'"))
mut('c12-part-separator', 'C12', 'C12', ('config.py', "            return f'{self._name}#{self._part}'", "            return f'{self._name}@{self._part}'"))
mut('c12-slug-keeps-task-suffix', 'C12', 'C12', ('task.py', "            if name.endswith('_task'):\n                name = name[:-5]\n", ""))
mut('c12-file-name-joiner', 'C12', 'C12', ('data.py', "        return self._base_dir / f'{self._name}.{self.extension}'", "        return self._base_dir / f'{self._name}_{self.extension}'"))
mut('c12-handled-types', 'C12', 'C12', ('data.py', "    DATA_TYPES = [str, int, float, bool, dict, list]", "    DATA_TYPES = [str, int, float, bool, dict]"))
mut('c12-auto-object-arg-sep', 'C12', 'C12', ('parameter.py', "        args_repr = ', '.join(f'{k}={repr(v)}' for k, v in sorted(args.items()))", "        args_repr = ','.join(f'{k}={repr(v)}' for k, v in sorted(args.items()))"))
mut('c12-path-repr-of-value', 'C12', 'C12', ('parameter.py', "            return repr(self._value)\n        return repr_from_instantiation(self.value)", "            return repr(self.value)\n        return repr_from_instantiation(self.value)"))
mut('c12-key-sorted-by-repr', 'C12', 'C12', ('parameter.py', "        if reprs:\n            return '###'.join(reprs)", "        if reprs:\n            return '###'.join(sorted(reprs))"))
mut('c12-name-mode-fullname', 'C12', 'C12', ('config.py', "        \"\"\"Used for creating filename in task data persistence, should uniquely define config\"\"\"\n        return self.name", "        \"\"\"Used for creating filename in task data persistence, should uniquely define config\"\"\"\n        return self.fullname"))
mut('c12-module-group-full', 'C12', 'C12', ('task.py', "        return inspect.getmodule(cls).__name__.split('.')[-1]", "        return inspect.getmodule(cls).__name__.replace('.', ':')"))

ben('ben-c12-key-concat', ['C12', 'C01', 'C02', 'C03'], ('chain.py', _KEY_RET, "        text = str(parameter_repr) + '$$$' + input_tasks_repr\n        return sha256(text.encode('utf-8')).hexdigest()[0:32]"))
ben('ben-c12-key-format', ['C12', 'C01', 'C02', 'C03'], ('chain.py', _KEY_RET, "        digest = sha256('{}$$${}'.format(parameter_repr, input_tasks_repr).encode())\n        return digest.hexdigest()[:32]"))
ben('ben-c12-key-join-list', ['C12', 'C02', 'C03'], ('chain.py', _KEY_RET, "        return sha256('$$$'.join([str(parameter_repr), input_tasks_repr]).encode()).hexdigest()[:32]"))
ben('ben-c12-inputs-loop', ['C12', 'C01', 'C02', 'C03'], ('chain.py', "        input_tasks_repr = '###'.join(_get_input_task_repr(n, it) for n, it in sorted(self.input_tasks.items()))",
    "        pieces = []\n        for input_name, input_key in sorted(self.input_tasks.items()):\n            pieces.append(_get_input_task_repr(input_name, input_key))\n        input_tasks_repr = '###'.join(pieces)"))
ben('ben-c12-registry-comprehension', ['C12', 'C01', 'C02', 'C03'], ('parameter.py', "        reprs = []\n        for name, parameter in sorted(self._parameters.items()):\n            repr = parameter.repr\n            if repr is not None:\n                reprs.append(repr)\n",
    "        reprs = [parameter.repr for name, parameter in sorted(self._parameters.items()) if parameter.repr is not None]\n"))
ben('ben-c12-helper-inlined', ['C12', 'C02', 'C03'], ('chain.py', "        parameter_repr = task.parameters.repr\n", "        registry = task.parameters\n        parameter_repr = registry.repr\n"))
ben('ben-c12-filepath-flip', ['C12', 'C05', 'C06'], ('data.py', "        if self.extension is None:\n            return self._base_dir / self._name\n        return self._base_dir / f'{self._name}.{self.extension}'\n\n    @property\n    def extension(self)",
    "        if self.extension is not None:\n            filename = self._name + '.' + self.extension\n            return self._base_dir / filename\n        return self._base_dir / self._name\n\n    @property\n    def extension(self)"))
ben('ben-c12-runinfo-percent', ['C12'], ('data.py', "        return path.parent / f'{path.stem}.run_info.yaml'", "        return path.parent / ('%s.run_info.yaml' % path.stem)"))
ben('ben-c12-param-repr-concat', ['C12', 'C02', 'C03'], ('parameter.py', "        return f'{self.name}={self.value_repr()}'", "        value_text = self.value_repr()\n        return self.name + '=' + value_text"))
ben('ben-c12-dict-branch-loop', ['C12', 'C02', 'C03'], ('utils/clazz.py', "        return (\n            '{'\n            + ', '.join(\n                f\"{repr_from_instantiation(key)}: {repr_from_instantiation(val)}\" for key, val in sorted(obj.items())\n            )\n            + '}'\n        )",
    "        items = []\n        for key, val in sorted(obj.items()):\n            items.append(repr_from_instantiation(key) + ': ' + repr_from_instantiation(val))\n        return '{' + ', '.join(items) + '}'"))
ben('ben-c12-slug-local', ['C12'], ('task.py', "        if cls.group:\n            return f'{cls.group}:{name}'\n        return name", "        group = cls.group\n        if not group:\n            return name\n        return group + ':' + name"))

# ---------------------------------------------------------------------------------------------- C02
mut('c02-registry-unsorted', 'C02', 'R02.1', ('parameter.py', "        for name, parameter in sorted(self._parameters.items()):\n            repr = parameter.repr", "        for name, parameter in self._parameters.items():\n            repr = parameter.repr"))
mut('c02-inputs-unsorted', 'C02', 'R02.1', ('chain.py', "for n, it in sorted(self.input_tasks.items()))\n        return sha256", "for n, it in self.input_tasks.items())\n        return sha256"))
mut('c02-dict-value-unsorted', 'C02', 'R02.1', ('utils/clazz.py', "for key, val in sorted(obj.items())\n", "for key, val in obj.items()\n"))
mut('c02-auto-args-unsorted', 'C02', 'R02.1', ('parameter.py', "for k, v in sorted(args.items()))", "for k, v in args.items())"))
mut('c02-dict-iter-keys', 'C02', 'R02.1', ('utils/clazz.py', "                f\"{repr_from_instantiation(key)}: {repr_from_instantiation(val)}\" for key, val in sorted(obj.items())\n", "                f\"{repr_from_instantiation(key)}: {repr_from_instantiation(obj[key])}\" for key in obj\n"))
mut('c02-value-builtin-repr', 'C02', 'R02.2', ('parameter.py', "        return repr_from_instantiation(self.value)", "        return repr(self.value)"))
mut('c02-config-name-in-key', 'C02', 'R02.3', ('chain.py', "        return sha256(f'{parameter_repr}$$${input_tasks_repr}'.encode()).hexdigest()[:32]", "        return sha256(f'{self.original_config.name}{parameter_repr}$$${input_tasks_repr}'.encode()).hexdigest()[:32]"))
mut('c02-namespace-kept', 'C02', 'R02.3', ('chain.py', "                assert _name.startswith(outer_namespace)\n                _name = _name[len(outer_namespace) + 2 :]\n", "                assert _name.startswith(outer_namespace)\n"))
mut('c02-namespace-in-key', 'C02', 'R02.3', ('chain.py', "        return sha256(f'{parameter_repr}$$${input_tasks_repr}'.encode()).hexdigest()[:32]", "        return sha256(f'{self.namespace}|{parameter_repr}$$${input_tasks_repr}'.encode()).hexdigest()[:32]"))
mut('c02-process-hash', 'C02', 'R02.3', ('chain.py', "        return sha256(f'{parameter_repr}$$${input_tasks_repr}'.encode()).hexdigest()[:32]", "        return sha256(f'{hash(parameter_repr)}$$${input_tasks_repr}'.encode()).hexdigest()[:32]"))
mut('c02-ignore-flag-ignored', 'C02', 'R02.4', ('parameter.py', "        if self.ignore_persistence:\n            return None\n\n        if self.dont_persist_default_value", "        if self.dont_persist_default_value"))
mut('c02-default-always-persisted', 'C02', 'R02.4', ('parameter.py', "        if self.dont_persist_default_value and self.value == self.default:\n            return None\n", ""))
mut('c02-none-reprs-kept', 'C02', 'R02.4', ('parameter.py', "            if repr is not None:\n                reprs.append(repr)", "            reprs.append(str(repr))"))
mut('c02-auto-ignored-args-kept', 'C02', 'R02.4', ('parameter.py', "            if arg in ignore_persistence_args:\n                continue\n", ""))
mut('c02-str-branch-first', 'C02', 'R02.5', ('utils/clazz.py', "    if hasattr(obj, 'repr'):\n        if callable(obj.repr):\n            return obj.repr()\n        else:\n            return obj.repr\n    if isinstance(obj, str):\n        return f\"'{obj}'\"\n",
                                             "    if isinstance(obj, str):\n        return f\"'{obj}'\"\n    if hasattr(obj, 'repr'):\n        if callable(obj.repr):\n            return obj.repr()\n        else:\n            return obj.repr\n"))
mut('c02-reprstr-repr-value', 'C02', 'R02.5', ('utils/data.py', "    def __repr__(self):\n        return self.repr", "    def __repr__(self):\n        return repr(str(self))"))
mut('c02-prefix-reprstr-copy', 'C02', 'R02.5', ('utils/data.py', "        s = str.__new__(ReprStr, str(self))\n        s.repr = self.repr\n        return s", "        return ReprStr(str(self), self.repr)"))
mut('c02-apply-passes-substituted', 'C02', None, ('utils/data.py', "            return ReprStr(new_string, string)", "            return ReprStr(new_string, repr(string))"))

ben('ben-c02-sorted-key-first', ['C02', 'C12', 'C03'], ('chain.py', "for n, it in sorted(self.input_tasks.items()))\n        return sha256", "for n, it in sorted(self.input_tasks.items(), key=lambda kv: kv[0]))\n        return sha256"))
ben('ben-c02-flags-nested', ['C02', 'C12'], ('parameter.py', "        if self.dont_persist_default_value and self.value == self.default:\n            return None\n", "        if self.dont_persist_default_value:\n            if self.value == self.default:\n                return None\n"))

# ---------------------------------------------------------------------------------------------- C03
mut('c03-digest-16', 'C03', 'R03.3', ('chain.py', ".encode()).hexdigest()[:32]", ".encode()).hexdigest()[:16]"))
mut('c03-digest-md5', 'C03', 'R03.3', ('chain.py', "        return sha256(f'{parameter_repr}$$${input_tasks_repr}'.encode()).hexdigest()[:32]", "        import hashlib\n        return hashlib.md5(f'{parameter_repr}$$${input_tasks_repr}'.encode()).hexdigest()[:32]"))
mut('c03-no-name-binding', 'C03', 'R03.5', ('parameter.py', "        return f'{self.name}={self.value_repr()}'", "        return f'{self.value_repr()}'"))
mut('c03-inputs-without-names', 'C03', 'R03.5', ('chain.py', "            return f'{_name}={_task}'", "            return f'{_task}'"))
mut('c03-sections-concatenated', 'C03', 'R03.5', ('chain.py', "        return sha256(f'{parameter_repr}$$${input_tasks_repr}'.encode()).hexdigest()[:32]", "        return sha256(f'{parameter_repr}{input_tasks_repr}'.encode()).hexdigest()[:32]"))
mut('c03-inputs-dropped-from-hash', 'C03', 'R03.5', ('chain.py', "        return sha256(f'{parameter_repr}$$${input_tasks_repr}'.encode()).hexdigest()[:32]", "        return sha256(f'{parameter_repr}$$$'.encode()).hexdigest()[:32]"))
mut('c03-scalar-str', 'C03', 'R03.4', ('utils/clazz.py', "        return obj._taskchain_instantiate_repr\n    return repr(obj)", "        return obj._taskchain_instantiate_repr\n    return str(obj)"))
mut('c03-list-prefix-only', 'C03', 'R03.2', ('utils/clazz.py', "        return '[' + ', '.join(repr_from_instantiation(val) for val in obj) + ']'", "        return '[' + ', '.join(repr_from_instantiation(val) for val in obj[:10]) + ']'"))
mut('c03-dict-keys-only', 'C03', 'R03.2', ('utils/clazz.py', "                f\"{repr_from_instantiation(key)}: {repr_from_instantiation(val)}\" for key, val in sorted(obj.items())\n", "                f\"{repr_from_instantiation(key)}\" for key, val in sorted(obj.items())\n"))
mut('c03-dict-branch-removed', 'C03', 'R03.2', ('utils/clazz.py', "    if isinstance(obj, dict):\n        return (\n            '{'\n            + ', '.join(\n                f\"{repr_from_instantiation(key)}: {repr_from_instantiation(val)}\" for key, val in sorted(obj.items())\n            )\n            + '}'\n        )\n", ""))
mut('c03-list-filter-falsy', 'C03', 'R03.2', ('utils/clazz.py', "        return '[' + ', '.join(repr_from_instantiation(val) for val in obj) + ']'", "        return '[' + ', '.join(repr_from_instantiation(val) for val in obj if val) + ']'"))
mut('c03-new-raw-splice', 'C03', 'R03.1', ('parameter.py', "        return repr_from_instantiation(self.value)", "        if isinstance(self.value, str):\n            return '\"' + self.value + '\"'\n        return repr_from_instantiation(self.value)"))
mut('c03-auto-repr-raw-values', 'C03', 'R03.1', ('parameter.py', "        args_repr = ', '.join(f'{k}={repr(v)}' for k, v in sorted(args.items()))", "        args_repr = ', '.join(f'{k}={v}' for k, v in sorted(args.items()))"))
mut('c03-value-repr-bypass', 'C03', 'R03.2', ('parameter.py', "        return repr_from_instantiation(self.value)", "        return str(type(self.value).__name__)"))

# ---------------------------------------------------------------------------------------------- C01
mut('c01-load-without-exists', 'C01', 'R01.1', ('task.py', "if self._data and self._data.is_persisting and self._data.exists() and not self._forced:", "if self._data and self._data.is_persisting and not self._forced:"))
mut('c01-forced-ignored', 'C01', 'R01.1', ('task.py', "self._data.exists() and not self._forced:", "self._data.exists():"))
mut('c01-prefix-first-pass-sharing', 'C01', 'R01.6', ('chain.py', "task_registry=None if self._parameter_mode else self._task_registry", "task_registry={} if self._parameter_mode else self._task_registry"))
mut('c01-first-pass-shared-registry', 'C01', 'R01.6', ('chain.py', "task_registry=None if self._parameter_mode else self._task_registry", "task_registry=self._task_registry"))
mut('c01-key-params-only', 'C01', 'R01.2', ('chain.py', "        return sha256(f'{parameter_repr}$$${input_tasks_repr}'.encode()).hexdigest()[:32]", "        return sha256(f'{parameter_repr}$$$'.encode()).hexdigest()[:32]"))
mut('c01-key-inputs-only', 'C01', 'R01.2', ('chain.py', "        return sha256(f'{parameter_repr}$$${input_tasks_repr}'.encode()).hexdigest()[:32]", "        return sha256(f'$$${input_tasks_repr}'.encode()).hexdigest()[:32]"))
mut('c01-input-keys-empty', 'C01', 'R01.2', ('chain.py', "        self.input_tasks = {\n            name: task.get_config().get_name_for_persistence(task)\n            for name, task in input_tasks.items()\n            if isinstance(task, Task)\n        }", "        self.input_tasks = {}"))
mut('c01-input-keys-are-names', 'C01', 'R01.2', ('chain.py', "            name: task.get_config().get_name_for_persistence(task)\n", "            name: task.slugname\n"))
mut('c01-first-pass-inputs', 'C01', 'R01.2', ('chain.py', "            input_tasks = {n: _get_task(n, t) for n, t in _task.input_tasks.items() if isinstance(t, Task)}", "            input_tasks = {n: t for n, t in _task.input_tasks.items() if isinstance(t, Task)}\n            for n, t in input_tasks.items():\n                _get_task(n, t)"))
mut('c01-first-input-only', 'C01', 'R01.2', ('chain.py', "        input_tasks_repr = '###'.join(_get_input_task_repr(n, it) for n, it in sorted(self.input_tasks.items()))", "        input_tasks_repr = '###'.join(_get_input_task_repr(n, it) for n, it in sorted(self.input_tasks.items())[:1])"))
mut('c01-registry-skips-underscore', 'C01', 'R01.2', ('parameter.py', "            repr = parameter.repr\n            if repr is not None:", "            repr = parameter.repr\n            if repr is not None and not name.startswith('_'):"))
mut('c01-registry-key-slug-only', 'C01', 'R01.3', ('chain.py', "            key = task.slugname, task.name_for_persistence", "            key = task.slugname, task.fullname"))
mut('c01-param-by-name-not-config-name', 'C01', 'R01.4', ('parameter.py', "        if self.name_in_config in config:\n            value = config[self.name_in_config]", "        if self.name_in_config in config:\n            value = config[self.name]"))
mut('c01-tpc-copies-by-name', 'C01', 'R01.4', ('chain.py', "                self._data[parameter.name_in_config] = original_config[parameter.name_in_config]", "                self._data[parameter.name_in_config] = original_config.get(parameter.name)"))
mut('c01-run-args-positional', 'C01', 'R01.5', ('task.py', "            parameter_arg = self.parameters[arg] if arg in self.parameters else NO_VALUE", "            parameter_arg = list(self.parameters.values())[len(args)].value if arg in self.parameters else NO_VALUE"))
mut('c01-no-deepcopy', 'C01', 'R01.7', ('task.py', "            parameters = [p for p in deepcopy(parameters) if isinstance(p, Parameter)]", "            parameters = [p for p in parameters if isinstance(p, Parameter)]"))
mut('c01-set-values-base-config', 'C01', 'R01.4', ('task.py', "        self.parameters.set_values(self._config)", "        self.parameters.set_values(self._config.get_original_config())"))

ben('ben-c01-guard-nested', ['C01', 'C07', 'C04'], ('task.py', "        if self._data and self._data.is_persisting and self._data.exists() and not self._forced:\n            self._data.load(self.data_type)\n        else:",
                                              "        can_load = self._data and self._data.is_persisting and not self._forced\n        if can_load and self._data.exists():\n            self._data.load(self.data_type)\n        else:"))
ben('ben-c01-deepcopy-first', ['C01'], ('task.py', "            parameters = [p for p in deepcopy(parameters) if isinstance(p, Parameter)]", "            parameters = deepcopy(parameters)\n            parameters = [p for p in parameters if isinstance(p, Parameter)]"))
ben('ben-c01-set-value-get', ['C01', 'C09'], ('parameter.py', "        if self.name_in_config in config:\n            value = config[self.name_in_config]\n        else:\n            if self.required:\n                raise ValueError(f'Value for parameter `{self}` not found in config `{config}`')\n            value = self.default",
                                              "        if self.name_in_config not in config:\n            if self.required:\n                raise ValueError(f'Value for parameter `{self}` not found in config `{config}`')\n            value = self.default\n        else:\n            value = config[self.name_in_config]"))

# ---------------------------------------------------------------------------------------------- C08
mut('c08-prefix-alias-substring', 'C08', 'R08.4', ('chain.py', "                if _task_name != _task.fullname:", "                if _task_name not in _task.fullname:"))
mut('c08-prefix-namespace-startswith', 'C08', 'R08.4', ('chain.py', "and not input_task_name.startswith(f'{task.get_config().namespace}::')", "and not input_task_name.startswith(task.get_config().namespace)"))
mut('c08-no-dag-check', 'C08', 'R08.1', ('chain.py', "        if not nx.is_directed_acyclic_graph(G):\n            raise ValueError('Chain is not acyclic')", "        if not nx.is_directed_acyclic_graph(G):\n            logging.warning('Chain is not acyclic')"))
mut('c08-testchain-no-graph', 'C08', 'R08.1', ('utils/testing.py', "        self._process_dependencies(self.tasks)\n\n        self._build_graph()\n        self._init_objects()", "        self._process_dependencies(self.tasks)\n        self.graph = None\n        self._init_objects()"))
mut('c08-graph-only-in-parameter-mode', 'C08', 'R08.1', ('chain.py', "        else:\n            self.tasks = tasks\n\n        self._build_graph()", "            self._build_graph()\n        else:\n            self.tasks = tasks\n"))
mut('c08-graph-before-recreate', 'C08', 'R08.1', ('chain.py', "        self._process_dependencies(tasks)\n\n        if self._parameter_mode:", "        self._process_dependencies(tasks)\n        self.tasks = tasks\n        self._build_graph()\n\n        if self._parameter_mode:"),
    ('chain.py', "        else:\n            self.tasks = tasks\n\n        self._build_graph()\n        self._init_objects()", "        else:\n            self.tasks = tasks\n\n        self._init_objects()"))
mut('c08-missing-required-skipped', 'C08', 'R08.2', ('chain.py', "                    if not required:\n                        input_tasks[input_task_name] = default\n                        continue\n                    raise ValueError(f'Input task `{input_task_name}` of task `{task}` not found')", "                    input_tasks[input_task_name] = default\n                    continue"))
mut('c08-optional-edges-skipped', 'C08', 'R08.1', ('chain.py', "                if not isinstance(input_task, Task):\n                    continue\n                G.add_edge(input_task, task)", "                if not isinstance(input_task, Task) or input_task.group != task.group:\n                    continue\n                G.add_edge(input_task, task)"))
mut('c08-register-before-exclude', 'C08', 'R08.3', ('chain.py', "[('excluded_tasks', True), ('tasks', False)]", "[('tasks', False), ('excluded_tasks', True)]"))
mut('c08-abstract-not-filtered', 'C08', 'R08.3', ('chain.py', "                            if task_class.meta.get('abstract', False):\n                                continue\n", ""))
mut('c08-private-tasks-skipped', 'C08', 'R08.3', ('chain.py', "                            if task_class.meta.get('abstract', False):\n                                continue\n", "                            if task_class.meta.get('abstract', False):\n                                continue\n                            if task_class.__name__.startswith('_'):\n                                continue\n"))
mut('c08-pattern-any-namespace', 'C08', 'R08.3', ('chain.py', "                    namespace_check = current_task_namespace == task_name.split('::')[:-1] or input_task.startswith(\n                        '~~'\n                    )", "                    namespace_check = True"))
mut('c08-pattern-match-prefix', 'C08', 'R08.3', ('chain.py', "if re.fullmatch(input_task.lstrip('~'), task_name.split('::')[-1]) and namespace_check:", "if re.match(input_task.lstrip('~'), task_name.split('::')[-1]) and namespace_check:"))
mut('c08-resolve-guess-namespace', 'C08', 'R08.6', ('chain.py', "found_name = _find_task_full_name(input_task_name, tasks, determine_namespace=False)", "found_name = _find_task_full_name(input_task_name, tasks)"))
mut('c08-no-namespace-qualification', 'C08', 'R08.6', ('chain.py', "                    input_task_name = (  # add current config to reference\n                        f'{task.get_config().namespace}::{input_task_name}'\n                    )", "                    pass"))
mut('c08-new-textual-test', 'C08', 'R08.4', ('chain.py', "        if isinstance(task, Task):\n            return task\n        if task not in self:", "        if isinstance(task, Task):\n            return task\n        for full, t in self.tasks.items():\n            if full.endswith(t.slugname) and full == task:\n                return t\n        if task not in self:"))

ben('ben-c08-separator-concat', ['C08', 'C10'], ('chain.py', "and not input_task_name.startswith(f'{task.get_config().namespace}::')", "and not input_task_name.startswith(task.get_config().namespace + '::')"))
ben('ben-c08-prepare-local', ['C08', 'C04', 'C13', 'C01'], ('chain.py', "        self._build_graph()\n        self._init_objects()\n\n    def _process_config", "        self._build_graph()\n        logging.debug('graph built')\n        self._init_objects()\n\n    def _process_config"))

# ---------------------------------------------------------------------------------------------- C10
mut('c10-prefix-textual-suffix', 'C10', 'R10.1', ('task.py', "            if all(t == cand or t.endswith(f':{cand}') for t in matching_tasks):", "            if all(t.endswith(cand) for t in matching_tasks):"))
mut('c10-first-match-wins', 'C10', 'R10.2', ('task.py', "    if len(matching_tasks) > 1:\n        raise AmbiguousTaskNameError(f'Ambiguous task name `{task_name}`. Possible matches: {matching_tasks}')\n", ""))
mut('c10-any-instead-of-all', 'C10', 'R10.2', ('task.py', "            if all(t == cand or t.endswith(f':{cand}') for t in matching_tasks):", "            if any(t != cand and t.endswith(f':{cand}') for t in matching_tasks):"))
mut('c10-quantifier-skips-first', 'C10', 'R10.2', ('task.py', "            if all(t == cand or t.endswith(f':{cand}') for t in matching_tasks):", "            if all(t == cand or t.endswith(f':{cand}') for t in matching_tasks[1:]):"))
mut('c10-missing-returns-none', 'C10', 'R10.2', ('task.py', "    if len(matching_tasks) == 0:\n        raise KeyError(f'Task `{task_name}` not found')\n    return matching_tasks[0]", "    if len(matching_tasks) == 0:\n        return None\n    return matching_tasks[0]"))
mut('c10-chain-get-plain', 'C10', 'R10.3', ('chain.py', "        return self.tasks.get(_find_task_full_name(item, self.tasks.keys()))", "        return self.tasks.get(item)"))
mut('c10-inputs-contains-plain', 'C10', 'R10.3', ('task.py', "        try:\n            return super().__contains__(_find_task_full_name(item, self.keys()))\n        except KeyError:\n            return False", "        return super().__contains__(item)"))
mut('c10-contains-hides-all-errors', 'C10', 'R10.3', ('chain.py', "            return _find_task_full_name(item, self.tasks.keys()) in self.tasks\n        except KeyError:\n            return False", "            return _find_task_full_name(item, self.tasks.keys()) in self.tasks\n        except Exception:\n            return False"))
mut('c10-getattr-exact', 'C10', 'R10.3', ('chain.py', "        if item in self:\n            return self.get(item)\n        return self.__getattribute__(item)", "        if item in self.tasks:\n            return self.tasks[item]\n        return self.__getattribute__(item)"))
mut('c10-single-match-shortcut', 'C10', 'R10.2', ('task.py', "    matching_tasks = [t for t in tasks if _task_name_match(task_name, t)]\n", "    matching_tasks = [t for t in tasks if _task_name_match(task_name, t)]\n    if matching_tasks and matching_tasks[0].split('::')[-1] == task_name:\n        return matching_tasks[0]\n"))

ben('ben-c10-len-eq-one', ['C10'], ('task.py', "    if len(matching_tasks) == 0:\n        raise KeyError(f'Task `{task_name}` not found')\n    return matching_tasks[0]", "    if len(matching_tasks) == 0:\n        raise KeyError(f'Task `{task_name}` not found')\n    (only_match,) = matching_tasks\n    return only_match"))
ben('ben-c10-candidate-separator', ['C10', 'C08'], ('task.py', "            if all(t == cand or t.endswith(f':{cand}') for t in matching_tasks):", "            if all(t == cand or t.endswith(':' + cand) for t in matching_tasks):"))

# ---------------------------------------------------------------------------------------------- C09
mut('c09-prefix-config-ne', 'C09', 'R09.6', ('chain.py', "tasks[task_name].get_config() is not _task.get_config():", "tasks[task_name].get_config() != _task.get_config():"))
mut('c09-prefix-first-pass-sharing', 'C09', 'R09.7', ('chain.py', "task_registry=None if self._parameter_mode else self._task_registry", "task_registry={} if self._parameter_mode else self._task_registry"))
mut('c09-context-order-swapped', 'C09', 'R09.1', ('config.py', "        self._data.update(deepcopy(context.data))\n        if self.namespace:\n            for namespace, data in context.for_namespaces.items():\n                if self.namespace == namespace:\n                    self._data.update(deepcopy(data))",
                                                  "        if self.namespace:\n            for namespace, data in context.for_namespaces.items():\n                if self.namespace == namespace:\n                    self._data.update(deepcopy(data))\n        self._data.update(deepcopy(context.data))"))
mut('c09-no-deepcopy-global', 'C09', 'R09.2', ('config.py', "        self._data.update(deepcopy(context.data))", "        self._data.update(context.data)"))
mut('c09-no-deepcopy-namespace', 'C09', 'R09.2', ('config.py', "                    self._data.update(deepcopy(data))", "                    self._data.update(data)"))
mut('c09-namespace-prefix-match', 'C09', 'R09.3', ('config.py', "                if self.namespace == namespace:", "                if self.namespace.startswith(namespace):"))
mut('c09-merge-reversed', 'C09', 'R09.1', ('config.py', "        for context in contexts:\n            data.update(context.data)", "        for context in reversed(list(contexts)):\n            data.update(context.data)"))
mut('c09-merge-first-wins', 'C09', 'R09.1', ('config.py', "                for_namespaces[namespace].update(values)", "                for key, value in values.items():\n                    for_namespaces[namespace].setdefault(key, value)"))
mut('c09-merge-aliases-first', 'C09', 'R09.2', ('config.py', "        for_namespaces = defaultdict(dict)\n", "        for_namespaces = {}\n"),
    ('config.py', "                for_namespaces[namespace].update(values)", "                if namespace not in for_namespaces:\n                    for_namespaces[namespace] = values\n                else:\n                    for_namespaces[namespace].update(values)"))
mut('c09-used-config-no-context', 'C09', 'R09.4', ('chain.py', "                        namespace=config.namespace if config.namespace else None,\n                        global_vars=config.global_vars,\n                        context=config.context,", "                        namespace=config.namespace if config.namespace else None,\n                        global_vars=config.global_vars,"))
mut('c09-namespace-not-composed', 'C09', 'R09.4', ('chain.py', "namespace=f'{config.namespace}::{matched[2]}' if config.namespace else matched[2],", "namespace=matched[2],"))
mut('c09-required-silently-none', 'C09', 'R09.5', ('parameter.py', "            if self.required:\n                raise ValueError(f'Value for parameter `{self}` not found in config `{config}`')\n            value = self.default", "            value = None if self.required else self.default"))
mut('c09-dtype-not-checked', 'C09', 'R09.5', ('parameter.py', "                raise ValueError(\n                    f'Value `{value}` of parameter `{self}` has type {type(value)} instead of `{self.dtype}`'\n                )", "                pass"))
mut('c09-none-falls-to-default', 'C09', 'R09.5', ('parameter.py', "        if self.name_in_config in config:\n            value = config[self.name_in_config]\n        else:", "        if config.get(self.name_in_config) is not None:\n            value = config[self.name_in_config]\n        else:"))
mut('c09-conflict-by-name', 'C09', 'R09.6', ('chain.py', "tasks[task_name].get_config() is not _task.get_config():", "tasks[task_name].get_config().name != _task.get_config().name:"))
mut('c09-all-uses-rewritten', 'C09', 'R09.8', ('config.py', "            if isinstance(use, str) and use.startswith('#'):", "            if isinstance(use, str):"))
mut('c09-object-use-keeps-own-context', 'C09', 'R09.4', ('chain.py', "                use.context = config.context\n                use._prepare()", "                use._prepare()"))

ben('ben-c09-deepcopy-local', ['C09', 'C01'], ('config.py', "        self._data.update(deepcopy(context.data))", "        own_copy = deepcopy(context.data)\n        self._data.update(own_copy)"))

# ---------------------------------------------------------------------------------------------- C11
mut('c11-prefix-reprstr-copy', 'C11', 'R11.4', ('utils/data.py', "        s = str.__new__(ReprStr, str(self))\n        s.repr = self.repr\n        return s", "        return ReprStr(str(self), self.repr)"))
mut('c11-dict-values-not-traversed', 'C11', 'R11.1', ('utils/data.py', "            for k, v in o.items():\n                if not _traverse(v) and _is_valid(v):\n                    o[k] = fce(v)\n            return True", "            for k, v in o.items():\n                if _is_valid(v):\n                    o[k] = fce(v)\n            return True"))
mut('c11-list-first-only', 'C11', 'R11.1', ('utils/data.py', "            for i, v in enumerate(o):\n                if not _traverse(v) and _is_valid(v):\n                    o[i] = fce(v)\n            return True", "            for i, v in enumerate(o[:1]):\n                if not _traverse(v) and _is_valid(v):\n                    o[i] = fce(v)\n            return True"))
mut('c11-all-types', 'C11', 'R11.1', ('utils/data.py', "    search_and_apply(obj, fce=_apply, allowed_types=(str,))", "    search_and_apply(obj, fce=_apply)"))
mut('c11-no-idempotence-guard', 'C11', 'R11.2', ('utils/data.py', "        if isinstance(string, ReprStr):\n            return string\n", ""))
mut('c11-guard-brace-fastpath', 'C11', 'R11.2', ('utils/data.py', "        if isinstance(string, ReprStr):\n            return string\n", "        if '{' not in string:\n            return string\n"))
mut('c11-undefined-removed', 'C11', 'R11.3', ('utils/data.py', "            if placeholder not in replacements:\n                return '{' + placeholder + '}'", "            if placeholder not in replacements:\n                return ''"))
mut('c11-undefined-attr-none', 'C11', 'R11.3', ('utils/data.py', "        if not hasattr(replacements, placeholder):\n            return '{' + placeholder + '}'", "        if not hasattr(replacements, placeholder):\n            return placeholder"))
mut('c11-repr-is-value', 'C11', 'R11.4', ('utils/data.py', "            return ReprStr(new_string, string)", "            return ReprStr(new_string, new_string)") )
mut('c11-objects-before-vars', 'C11', 'R11.5', ('config.py', "        if self.global_vars is not None:\n            self.apply_global_vars(self.global_vars)\n        if create_objects:\n            self.prepare_objects()", "        if create_objects:\n            self.prepare_objects()\n        if self.global_vars is not None:\n            self.apply_global_vars(self.global_vars)"))
mut('c11-vars-before-context', 'C11', 'R11.5', ('config.py', "        if self.context is not None:\n            self.apply_context(self.context)\n        self._validate_data()\n        if self.global_vars is not None:\n            self.apply_global_vars(self.global_vars)", "        if self.global_vars is not None:\n            self.apply_global_vars(self.global_vars)\n        if self.context is not None:\n            self.apply_context(self.context)\n        self._validate_data()"))
mut('c11-nested-uses-no-vars', 'C11', 'R11.5', ('config.py', "            contexts.append(Context.prepare_context(filepath, sub_namespace, global_vars=global_vars))", "            contexts.append(Context.prepare_context(filepath, sub_namespace))"))
mut('c11-greedy-pattern', 'C11', 'R11.6', ('utils/data.py', "re.subn(r'{(.*?)}', _replace, string)", "re.subn(r'{(.*)}', _replace, string)"))
mut('c11-tuple-leaf', 'C11', 'R11.1', ('utils/data.py', "        if type(o) in [list, tuple, set]:\n            for i, v in enumerate(o):\n                if not _traverse(v) and _is_valid(v):\n                    o[i] = fce(v)\n            return True\n        if isinstance(o, dict):", "        if isinstance(o, dict):"))

ben('ben-c11-pattern-class', ['C11'], ('utils/data.py', "re.subn(r'{(.*?)}', _replace, string)", "re.subn(r'{([^}]*)}', _replace, string)"))
ben('ben-c11-guard-type', ['C11', 'C02'], ('utils/data.py', "        if isinstance(string, ReprStr):\n            return string\n", "        already_substituted = isinstance(string, ReprStr)\n        if already_substituted:\n            return string\n"))

# ---------------------------------------------------------------------------------------------- C13
mut('c13-fresh-registry-per-chain', 'C13', 'R13.1', ('chain.py', "            self.chains[config.name] = Chain(config, self._tasks, parameter_mode=self.parameter_mode)", "            self.chains[config.name] = Chain(config, dict(self._tasks), parameter_mode=self.parameter_mode)"))
mut('c13-parameter-mode-dropped', 'C13', 'R13.1', ('chain.py', "            self.chains[config.name] = Chain(config, self._tasks, parameter_mode=self.parameter_mode)", "            self.chains[config.name] = Chain(config, self._tasks)"))
mut('c13-empty-registry-replaced', 'C13', 'R13.2', ('chain.py', "        self._task_registry = shared_tasks if shared_tasks is not None else {}", "        self._task_registry = shared_tasks or {}"))
mut('c13-second-pass-private', 'C13', 'R13.2', ('chain.py', "            self.tasks = self._recreate_tasks_with_parameter_config(tasks, self._task_registry)", "            self.tasks = self._recreate_tasks_with_parameter_config(tasks, {})"))
mut('c13-key-with-context', 'C13', 'R13.3', ('chain.py', "            key = task.slugname, task.name_for_persistence", "            key = task.slugname, task.name_for_persistence, str(config.context)"))
mut('c13-key-slug-only', 'C13', 'R13.3', ('chain.py', "            key = task.slugname, task.name_for_persistence", "            key = (task.slugname,)"))
mut('c13-force-first-chain', 'C13', 'R13.4', ('chain.py', "        for chain in self.chains.values():\n            chain.force(tasks, **kwargs)", "        for chain in self.chains.values():\n            chain.force(tasks, **kwargs)\n            break"))
mut('c13-force-flags-dropped', 'C13', 'R13.4', ('chain.py', "        for chain in self.chains.values():\n            chain.force(tasks, **kwargs)", "        for chain in self.chains.values():\n            chain.force(tasks)"))
mut('c13-force-only-where-known', 'C13', 'R13.4', ('chain.py', "        for chain in self.chains.values():\n            chain.force(tasks, **kwargs)", "        for chain in self.chains.values():\n            if tasks in chain:\n                chain.force(tasks, **kwargs)"))
mut('c13-dedupe-chains', 'C13', 'R13.1', ('chain.py', "            self.chains[config.name] = Chain(config, self._tasks, parameter_mode=self.parameter_mode)", "            same = [c for c in self.chains.values() if c._base_config.data == config.data]\n            self.chains[config.name] = same[0] if same else Chain(config, self._tasks, parameter_mode=self.parameter_mode)"))
mut('c13-registry-reset-in-prepare', 'C13', 'R13.1', ('chain.py', "    def _prepare(self):\n        for config in self._base_configs:\n            assert config.name not in self.chains", "    def _prepare(self):\n        for config in self._base_configs:\n            self._tasks = {}\n            assert config.name not in self.chains"))

ben('ben-c13-registry-none-flip', ['C13', 'C01'], ('chain.py', "        self._task_registry = shared_tasks if shared_tasks is not None else {}", "        self._task_registry = {} if shared_tasks is None else shared_tasks"))

# ---------------------------------------------------------------------------------------------- C16
mut('c16-offset-off-by-one', 'C16', 'R16.1', ('cache.py', "                    if i - 1 < len(args):\n                        kwargs[arg] = args[i - 1]", "                    if i < len(args):\n                        kwargs[arg] = args[i - 1]"))
mut('c16-self-not-skipped', 'C16', 'R16.1', ('cache.py', "                    if i == 0:\n                        # skip self\n                        continue\n", ""))
mut('c16-default-overwrites', 'C16', 'R16.1', ('cache.py', "                    if parameter.default != Parameter.empty and arg not in kwargs:", "                    if parameter.default != Parameter.empty:"))
mut('c16-defaults-not-filled', 'C16', 'R16.1', ('cache.py', "                    if parameter.default != Parameter.empty and arg not in kwargs:\n                        kwargs[arg] = parameter.default\n", ""))
mut('c16-args-not-cleared', 'C16', 'R16.1', ('cache.py', "                args = []\n                key_kwargs", "                key_kwargs"))
mut('c16-key-unsorted', 'C16', 'R16.2', ('cache.py', "cache_key = orig_json.dumps(key_kwargs, sort_keys=True)", "cache_key = orig_json.dumps(key_kwargs)"))
mut('c16-top-level-sorted-only', 'C16', 'R16.2', ('cache.py', "                key_kwargs = {k: v for k, v in kwargs.items() if k not in self.ignore_params}\n                # we use json module from standard library to ensure backward\n                # compatibility\n                cache_key = orig_json.dumps(key_kwargs, sort_keys=True)",
                                                   "                key_kwargs = {k: kwargs[k] for k in sorted(kwargs) if k not in self.ignore_params}\n                cache_key = orig_json.dumps(key_kwargs)"))
mut('c16-ignore-params-unused', 'C16', 'R16.2', ('cache.py', "key_kwargs = {k: v for k, v in kwargs.items() if k not in self.ignore_params}", "key_kwargs = dict(kwargs)"))
mut('c16-version-ignored', 'C16', 'R16.3', ('cache.py', "                if self.version is not None:\n                    subcache_name = f'{subcache_name}.{self.version}'\n", ""))
mut('c16-subcache-by-class', 'C16', 'R16.3', ('cache.py', "                subcache_name = method.__name__\n", "                subcache_name = type(obj).__name__\n"))
mut('c16-only-cache-computes', 'C16', 'R16.4', ('cache.py', "            if only_cache:\n                return cache.get(cache_key)\n", "            if only_cache and store_cache_value is not NO_VALUE:\n                return cache.get(cache_key)\n"))
mut('c16-force-not-forwarded', 'C16', 'R16.4', ('cache.py', "return cache.get_or_compute(cache_key, computer, force=force_cache)", "return cache.get_or_compute(cache_key, computer)"))
mut('c16-store-calls-method', 'C16', 'R16.4', ('cache.py', "                computer = lambda: store_cache_value  # noqa: E731", "                computer = lambda: method(obj, *args, **kwargs) or store_cache_value  # noqa: E731"))
mut('c16-none-is-missing', 'C16', 'R16.5', ('cache.py', "        if key not in self._memory[get_ident()] or force:\n            self._memory[get_ident()][key] = computer()\n        return self._memory[get_ident()][key]", "        value = None if force else self._memory[get_ident()].get(key)\n        if value is None:\n            value = self._memory[get_ident()][key] = computer()\n        return value"))

ben('ben-c16-skip-lt', ['C16'], ('cache.py', "                    if i == 0:\n                        # skip self\n                        continue\n", "                    if i < 1:\n                        continue\n"))

# ---------------------------------------------------------------------------------------------- C17
mut('c17-iter-no-sort', 'C17', 'R17.1', ('utils/iter.py', "    return [res for _, res in sorted(result, key=lambda ires: ires[0])]", "    return [res for _, res in result]"))
mut('c17-threading-never-sorted', 'C17', 'R17.1', ('utils/threading.py', "        for _, res in sorted(chunk_result, key=lambda ires: ires[0]) if sort else chunk_result:", "        for _, res in chunk_result:"))
mut('c17-sort-by-value', 'C17', 'R17.1', ('utils/iter.py', "sorted(result, key=lambda ires: ires[0])", "sorted(result, key=lambda ires: ires[1])"))
mut('c17-sort-hoisted', 'C17', 'R17.1', ('utils/threading.py', "        chunk_result = loop.run_until_complete(_run(chunk))\n        for _, res in sorted(chunk_result, key=lambda ires: ires[0]) if sort else chunk_result:\n            result.append(res)\n    return result",
                                         "        chunk_result = loop.run_until_complete(_run(chunk))\n        result.extend(chunk_result)\n    ordered = sorted(result, key=lambda ires: ires[0]) if sort else result\n    return [res for _, res in ordered]"))
mut('c17-insert-by-index', 'C17', 'R17.1', ('utils/iter.py', "    return [res for _, res in sorted(result, key=lambda ires: ires[0])]", "    out = []\n    for i, res in result:\n        out.insert(i, res)\n    return out"))
mut('c17-fun-called-twice', 'C17', 'R17.2', ('utils/iter.py', "    def _fun(i, arg):\n        return i, fun(arg)", "    def _fun(i, arg):\n        fun(arg)\n        return i, fun(arg)"))
mut('c17-swallow-exception', 'C17', 'R17.2', ('utils/threading.py', "    def _fun(i, arg):\n        return i, fun(arg)", "    def _fun(i, arg):\n        try:\n            return i, fun(arg)\n        except Exception:\n            return i, None"))
mut('c17-skip-falsy', 'C17', 'R17.2', ('utils/iter.py', "for i, input_value in enumerate(iterable)]\n            return [", "for i, input_value in enumerate(iterable) if input_value is not None]\n            return ["))
mut('c17-sequential-drops-last', 'C17', 'R17.2', ('utils/iter.py', "        return [fun(i) for i in iterable]", "        return [fun(i) for i in list(iterable)[:-1]] + [fun(list(iterable)[-1])] if total else []"))
mut('c17-chunk-off-by-one', 'C17', 'R17.3', ('utils/iter.py', "        if result_size == chunksize:", "        if result_size > chunksize:"))
mut('c17-chunk-buffer-reuse', 'C17', 'R17.3', ('utils/iter.py', "            yield result\n            result = []\n            result_size = 0", "            yield result\n            result.clear()\n            result_size = 0"))
mut('c17-chunk-empty-tail', 'C17', 'R17.3', ('utils/iter.py', "    if result_size > 0:\n        yield result", "    yield result"))
mut('c17-chunk-counter-not-reset', 'C17', 'R17.3', ('utils/iter.py', "            result = []\n            result_size = 0", "            result = []"))

ben('ben-c17-sorted-local', ['C17'], ('utils/iter.py', "    return [res for _, res in sorted(result, key=lambda ires: ires[0])]", "    ordered = sorted(result, key=lambda pair: pair[0])\n    return [res for _, res in ordered]"))

# ---------------------------------------------------------------------------------------------- C19
mut('c19-no-dependency-check', 'C19', 'R19.1', ('utils/testing.py', "        self.tasks = self._create_tasks()\n        self._process_dependencies(self.tasks)\n\n        self._build_graph()", "        self.tasks = self._create_tasks()\n        try:\n            self._process_dependencies(self.tasks)\n        except ValueError:\n            pass\n\n        self._build_graph()"))
mut('c19-stages-reordered', 'C19', 'R19.1', ('utils/testing.py', "        self._process_dependencies(self.tasks)\n\n        self._build_graph()\n        self._init_objects()", "        self._init_objects()\n        self._process_dependencies(self.tasks)\n\n        self._build_graph()"))
mut('c19-mock-persisted', 'C19', 'R19.2', ('utils/testing.py', "        data_type = Any\n        data_class = InMemoryData", "        data_type = Any\n        data_class = JSONData"),
    ('utils/testing.py', "from taskchain import Chain, Config, Task, InMemoryData", "from taskchain import Chain, Config, Task, InMemoryData, JSONData"))
mut('c19-mock-value-copy', 'C19', 'R19.2', ('utils/testing.py', "    def value(self) -> Any:\n        return self._value", "    def value(self) -> Any:\n        return self.data.value"))
mut('c19-real-task-other-config', 'C19', 'R19.2', ('utils/testing.py', "            task = self._create_task(task_class, self.config)", "            task = self._create_task(task_class, Config(self.config.base_dir, name='test', data={}))"))
mut('c19-none-params-dropped', 'C19', 'R19.3', ('utils/testing.py', "        if parameters is None:\n            parameters = {}\n", "        if parameters is None:\n            parameters = {}\n        parameters = {k: v for k, v in parameters.items() if v is not None}\n"))
mut('c19-create-test-task-no-mocks', 'C19', 'R19.4', ('utils/testing.py', "test_chain = TestChain([task], parameters=parameters, mock_tasks=input_tasks, base_dir=base_dir)", "test_chain = TestChain([task], parameters=parameters, base_dir=base_dir)"))
mut('c19-pattern-by-slugname', 'C19', 'R19.5', ('chain.py', "                    if re.fullmatch(input_task.lstrip('~'), task_name.split('::')[-1]) and namespace_check:", "                    if re.fullmatch(input_task.lstrip('~'), tasks[task_name].slugname) and namespace_check:"))
mut('c19-run-args-config-fallback', 'C19', 'R19.6', ('task.py', "            parameter_arg = self.parameters[arg] if arg in self.parameters else NO_VALUE\n", "            parameter_arg = self.parameters[arg] if arg in self.parameters else NO_VALUE\n            if parameter_arg is NO_VALUE and input_tasks_arg is NO_VALUE and self._config is not None and arg in self._config:\n                parameter_arg = self._config[arg]\n                args.append(parameter_arg)\n                continue\n"))

ben('ben-c19-default-dict', ['C19'], ('utils/testing.py', "        if parameters is None:\n            parameters = {}\n", "        if parameters is None:\n            parameters = {}\n        assert isinstance(parameters, dict)\n"))

# ---------------------------------------------------------------------------------------------- round 5 rules
ben('ben-c09-own-data-dict-copy', ['C09', 'C11', 'C01'], ('config.py', "        own_data = {k: v for k, v in context.data.items() if k != 'uses'}\n", "        own_data = dict(context.data)\n        own_data.pop('uses', None)\n"))
ben('ben-c09-use-context-local', ['C09', 'C08'], ('chain.py', "                use.context = config.context\n", "                inherited_context = config.context\n                use.context = inherited_context\n"))
mut('c10-ambiguous-handler-unreachable', 'C10', 'R10.5',
    ('chain.py', "                except AmbiguousTaskNameError as error:\n                    raise ValueError(f'Input task `{input_task_name}` of task `{task}` is ambiguous: {error}')\n                except KeyError:\n                    if not required:\n                        input_tasks[input_task_name] = default\n                        continue\n                    raise ValueError(f'Input task `{input_task_name}` of task `{task}` not found')\n",
     "                except KeyError:\n                    if not required:\n                        input_tasks[input_task_name] = default\n                        continue\n                    raise ValueError(f'Input task `{input_task_name}` of task `{task}` not found')\n                except AmbiguousTaskNameError as error:\n                    raise ValueError(f'Input task `{input_task_name}` of task `{task}` is ambiguous: {error}')\n"))
ben('ben-c10-ambiguous-chained', ['C10', 'C08'], ('chain.py', "                    raise ValueError(f'Input task `{input_task_name}` of task `{task}` is ambiguous: {error}')\n", "                    raise ValueError(f'Input task `{input_task_name}` of task `{task}` is ambiguous: {error}') from error\n"))
ben('ben-c19-private-store', ['C19'], ('utils/testing.py', "        if base_dir is None:\n            base_dir = Path(tempfile.TemporaryDirectory().name)\n", "        base_dir = Path(tempfile.TemporaryDirectory().name)\n"))
mut('c19-force-recompute-via-data', 'C19', 'R19.8', ('chain.py', "                _ = task.value\n", "                _ = task.data\n"))
mut('c20-copytree-symlinks', 'C20', 'R20.10', ('utils/migration.py', "                copytree(old_task.data_path, new_task.data_path)\n", "                copytree(old_task.data_path, new_task.data_path, symlinks=True)\n"))
mut('c20-size-self-compare', 'C20', 'R20.9', ('utils/migration.py', "                assert new_task.data_path.stat().st_size == old_task.data_path.stat().st_size\n", "                assert new_task.data_path.stat().st_size == new_task.data_path.stat().st_size\n"))
ben('ben-c20-size-locals', ['C20'], ('utils/migration.py', "                assert new_task.data_path.stat().st_size == old_task.data_path.stat().st_size\n", "                target_size = new_task.data_path.stat().st_size\n                source_size = old_task.data_path.stat().st_size\n                assert target_size == source_size\n"))
mut('c04-data-len', 'C04', 'R04.9', ('data.py', "class ListOfNumpyData(Data):\n    @property\n    def _path(self) -> Path:", "class ListOfNumpyData(Data):\n    def __len__(self):\n        return len(self._value or [])\n\n    @property\n    def _path(self) -> Path:"))
mut('c05-dirdata-workdir-published', 'C05', 'R05.7', ('data.py', "            shutil.rmtree(self.tmp_path)\n        self.tmp_path.mkdir()\n        self._dir = self.tmp_path\n", "            shutil.rmtree(self.tmp_path)\n        self.tmp_path.mkdir()\n        self._dir = self.path if self.path.exists() else self.tmp_path\n"))
ben('ben-c05-dirdata-workdir-local', ['C05', 'C01', 'C07'], ('data.py', "            shutil.rmtree(self.tmp_path)\n        self.tmp_path.mkdir()\n        self._dir = self.tmp_path\n", "            shutil.rmtree(self.tmp_path)\n        work_dir = self.tmp_path\n        work_dir.mkdir()\n        self._dir = work_dir\n"))
mut('c06-write-jsons-peek', 'C06', 'R06.9', ('utils/io.py', "    with filename.open('w', encoding='utf-8') as f:\n        for j in progress_bar(jsons,", "    use_tqdm = use_tqdm and next(iter(jsons), None) is not None\n    with filename.open('w', encoding='utf-8') as f:\n        for j in progress_bar(jsons,"))
ben('ben-c06-write-jsons-local-iter', ['C06', 'C05'], ('utils/io.py', "        for j in progress_bar(jsons, disable=not use_tqdm, desc=f'Writing to {f.name}', **kwargs):\n", "        items = progress_bar(jsons, disable=not use_tqdm, desc=f'Writing to {f.name}', **kwargs)\n        for j in items:\n"))
mut('c17-asyncio-run', 'C17', 'R17.6', ('utils/iter.py', "    loop = asyncio.get_event_loop()\n    result = loop.run_until_complete(_run())\n", "    result = asyncio.run(_run())\n"))
mut('c18-sidecar-truncated-name', 'C18', 'R18.7', ('data.py', "        return path.parent / f'{path.stem}.log'\n", "        return path.parent / f\"{path.name.split('.')[0]}.log\"\n"))
mut('c13-name-mode-key-by-name', 'C13', 'R13.3e', ('chain.py', "            key = task.slugname, config.repr_name_without_namespace\n", "            key = task.slugname, config.name\n"))
mut('c03-encode-replace', 'C03', 'R03.3', ('chain.py', "f'{parameter_repr}$$${input_tasks_repr}'.encode()", "f'{parameter_repr}$$${input_tasks_repr}'.encode(errors='replace')"))
ben('ben-c03-encode-utf8-explicit', ['C03', 'C12', 'C01', 'C02'], ('chain.py', "f'{parameter_repr}$$${input_tasks_repr}'.encode()", "f'{parameter_repr}$$${input_tasks_repr}'.encode('utf-8')"))
mut('c03-apo-skips-var-args', 'C03', 'R03.9', ('parameter.py', "            if arg in ignore_persistence_args:\n                continue\n            if hasattr(self, '_' + arg):", "            if arg in ignore_persistence_args:\n                continue\n            if parameter.kind in (parameter.VAR_POSITIONAL, parameter.VAR_KEYWORD):\n                continue\n            if hasattr(self, '_' + arg):"))
mut('c14-inmemory-force-pops-first', 'C14', 'R14.6', ('cache.py', "        if key not in self._memory[get_ident()] or force:\n            self._memory[get_ident()][key] = computer()\n", "        if force:\n            self._memory[get_ident()].pop(key, None)\n        if key not in self._memory[get_ident()]:\n            self._memory[get_ident()][key] = computer()\n"))
mut('c14-numpy-load-no-pickle', 'C14', 'R14.3', ('cache.py', "        return np.load(filepath, allow_pickle=True)\n", "        return np.load(filepath)\n"))
mut('c15-numpy-load-mmap', 'C15', 'R15.5', ('cache.py', "        return np.load(filepath, allow_pickle=True)\n", "        return np.load(filepath, allow_pickle=True, mmap_mode='r')\n"))

# ---------------------------------------------------------------------------------------------- round 6 rules
mut('c01-inputtasks-fuzzy-newness', 'C01', 'R01.14', ('task.py', "        if not super().__contains__(key):\n", "        if key not in self:\n"))
ben('ben-c01-inputtasks-dict-contains', ['C01', 'C08', 'C10'], ('task.py', "        if not super().__contains__(key):\n", "        already_present = dict.__contains__(self, key)\n        if not already_present:\n"))
mut('c02-default-exemption-narrowed', 'C02', 'R02.4', ('parameter.py', "        if self.dont_persist_default_value and self.value == self.default:\n", "        if self.dont_persist_default_value and self.default is not None and self.value == self.default:\n"))
mut('c03-default-exemption-by-text', 'C03', 'R03.10', ('parameter.py', "        if self.dont_persist_default_value and self.value == self.default:\n", "        if self.dont_persist_default_value and str(self.value) == str(self.default):\n"))
ben('ben-c02-default-exemption-flag', ['C02', 'C03', 'C12', 'C01'], ('parameter.py', "        if self.ignore_persistence:\n            return None\n\n        if self.dont_persist_default_value and self.value == self.default:\n            return None\n",
    "        persisted = not self.ignore_persistence\n        if persisted and self.dont_persist_default_value:\n            persisted = not (self.value == self.default)\n        if not persisted:\n            return None\n"))
mut('c15-mkdir-check-then-create', 'C15', 'R15.7', ('cache.py', "        directory.mkdir(exist_ok=True)\n", "        if not directory.exists():\n            directory.mkdir()\n"))
mut('c18-log-handler-delayed', 'C18', 'R18.3', ('data.py', "        return logging.FileHandler(self.log_path, mode='w')\n", "        return logging.FileHandler(self.log_path, mode='w', delay=True)\n"))
mut('c18-logger-by-slugname', 'C18', 'R18.3', ('task.py', "        self.logger = logging.getLogger(f'task_{self.fullname}')\n", "        self.logger = logging.getLogger(f'task_{self.slugname}')\n"))
ben('ben-c18-logger-name-local', ['C18'], ('task.py', "        self.logger = logging.getLogger(f'task_{self.fullname}')\n", "        logger_name = 'task_' + self.fullname\n        self.logger = logging.getLogger(logger_name)\n"))
mut('c06-lazy-reload-conditional', 'C06', 'R06.10', ('data.py', "        self.load(None)\n", "        if not isinstance(value, (list, tuple)):\n            self.load(None)\n"))
mut('c14-json-load-lax-decoding', 'C14', 'R14.7', ('cache.py', "        with filepath.open('r', encoding='utf-8') as file:\n", "        with filepath.open('r', encoding='utf-8', errors='replace') as file:\n"))
mut('c17-parallel-map-peek', 'C17', 'R17.7', ('utils/iter.py', "    loop = asyncio.get_event_loop()\n    result = loop.run_until_complete(_run())\n", "    if next(iter(iterable), None) is None:\n        return []\n    loop = asyncio.get_event_loop()\n    result = loop.run_until_complete(_run())\n"))
mut('c13-force-request-not-materialised', 'C13', 'R13.8', ('chain.py', "        if not (type(tasks) is str or isinstance(tasks, Task)):\n            # every chain gets the same tasks, also when they are given as a one-shot iterable\n            tasks = list(tasks)\n", ""))
ben('ben-c13-force-request-tuple', ['C13', 'C07'], ('chain.py', "            tasks = list(tasks)\n        for chain in self.chains.values():", "            tasks = tuple(tasks)\n        for chain in self.chains.values():"))
mut('c08-candidates-generator-hoisted', 'C08', 'R08.8', ('chain.py', "        current_task_namespace = current_task_name.split('::')[:-1]\n        for input_task in input_tasks:", "        current_task_namespace = current_task_name.split('::')[:-1]\n        tasks = (t for t in tasks)\n        for input_task in input_tasks:"))


# ---------------------------------------------------------------------------------------------- round 7 (disguised faults)
mut('c16-kind-filter-defaults', 'C16', 'R16.9', ('cache.py', "                    if parameter.default != Parameter.empty and arg not in kwargs:",
                                                 "                    if parameter.kind == Parameter.POSITIONAL_OR_KEYWORD and parameter.default != Parameter.empty and arg not in kwargs:"))
mut('c16-kind-skip-keyword-only', 'C16', 'R16.9', ('cache.py', "                    if i - 1 < len(args):\n                        kwargs[arg] = args[i - 1]",
                                                   "                    if parameter.kind != Parameter.POSITIONAL_OR_KEYWORD:\n                        continue\n                    if i - 1 < len(args):\n                        kwargs[arg] = args[i - 1]"))
ben('ben-c16-skip-var-kinds', ['C16'], ('cache.py', "                    if i - 1 < len(args):\n                        kwargs[arg] = args[i - 1]",
                                        "                    if parameter.kind in (Parameter.VAR_POSITIONAL, Parameter.VAR_KEYWORD):\n                        continue\n                    if i - 1 < len(args):\n                        kwargs[arg] = args[i - 1]"))
mut('c17-total-cuts-result', 'C17', 'R17.8', ('utils/iter.py', "    return [res for _, res in sorted(result, key=lambda ires: ires[0])]",
                                              "    ordered = sorted(result, key=lambda ires: ires[0])\n    return [res for _, res in ordered][:total]"))
mut('c17-total-cuts-threading', 'C17', 'R17.8', ('utils/threading.py', "            result.append(res)\n    return result", "            result.append(res)\n    return result if total is None else result[:total]"))
ben('ben-c17-bar-options', ['C17'], ('utils/iter.py', "                for output_value in progress_bar(\n                    asyncio.as_completed(futures), desc=desc, total=total, smoothing=smoothing\n                )",
                                     "                for output_value in progress_bar(\n                    asyncio.as_completed(futures), smoothing=smoothing, total=total, desc=desc\n                )"))
mut('c17-chunk-enumerate-tail', 'C17', 'R17.3', ('utils/iter.py', "    result = []\n    result_size = 0\n    for val in iterable:\n        result.append(val)\n        result_size += 1\n        if result_size == chunksize:\n            yield result\n            result = []\n            result_size = 0\n    if result_size > 0:\n        yield result",
                                                 "    result = []\n    seen = 0\n    for seen, val in enumerate(iterable, 1):\n        result.append(val)\n        if len(result) == chunksize:\n            yield result\n            result = []\n    if seen:\n        yield result"))
ben('ben-c17-chunk-enumerate-len', ['C17'], ('utils/iter.py', "    result = []\n    result_size = 0\n    for val in iterable:\n        result.append(val)\n        result_size += 1\n        if result_size == chunksize:\n            yield result\n            result = []\n            result_size = 0\n    if result_size > 0:\n        yield result",
                                             "    result = []\n    for _position, val in enumerate(iterable):\n        result.append(val)\n        if len(result) == chunksize:\n            yield result\n            result = []\n    if len(result) > 0:\n        yield result"))
ben('ben-c06-named-sort-key', ['C06', 'C01'], ('data.py', "        self._value = []\n        for file in sorted(self.path.glob('*.npy'), key=lambda f: int(f.name.split('.')[0])):\n            self._value.append(np.load(str(file)))",
                                               "        def position_of(array_file):\n            return int(array_file.name.split('.')[0])\n\n        arrays = self._value = []\n        for file in sorted(self.path.glob('*.npy'), key=position_of):\n            arrays.append(np.load(str(file)))"))
mut('c06-named-sort-key-lexical', 'C06', 'R06.4', ('data.py', "        self._value = []\n        for file in sorted(self.path.glob('*.npy'), key=lambda f: int(f.name.split('.')[0])):\n            self._value.append(np.load(str(file)))",
                                                   "        def position_of(array_file):\n            return array_file.name.split('.')[0]\n\n        arrays = self._value = []\n        for file in sorted(self.path.glob('*.npy'), key=position_of):\n            arrays.append(np.load(str(file)))"))
ben('ben-c19-get-by-name', ['C19'], ('utils/testing.py', "    return test_chain[task.fullname(test_chain.config)]", "    return test_chain.get(task.fullname(test_chain.config))"))
ben('ben-c08-edges-from-per-task', ['C08', 'C07'], ('chain.py', "            for input_task in task.input_tasks.values():\n                if not isinstance(input_task, Task):\n                    continue\n                G.add_edge(input_task, task)",
                                                    "            G.add_edges_from((input_task, task) for input_task in task.input_tasks.values() if isinstance(input_task, Task))"))


# ---------------------------------------------------------------------------------------------- round 8 (omission / ordering / scope)
mut('c02-empty-registry-string', 'C02', 'R02.4', ('parameter.py', "        if reprs:\n            return '###'.join(reprs)\n        return None", "        if not self._parameters:\n            return None\n        return '###'.join(reprs)"))
mut('c05-json-publish-in-with', 'C05', 'R05.10', ('data.py', "            json.dump(self.value, f, indent=2, sort_keys=True)\n        self._publish()", "            json.dump(self.value, f, indent=2, sort_keys=True)\n            self._publish()"))
mut('c06-numpy-list-tmp-reused', 'C06', 'R06.11', ('data.py', "        if self.tmp_path.exists():\n            shutil.rmtree(self.tmp_path)\n        self.tmp_path.mkdir()\n\n        for i, v in enumerate(self.value):", "        self.tmp_path.mkdir(exist_ok=True)\n\n        for i, v in enumerate(self.value):"))
mut('c08-gate-before-last-edge', 'C08', 'R08.1', ('chain.py', "                G.add_edge(input_task, task)\n\n        if not nx.is_directed_acyclic_graph(G):\n            raise ValueError('Chain is not acyclic')", "                if not nx.is_directed_acyclic_graph(G):\n                    raise ValueError('Chain is not acyclic')\n                G.add_edge(input_task, task)"))
mut('c09-prepare-before-namespace', 'C09', 'R09.4', ('chain.py', "                if config.namespace:\n                    if use.namespace:\n                        use.namespace = f'{config.namespace}::{use.namespace}'\n                    else:\n                        use.namespace = config.namespace\n                use.context = config.context\n                use._prepare()\n",
                                                     "                use.context = config.context\n                use._prepare()\n                if config.namespace:\n                    if use.namespace:\n                        use.namespace = f'{config.namespace}::{use.namespace}'\n                    else:\n                        use.namespace = config.namespace\n"))
mut('c09-repr-name-no-part-in-namespace', 'C09', 'R09.13', ('config.py', "            else:\n                name = f'{self.namespace}::{self._filepath}'\n            if self._part:", "            else:\n                return f'{self.namespace}::{self._filepath}'\n            if self._part:"))
mut('c10-group-first-level-only', 'C10', 'R10.8', ('task.py', "            return fullname.split(':')[-1] == name", "            return fullname.split(':', 1)[1] == name"))
mut('c15-presence-before-lock', 'C15', 'R15.8', ('cache.py', "        lock = FileLock(str(filepath) + '.lock', mode=0o664)\n        with lock:\n            if filepath.exists() and not force:", "        stored = filepath.exists()\n        lock = FileLock(str(filepath) + '.lock', mode=0o664)\n        with lock:\n            if stored and not force:"))
mut('c14-refuse-after-open', 'C14', 'R14.11', ('cache.py', "        if value is None and not self.allow_nones:\n            raise CacheException(f'The cache value for key {key} is None')\n        with filepath.open('w', encoding='utf-8') as f:\n", "        with filepath.open('w', encoding='utf-8') as f:\n            if value is None and not self.allow_nones:\n                raise CacheException(f'The cache value for key {key} is None')\n"))
mut('c18-finish-before-store', 'C18', 'R18.2', ('task.py', "            self._finish_run_info()\n        return self._data\n", "        return self._data\n"), ('task.py', "        if self._data.is_persisting:\n            self._data.save()", "        self._finish_run_info()\n        if self._data.is_persisting:\n            self._data.save()"))
mut('c18-detach-for-exceptions-only', 'C18', 'R18.1', ('task.py', "                finally:\n                    if data_log_handler is not None:\n                        self.logger.removeHandler(data_log_handler)\n                        data_log_handler.close()\n",
                                                       "                except Exception:\n                    if data_log_handler is not None:\n                        self.logger.removeHandler(data_log_handler)\n                        data_log_handler.close()\n                    raise\n                if data_log_handler is not None:\n                    self.logger.removeHandler(data_log_handler)\n                    data_log_handler.close()\n"))
ben('ben-c08-all-tasks-local', ['C08', 'C07'], ('chain.py', "        for task in self.tasks.values():\n            for input_task in task.input_tasks.values():\n                if not isinstance(input_task, Task):", "        all_tasks = self.tasks.values()\n        for task in all_tasks:\n            for input_task in task.input_tasks.values():\n                if not isinstance(input_task, Task):"))
ben('ben-c11-compiled-pattern', ['C11'], ('utils/data.py', "def search_and_replace_placeholders(obj, replacements):", "_PLACEHOLDER = re.compile(r'{(.*?)}')\n\n\ndef search_and_replace_placeholders(obj, replacements):"),
    ('utils/data.py', "        new_string, replacement_count = re.subn(r'{(.*?)}', _replace, string)", "        new_string, replacement_count = _PLACEHOLDER.subn(_replace, string)"))
ben('ben-c18-filehandler-keywords', ['C18'], ('data.py', "        return logging.FileHandler(self.log_path, mode='w')", "        log_file = self.log_path\n        return logging.FileHandler(filename=log_file, mode='w')"))
ben('ben-c13-force-requested-local', ['C13', 'C07'], ('chain.py', "            tasks = list(tasks)\n        for chain in self.chains.values():\n            chain.force(tasks, **kwargs)", "            requested = [t for t in tasks]\n        else:\n            requested = tasks\n        for chain_name in self.chains:\n            self.chains[chain_name].force(requested, **kwargs)"))
ben('ben-c14-reuse-flag', ['C14', 'C15', 'C16'], ('cache.py', "        with lock:\n            if filepath.exists() and not force:", "        with lock:\n            reuse_stored = False\n            if filepath.exists():\n                reuse_stored = not force\n            if reuse_stored:"))
ben('ben-c02-registry-comprehension', ['C02', 'C03', 'C12'], ('parameter.py', "        reprs = []\n        for name, parameter in sorted(self._parameters.items()):\n            repr = parameter.repr\n            if repr is not None:\n                reprs.append(repr)\n        if reprs:",
                                                              "        all_reprs = [parameter.repr for _, parameter in sorted(self._parameters.items())]\n        reprs = [r for r in all_reprs if r is not None]\n        if reprs:"))
