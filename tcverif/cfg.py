"""Statement-level control-flow graph with exception edges, finally/with duplication, conjunct-split tests,
dominators and must-hold branch facts.

Node kinds: entry, exit (normal return), raise (uncaught exception exit), stmt, test, for, with_enter, with_exit,
dispatch (exception dispatch of a try), handler (except clause entry), edge (pseudo node on a T/F branch edge).
"""
from __future__ import annotations

import ast
from typing import Dict, Iterable, List, Optional, Set, Tuple

import networkx as nx

from .model import src

RAISING = (ast.Call, ast.Raise, ast.Assert, ast.Await, ast.YieldFrom, ast.Import, ast.ImportFrom)


def may_raise(node) -> bool:
    if node is None:
        return False
    for n in ast.walk(node):
        if isinstance(n, RAISING):
            return True
        if isinstance(n, ast.Subscript) and isinstance(n.ctx, (ast.Load, ast.Del)):
            return True
    return False


class Node:
    __slots__ = ('id', 'kind', 'ast', 'label', 'polarity_of', 'copy', 'owner')

    def __init__(self, id_, kind, ast_=None, label='', copy=0):
        self.id = id_
        self.kind = kind
        self.ast = ast_
        self.label = label
        self.polarity_of = None  # for 'edge' pseudo nodes: (test Node id, 'T'|'F')
        self.copy = copy

    @property
    def lineno(self):
        return getattr(self.ast, 'lineno', None)

    def __repr__(self):
        t = src(self.ast)[:50].replace('\n', ' ') if self.ast is not None and self.kind not in ('entry', 'exit', 'raise') else ''
        return f'<{self.id}:{self.kind}{" " + self.label if self.label else ""} {t}>'


def predicate_expr(fdef, call):
    """The boolean expression a small predicate function computes for this call, written in the caller's terms
    (parameters replaced by the call's arguments, single-assignment locals by their definitions); None if the function
    is not of the form  [x = e]* [if t: return True/False]* return e."""
    import copy
    if not isinstance(fdef, (ast.FunctionDef,)) or fdef.decorator_list and not all(isinstance(d, ast.Name) and d.id in ('staticmethod', 'classmethod') for d in fdef.decorator_list):
        return None
    params = [a.arg for a in fdef.args.posonlyargs + fdef.args.args]
    if fdef.args.vararg or fdef.args.kwarg:
        return None
    is_static = any(isinstance(d, ast.Name) and d.id == 'staticmethod' for d in fdef.decorator_list)
    if isinstance(call.func, ast.Attribute) and params and not is_static and params[0] in ('self', 'cls'):
        env = {params[0]: call.func.value}
        params = params[1:]
    else:
        env = {}
    if any(isinstance(a, ast.Starred) for a in call.args) or any(kw.arg is None for kw in call.keywords) or len(call.args) > len(params):
        return None
    for p_, a in zip(params, call.args):
        env[p_] = a
    for kw in call.keywords:
        if kw.arg not in params:
            return None
        env[kw.arg] = kw.value
    defaults = fdef.args.defaults
    for p_, d in zip(params[len(params) - len(defaults):], defaults):
        env.setdefault(p_, d)
    if any(p_ not in env for p_ in params):
        return None

    class Sub(ast.NodeTransformer):
        def visit_Name(self, node):
            if isinstance(node.ctx, ast.Load) and node.id in env:
                return copy.deepcopy(env[node.id])
            return node

    def sub(e):
        return Sub().visit(copy.deepcopy(e))

    body = [st for st in fdef.body if not (isinstance(st, ast.Expr) and isinstance(st.value, ast.Constant) and isinstance(st.value.value, str))]
    items, final = [], None
    assigned = set()
    for st in body:
        if isinstance(st, (ast.Assign, ast.AnnAssign)) and (isinstance(st, ast.AnnAssign) or len(st.targets) == 1):
            tgt = st.targets[0] if isinstance(st, ast.Assign) else st.target
            if not isinstance(tgt, ast.Name) or tgt.id in assigned or tgt.id in params or st.value is None:
                return None
            assigned.add(tgt.id)
            env[tgt.id] = sub(st.value)
        elif isinstance(st, ast.If) and not st.orelse and len(st.body) == 1 and isinstance(st.body[0], ast.Return) and isinstance(st.body[0].value, ast.Constant) \
                and isinstance(st.body[0].value.value, bool):
            items.append((sub(st.test), st.body[0].value.value))
        elif isinstance(st, ast.Return) and st.value is not None:
            final = sub(st.value)
            break
        else:
            return None
    if final is None:
        return None
    e = final
    for test, const in reversed(items):
        e = ast.BoolOp(op=ast.Or(), values=[test, e]) if const else ast.BoolOp(op=ast.And(), values=[ast.UnaryOp(op=ast.Not(), operand=test), e])
    return ast.fix_missing_locations(ast.copy_location(e, call))


class _K:
    """Builder context."""

    def __init__(self, exc, finalizers, loop=None, ret=None, fin_base=0, depth=0):
        self.exc = exc  # node id receiving exceptions
        self.finalizers = finalizers  # list of finalizer records (innermost last)
        self.loop = loop  # (loop_head_id, break_collector list, finalizer depth at loop entry)
        self.ret = ret  # None: `return` leaves the function; list: collector of return edges of an inlined helper
        self.fin_base = fin_base  # finalizer depth at entry of the (inlined) function body
        self.depth = depth  # inlining depth

    def with_(self, **kw):
        k = _K(self.exc, self.finalizers, self.loop, self.ret, self.fin_base, self.depth)
        for a, v in kw.items():
            setattr(k, a, v)
        return k


class CFG:
    def __init__(self, func_node, inline=None, predicates=True):
        """inline: optional callable(call node, enclosing FunctionDef) -> FunctionDef of a private helper whose body is
        spliced in at the call statement (returns continue after the call, exceptions go to the caller's handlers)."""
        self.func = func_node
        self.inline = inline
        self.predicates = predicates  # expand calls of private predicate helpers in conditions
        self.inlined_defs = []  # FunctionDef nodes whose bodies were spliced in
        self._inline_stack = [func_node]
        self.g = nx.DiGraph()
        self.nodes: Dict[int, Node] = {}
        self._n = 0
        self.entry = self._new('entry')
        self.exit = self._new('exit')
        self.raise_exit = self._new('raise')
        self._final_memo: Dict[Tuple, int] = {}
        self._ret_value: Dict[int, ast.AST] = {}
        # constants (None / bool / str / int literals) that simple local names hold on an out-edge (node id, label):
        # a conditional constant propagation restricted to straight-line code, used to resolve flag tests
        # (`reason = None ... if reason is not None:`) per incoming edge instead of merging infeasible paths
        self._env: Dict[Tuple[int, str], Dict[str, object]] = {}
        self.in_handler: Set[int] = set()  # nodes that belong to the body of an except clause
        body = func_node.body if isinstance(func_node.body, list) else [ast.Return(value=func_node.body)]
        k = _K(self.raise_exit.id, [])
        outs = self._seq(body, [(self.entry.id, 'next')], k)
        self._connect(outs, self.exit.id)
        self._split_edges()
        self._idom = None
        self._ipdom = None

    # ------------------------------------------------------------------ construction helpers
    def _new(self, kind, ast_=None, label='', copy=0) -> Node:
        n = Node(self._n, kind, ast_, label, copy)
        n.owner = self._inline_stack[-1]  # FunctionDef whose body the node belongs to (an inlined helper or the function itself)
        self.nodes[self._n] = n
        self.g.add_node(self._n)
        self._n += 1
        return n

    def _connect(self, preds: List[Tuple[int, str]], dst: int):
        for p, lab in preds:
            if self.g.has_edge(p, dst):
                labs = self.g[p][dst]['labels']
                if lab not in labs:
                    labs.append(lab)
            else:
                self.g.add_edge(p, dst, labels=[lab])

    def _stmt_node(self, kind, st, preds, k: _K, label='') -> Node:
        n = self._new(kind, st, label)
        self._connect(preds, n.id)
        return n

    def _exc_edge(self, n: Node, k: _K, expr=None):
        if may_raise(expr if expr is not None else n.ast):
            self._connect([(n.id, 'exc')], k.exc)

    # ------------------------------------------------------------------ statements
    def _seq(self, stmts, preds, k: _K):
        for st in stmts:
            if not preds:
                break  # unreachable code
            preds = self._stmt(st, preds, k)
        return preds

    def _stmt(self, st, preds, k: _K):
        if isinstance(st, ast.If):
            t_out, f_out = self._cond(st.test, preds, k)
            a = self._seq(st.body, t_out, k)
            b = self._seq(st.orelse, f_out, k) if st.orelse else f_out
            return a + b
        if isinstance(st, ast.Assert):
            t_out, f_out = self._cond(st.test, preds, k)
            if f_out:
                fail = self._new('stmt', st, 'assert-fail')
                self._connect(f_out, fail.id)
                self._connect([(fail.id, 'exc')], k.exc)
            return t_out
        if isinstance(st, (ast.For, ast.AsyncFor)):
            head = self._stmt_node('for', st, preds, k)
            self._exc_edge(head, k, st.iter)
            brk: List[Tuple[int, str]] = []
            kb = k.with_(loop=(head.id, brk, len(k.finalizers)))
            body_out = self._seq(st.body, [(head.id, 'loop')], kb)
            self._connect(body_out, head.id)
            done = [(head.id, 'done')]
            if st.orelse:
                done = self._seq(st.orelse, done, k)
            return done + brk
        if isinstance(st, ast.While):
            anchor = self._new('stmt', None, 'while-head')
            self._connect(preds, anchor.id)
            t_out, f_out = self._cond(st.test, [(anchor.id, 'next')], k)
            brk = []
            kb = k.with_(loop=(anchor.id, brk, len(k.finalizers)))
            body_out = self._seq(st.body, t_out, kb)
            self._connect(body_out, anchor.id)
            done = f_out
            if st.orelse:
                done = self._seq(st.orelse, done, k)
            return done + brk
        if isinstance(st, ast.Break):
            n = self._stmt_node('stmt', st, preds, k)
            head, brk, depth = k.loop
            outs = self._run_finalizers([(n.id, 'next')], k, depth)
            brk.extend(outs)
            return []
        if isinstance(st, ast.Continue):
            n = self._stmt_node('stmt', st, preds, k)
            head, brk, depth = k.loop
            outs = self._run_finalizers([(n.id, 'next')], k, depth)
            self._connect(outs, head)
            return []
        if isinstance(st, ast.Return):
            n = self._stmt_node('stmt', st, preds, k)
            self._exc_edge(n, k, st.value)
            after = self._maybe_inline(st, st.value, [(n.id, 'return')], k)
            outs = self._run_finalizers(after, k, k.fin_base)
            if k.ret is None:
                self._connect(outs, self.exit.id)
            else:
                if outs == after:
                    for pid, _lab in outs:
                        self._ret_value[pid] = st.value  # value returned through this edge of an inlined helper
                k.ret.extend(outs)
            return []
        if isinstance(st, ast.Raise):
            n = self._stmt_node('stmt', st, preds, k)
            self._connect([(n.id, 'exc')], k.exc)
            return []
        if isinstance(st, ast.Try) or st.__class__.__name__ == 'TryStar':
            return self._try(st, preds, k)
        if isinstance(st, (ast.With, ast.AsyncWith)):
            return self._with(st, 0, preds, k)
        if isinstance(st, (ast.FunctionDef, ast.AsyncFunctionDef, ast.ClassDef)):
            n = self._stmt_node('stmt', st, preds, k, 'def')
            return [(n.id, 'next')]
        if isinstance(st, ast.Pass):
            return preds
        # simple statement
        n = self._stmt_node('stmt', st, preds, k)
        self._exc_edge(n, k)
        value = getattr(st, 'value', None)
        env = self._transfer(self._join_env(preds), st)
        if env:
            self._env[(n.id, 'next')] = env
        return self._maybe_inline(st, value, [(n.id, 'next')], k)

    # ---- constants on edges
    def _join_env(self, preds):
        envs = [self._env.get(p, {}) for p in preds]
        if not envs:
            return {}
        out = dict(envs[0])
        for e in envs[1:]:
            out = {k_: v for k_, v in out.items() if k_ in e and e[k_] == v and type(e[k_]) is type(v)}
        return out

    @staticmethod
    def _transfer(env, st):
        env = dict(env)
        stored = {x.id for x in ast.walk(st) if isinstance(x, ast.Name) and isinstance(x.ctx, (ast.Store, ast.Del))}
        for nm in stored:
            env.pop(nm, None)
        if isinstance(st, ast.Assign) and len(st.targets) == 1 and isinstance(st.targets[0], ast.Name) and isinstance(st.value, ast.Constant) \
                and (st.value.value is None or isinstance(st.value.value, (bool, str, int))):
            env[st.targets[0].id] = st.value.value
        if isinstance(st, (ast.Global, ast.Nonlocal)):
            return {}
        return env

    @staticmethod
    def _decide(expr, env):
        """Truth value of a test under the constants known on an edge, or None."""
        if isinstance(expr, ast.Constant):
            return bool(expr.value)
        if not env:
            return None
        if isinstance(expr, ast.Name) and expr.id in env:
            return bool(env[expr.id])
        if isinstance(expr, ast.Compare) and len(expr.ops) == 1 and isinstance(expr.left, ast.Name) and expr.left.id in env and isinstance(expr.comparators[0], ast.Constant):
            a, b, op = env[expr.left.id], expr.comparators[0].value, expr.ops[0]
            if isinstance(op, ast.Is):
                return (a is None and b is None) if (a is None or b is None) else (a is b if isinstance(a, bool) and isinstance(b, bool) else None)
            if isinstance(op, ast.IsNot):
                return (not (a is None and b is None)) if (a is None or b is None) else ((a is not b) if isinstance(a, bool) and isinstance(b, bool) else None)
            if isinstance(op, ast.Eq) and type(a) is type(b):
                return a == b
            if isinstance(op, ast.NotEq) and type(a) is type(b):
                return a != b
        return None

    def _maybe_inline(self, st, value, outs, k: _K):
        """If the statement's value is a call of an inlinable private helper, splice the helper's body after the call node."""
        if self.inline is None or k.depth >= 3 or not isinstance(value, (ast.Call, ast.Await)):
            return outs
        call = value.value if isinstance(value, ast.Await) else value
        if not isinstance(call, ast.Call):
            return outs
        target = self.inline(call, self._inline_stack[-1])
        if target is None or any(target is f for f in self._inline_stack):
            return outs
        if any(isinstance(x, (ast.Yield, ast.YieldFrom)) for x in ast.walk(target)):
            return outs
        self.inlined_defs.append(target)
        call_env = self._join_env(outs)
        self._inline_stack.append(target)
        rets = []
        kk = _K(k.exc, k.finalizers, None, rets, len(k.finalizers), k.depth + 1)
        body = target.body if isinstance(target.body, list) else [ast.Return(value=target.body)]
        # the helper has its own namespace: nothing known about the caller's names applies to its locals
        ent = self._new('stmt', None, 'inline-entry')
        self._connect(outs, ent.id)
        fall = self._seq(body, [(ent.id, 'next')], kk)
        self._inline_stack.pop()
        self._note_constants(st, fall, rets, call_env)
        return fall + rets

    def _note_constants(self, st, fall, rets, call_env):
        """Back in the caller: its own constants hold again; `a, b = helper()` where a return edge of the inlined helper
        carries a literal tuple binds the constant (True / False / None) each name holds on that edge, so that a test on
        the name that follows is resolved per return site instead of merging infeasible combinations."""
        base = self._transfer(call_env, st) if isinstance(st, ast.stmt) else dict(call_env)
        tgt = st.targets[0] if isinstance(st, ast.Assign) and len(st.targets) == 1 else None
        for p_ in fall:
            env = dict(base)
            if isinstance(tgt, ast.Name):
                env[tgt.id] = None  # falling off the end returns None
            self._env[p_] = env
        for p_ in rets:
            env = dict(base)
            v = self._ret_value.get(p_[0])
            ok_const = lambda c: isinstance(c, ast.Constant) and (c.value is None or isinstance(c.value, (bool, str, int)))
            if v is not None and tgt is not None:
                if isinstance(tgt, ast.Name) and ok_const(v):
                    env[tgt.id] = v.value
                elif isinstance(tgt, (ast.Tuple, ast.List)) and isinstance(v, ast.Tuple) and len(tgt.elts) == len(v.elts):
                    for te, ve in zip(tgt.elts, v.elts):
                        if isinstance(te, ast.Name) and ok_const(ve):
                            env[te.id] = ve.value
            self._env[p_] = env

    # ---- conditions, conjunct-split with polarity pushing
    def _bool_defs(self, fdef):
        """Single-assignment boolean locals of a function: name -> defining expression.  A test on such a name is split
        like the expression itself (the value was computed at the assignment; only the branch facts are refined)."""
        cache = self.__dict__.setdefault('_bool_def_cache', {})
        if id(fdef) in cache:
            return cache[id(fdef)]
        counts, defs = {}, {}

        def walk(n):
            for c in ast.iter_child_nodes(n):
                if isinstance(c, (ast.FunctionDef, ast.AsyncFunctionDef, ast.Lambda, ast.ClassDef)):
                    continue
                if isinstance(c, ast.Name) and isinstance(c.ctx, (ast.Store, ast.Del)):
                    counts[c.id] = counts.get(c.id, 0) + 1
                if isinstance(c, ast.Assign) and len(c.targets) == 1 and isinstance(c.targets[0], ast.Name) and \
                        isinstance(c.value, (ast.BoolOp, ast.Compare, ast.Call)) or (isinstance(c, ast.Assign) and len(c.targets) == 1 and isinstance(c.targets[0], ast.Name)
                                                                          and isinstance(c.value, ast.UnaryOp) and isinstance(c.value.op, ast.Not)):
                    defs[c.targets[0].id] = c.value
                walk(c)

        walk(fdef)
        args = getattr(fdef, 'args', None)
        params = {a.arg for a in (args.posonlyargs + args.args + args.kwonlyargs)} if args is not None else set()
        out = {n: e for n, e in defs.items() if counts.get(n, 0) == 1 and n not in params}
        cache[id(fdef)] = out
        return out

    def _cond(self, expr, preds, k: _K, _expanding=()):
        """Returns (true_outs, false_outs)."""
        if isinstance(expr, ast.Name) and expr.id not in _expanding:
            d = self._bool_defs(self._inline_stack[-1]).get(expr.id)
            if d is not None:
                self._no_exc = getattr(self, '_no_exc', 0) + 1
                try:
                    return self._cond(d, preds, k, _expanding + (expr.id,))
                finally:
                    self._no_exc -= 1
        if isinstance(expr, ast.Call) and isinstance(expr.func, ast.Name) and expr.func.id == 'bool' and len(expr.args) == 1 and not expr.keywords:
            return self._cond(expr.args[0], preds, k, _expanding)   # bool(x) branches like x
        if isinstance(expr, ast.Call) and self.inline is not None and self.predicates and k.depth < 3 and id(expr) not in _expanding:
            # a private predicate helper (`if not a: return False ... return c`) branches like the expression it computes
            target = self.inline(expr, self._inline_stack[-1])
            if target is not None and not any(target is f_ for f_ in self._inline_stack):
                pe = predicate_expr(target, expr)
                if pe is not None:
                    self._no_exc = getattr(self, '_no_exc', 0)
                    return self._cond(pe, preds, k.with_(depth=k.depth + 1), _expanding + (id(expr),))
        if isinstance(expr, ast.UnaryOp) and isinstance(expr.op, ast.Not):
            t, f = self._cond(expr.operand, preds, k, _expanding)
            return f, t
        if isinstance(expr, ast.BoolOp):
            if isinstance(expr.op, ast.And):
                f_all = []
                cur = preds
                for v in expr.values:
                    t, f = self._cond(v, cur, k, _expanding)
                    f_all += f
                    cur = t
                return cur, f_all
            else:
                t_all = []
                cur = preds
                for v in expr.values:
                    t, f = self._cond(v, cur, k, _expanding)
                    t_all += t
                    cur = f
                return t_all, cur
        t_direct, f_direct, rest = [], [], []
        for p_ in preds:
            d = self._decide(expr, self._env.get(p_))
            (t_direct if d is True else f_direct if d is False else rest).append(p_)
        if not rest:
            return t_direct, f_direct
        n = self._new('test', expr)
        self._connect(rest, n.id)
        if not getattr(self, '_no_exc', 0):
            self._exc_edge(n, k)
        env = self._join_env(rest)
        te, fe = dict(env), dict(env)
        if isinstance(expr, ast.Compare) and len(expr.ops) == 1 and isinstance(expr.left, ast.Name) and isinstance(expr.comparators[0], ast.Constant) and expr.comparators[0].value is None:
            if isinstance(expr.ops[0], ast.Is):
                te[expr.left.id] = None
            elif isinstance(expr.ops[0], ast.IsNot):
                fe[expr.left.id] = None
        if te:
            self._env[(n.id, 'T')] = te
        if fe:
            self._env[(n.id, 'F')] = fe
        return [(n.id, 'T')] + t_direct, [(n.id, 'F')] + f_direct

    # ---- try / finally
    def _run_finalizers(self, preds, k: _K, down_to: int):
        """Route control leaving through pending finally/with-exit blocks (innermost first) down to depth."""
        outs = preds
        for i in range(len(k.finalizers) - 1, down_to - 1, -1):
            fin = k.finalizers[i]
            outs = fin(outs)
        return outs

    def _try(self, st, preds, k: _K):
        has_final = bool(st.finalbody)
        outer_k = k

        def make_final(kk: _K):
            def fin(p):
                if not p:
                    return p
                return self._seq(st.finalbody, p, kk)
            return fin

        if has_final:
            # context for code inside try/handlers: leaving runs the finally body (a fresh copy per leaving edge kind)
            fin_k = k.with_(finalizers=k.finalizers + [make_final(k)])
            # exceptions escaping the whole statement: finally copy, then outer exc
            esc = self._new('dispatch', st, 'finally-on-exception')
            fouts = self._seq(st.finalbody, [(esc.id, 'exc')], k)
            if fouts:
                rr = self._new('stmt', None, 'reraise-after-finally')
                self._connect(fouts, rr.id)
                self._connect([(rr.id, 'exc')], k.exc)
            escape_target = esc.id
        else:
            fin_k = k
            escape_target = k.exc

        if st.handlers:
            disp = self._new('dispatch', st, 'except-dispatch')
            body_k = fin_k.with_(exc=disp.id)
        else:
            disp = None
            body_k = fin_k.with_(exc=escape_target)
        handler_k = fin_k.with_(exc=escape_target)

        body_out = self._seq(st.body, preds, body_k)
        if st.orelse:
            body_out = self._seq(st.orelse, body_out, handler_k)
        outs = list(body_out)
        if disp is not None:
            catch_all = False
            for h in st.handlers:
                hn = self._new('handler', h, src(h.type) if h.type is not None else 'bare')
                self._connect([(disp.id, 'exc')], hn.id)
                n0 = self._n
                outs += self._seq(h.body, [(hn.id, 'next')], handler_k)
                self.in_handler.update(range(n0, self._n))
                if h.type is None or (isinstance(h.type, ast.Name) and h.type.id in ('Exception', 'BaseException')):
                    catch_all = True
                elif isinstance(h.type, ast.Tuple) and any(isinstance(e, ast.Name) and e.id in ('Exception', 'BaseException') for e in h.type.elts):
                    catch_all = True
            if not catch_all:
                self._connect([(disp.id, 'exc')], escape_target)
        if has_final:
            outs = self._seq(st.finalbody, outs, k) if outs else []
        return outs

    def _with(self, st, idx, preds, k: _K):
        if idx >= len(st.items):
            return self._seq(st.body, preds, k)
        item = st.items[idx]
        enter = self._new('with_enter', item, src(item.context_expr))
        self._connect(preds, enter.id)
        self._connect([(enter.id, 'exc')], k.exc)

        def fin(p):
            if not p:
                return p
            x = self._new('with_exit', item, src(item.context_expr))
            self._connect(p, x.id)
            return [(x.id, 'next')]

        esc = self._new('with_exit', item, src(item.context_expr) + ' (on exception)')
        self._connect([(esc.id, 'exc')], k.exc)
        inner_k = k.with_(exc=esc.id, finalizers=k.finalizers + [fin])
        outs = self._with(st, idx + 1, [(enter.id, 'next')], inner_k)
        return fin(outs)

    # ------------------------------------------------------------------ edge splitting for facts
    def _split_edges(self):
        for u, v, data in list(self.g.edges(data=True)):
            if self.nodes[u].kind != 'test':
                continue
            labs = [l for l in data['labels'] if l in ('T', 'F')]
            other = [l for l in data['labels'] if l not in ('T', 'F')]
            if not labs:
                continue
            self.g.remove_edge(u, v)
            if other:
                self.g.add_edge(u, v, labels=other)
            for lab in labs:
                e = self._new('edge', self.nodes[u].ast, lab)
                e.owner = self.nodes[u].owner
                e.polarity_of = (u, lab)
                self.g.add_edge(u, e.id, labels=[lab])
                self.g.add_edge(e.id, v, labels=['next'])

    # ------------------------------------------------------------------ analyses
    def reachable_nodes(self) -> Set[int]:
        return set(nx.descendants(self.g, self.entry.id)) | {self.entry.id}

    def idom(self):
        if self._idom is None:
            self._idom = nx.immediate_dominators(self.g, self.entry.id)
        return self._idom

    def dominators_of(self, n: int) -> List[int]:
        idom = self.idom()
        out = []
        if n not in idom and n != self.entry.id:
            return out
        cur = n
        while True:
            out.append(cur)
            if cur == self.entry.id or cur not in idom:
                break
            nxt = idom[cur]
            if nxt == cur:
                break
            cur = nxt
        return out

    def dominates(self, a: int, b: int) -> bool:
        return a in self.dominators_of(b)

    def facts_at(self, n: int) -> List[Tuple[ast.AST, bool]]:
        """Branch facts that hold on every path from entry to n: [(test expr, polarity)]."""
        out = []
        for d in self.dominators_of(n):
            nd = self.nodes[d]
            if nd.kind == 'edge' and d != n:
                out.append((nd.ast, nd.label == 'T'))
        return out

    def facts_owned(self, n: int):
        """like facts_at, with the FunctionDef each test belongs to (the function itself or an inlined helper)"""
        out = []
        for d in self.dominators_of(n):
            nd = self.nodes[d]
            if nd.kind == 'edge' and d != n:
                out.append((nd.ast, nd.label == 'T', nd.owner))
        return out

    def nodes_of(self, pred) -> List[Node]:
        reach = self.reachable_nodes()
        return [n for n in self.nodes.values() if n.id in reach and pred(n)]

    def nodes_containing(self, ast_node) -> List[Node]:
        """CFG nodes whose AST contains the given AST node (several when finally bodies were duplicated)."""
        out = []
        for n in self.nodes.values():
            if n.ast is None or n.kind in ('edge', 'dispatch', 'handler', 'with_exit'):
                continue
            root = n.ast
            if n.kind == 'for':
                roots = [root.iter, root.target]
            elif n.kind == 'with_enter':
                roots = [root.context_expr] + ([root.optional_vars] if root.optional_vars else [])
            elif isinstance(root, (ast.FunctionDef, ast.AsyncFunctionDef, ast.ClassDef)):
                roots = list(root.decorator_list)
            else:
                roots = [root]
            for r in roots:
                if any(x is ast_node for x in ast.walk(r)):
                    out.append(n)
                    break
        return out

    def path_exists(self, srcs: Iterable[int], dsts: Iterable[int], avoid: Iterable[int] = ()) -> bool:
        avoid = set(avoid)
        dsts = set(dsts)
        seen = set()
        work = [s for s in srcs if s not in avoid]
        if any(s in dsts for s in work):
            return True
        while work:
            u = work.pop()
            if u in seen:
                continue
            seen.add(u)
            for v in self.g.successors(u):
                if v in avoid:
                    continue
                if v in dsts:
                    return True
                if v not in seen:
                    work.append(v)
        return False

    def find_path(self, srcs: Iterable[int], dsts: Iterable[int], avoid: Iterable[int] = (), no_exc_from: Iterable[int] = ()) -> Optional[List[int]]:
        """Shortest path; `no_exc_from`: exception edges leaving these nodes are ignored (e.g. failures of cleanup code)."""
        avoid = set(avoid)
        dsts = set(dsts)
        no_exc_from = set(no_exc_from)
        from collections import deque
        q = deque()
        prev = {}
        for s in srcs:
            if s in avoid:
                continue
            if s in dsts:
                return [s]
            q.append(s)
            prev[s] = None
        while q:
            u = q.popleft()
            for v in self.g.successors(u):
                if v in avoid or v in prev:
                    continue
                if u in no_exc_from and self.g[u][v]['labels'] == ['exc'] and not isinstance(self.nodes[u].ast, ast.Raise):
                    continue
                prev[v] = u
                if v in dsts:
                    path = [v]
                    while prev[path[-1]] is not None:
                        path.append(prev[path[-1]])
                    return list(reversed(path))
                q.append(v)
        return None

    def succ_by_label(self, n: int, label: str) -> List[int]:
        return [v for v in self.g.successors(n) if label in self.g[n][v]['labels']]

    def describe_path(self, path: List[int]) -> List[str]:
        out = []
        for i in path:
            n = self.nodes[i]
            if n.kind == 'edge':
                out.append(f'    [{n.label}] {src(n.ast)[:70]}')
            elif n.kind in ('entry', 'exit', 'raise'):
                out.append(f'  <{n.kind}>')
            else:
                out.append(f'  L{n.lineno} {n.kind}{"(" + n.label + ")" if n.label else ""}: {src(n.ast).splitlines()[0][:80] if n.ast is not None else ""}')
        return out

    def size(self):
        return {'nodes': self.g.number_of_nodes(), 'edges': self.g.number_of_edges()}


_CFG_CACHE: Dict[Tuple, CFG] = {}


def cfg_of(func_info, inline=None, predicates=True) -> CFG:
    key = (id(func_info.node), inline is not None, predicates)
    if key not in _CFG_CACHE:
        _CFG_CACHE[key] = CFG(func_info.node, inline, predicates)
    return _CFG_CACHE[key]
