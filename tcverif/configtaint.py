"""Which expressions can hold a string taken from config / context data (and therefore a substituted placeholder
string, a `str` subclass)?  A small name-based taint analysis in the style of namekinds.py: sources are item reads of
config-like objects; taint propagates through single assignments, loop targets, `list_or_str_to_list`, regex match
groups (NOT tainted: `re.Match.__getitem__` returns exact `str`) and call arguments of functions whose call sites are
visible in the package.
"""
from __future__ import annotations

import ast
from typing import Dict, Optional, Tuple

from .core import Analysis
from .model import FuncInfo, src

CONFIG_CLASSES = ('Config', 'Context', 'TaskParameterConfig')


class ConfigTaint:
    def __init__(self, A: Analysis):
        self.A = A
        self.T = A.typer
        self._memo: Dict[Tuple[int, int], bool] = {}
        self._stack = set()
        self._names: Dict[Tuple[str, str], bool] = {}
        self._sites = None

    def _ctx(self, func: FuncInfo):
        cs = self.T.contexts_of(func)
        if cs:
            return cs[0]
        root = func
        while root.parent is not None:
            root = root.parent
        rc = self.T.contexts_of(root)
        from .types import Ctx
        return Ctx(func, rc[0].recv if rc else None)

    def _is_config(self, expr, func) -> bool:
        if isinstance(expr, ast.Attribute) and expr.attr in ('_data', 'data') and self._is_config(expr.value, func):
            return True
        try:
            ts = self.T.expr(expr, self._ctx(func))
        except Exception:
            ts = ()
        return any(t[0] == 'inst' and any(c.name in CONFIG_CLASSES for c in t[1].in_pkg_mro()) for t in ts)

    def tainted(self, expr, func: FuncInfo) -> bool:
        key = (id(expr), id(func.node))
        if key in self._memo:
            return self._memo[key]
        if key in self._stack:
            return False
        self._stack.add(key)
        try:
            r = self._tainted(expr, func)
        finally:
            self._stack.discard(key)
        self._memo[key] = r
        return r

    def _tainted(self, expr, func) -> bool:
        if isinstance(expr, ast.Subscript):
            if self._is_config(expr.value, func):
                return True          # config['uses'], self._data['tasks'], context.for_namespaces[ns] ...
            if isinstance(expr.value, ast.Name) and self.tainted(expr.value, func):
                # element of a tainted container; but a regex match group is an exact str
                return not self._is_match(expr.value, func)
            return self.tainted(expr.value, func) if isinstance(expr.value, ast.Subscript) else False
        if isinstance(expr, ast.Call):
            f = expr.func
            if isinstance(f, ast.Attribute) and f.attr == 'get' and self._is_config(f.value, func):
                return True
            if isinstance(f, ast.Name) and f.id in ('list_or_str_to_list', 'list', 'sorted', 'tuple', 'reversed', 'deepcopy', 'copy') and expr.args:
                return self.tainted(expr.args[0], func)
            return False
        if isinstance(expr, ast.IfExp):
            return self.tainted(expr.body, func) or self.tainted(expr.orelse, func)
        if isinstance(expr, ast.NamedExpr):
            return self.tainted(expr.value, func)
        if isinstance(expr, ast.Name):
            return self._name(expr.id, func)
        return False

    def _is_match(self, name_expr, func) -> bool:
        defs = self.A.sym._local_defs(func).get(name_expr.id, [])
        return any(k == 'assign' and isinstance(v, ast.Call) and src(v.func) in ('re.match', 're.fullmatch', 're.search') for k, v in defs) or \
            any(isinstance(n, ast.NamedExpr) and isinstance(n.target, ast.Name) and n.target.id == name_expr.id and isinstance(n.value, ast.Call) and src(n.value.func).startswith('re.')
                for n in self.T.own_nodes(func))

    def _name(self, name: str, func: FuncInfo) -> bool:
        f = func
        while f is not None:
            if name in self.T._binding_names(f):
                break
            f = f.parent
        if f is None:
            return False
        ck = (f.qualname, name)
        if ck in self._names:
            return self._names[ck]
        self._names[ck] = False
        r = False
        for n in self.T.own_nodes(f):
            if isinstance(n, ast.Assign):
                for t in n.targets:
                    if isinstance(t, ast.Name) and t.id == name and self.tainted(n.value, f):
                        r = True
            elif isinstance(n, ast.NamedExpr) and isinstance(n.target, ast.Name) and n.target.id == name and self.tainted(n.value, f):
                r = True
            elif isinstance(n, (ast.For, ast.comprehension)):
                if any(isinstance(x, ast.Name) and x.id == name for x in ast.walk(n.target)) and self.tainted(n.iter, f):
                    r = True
        if name in f.params and not r:
            idx = f.params.index(name)
            for caller, call, shift in self._call_sites(f):
                pos = idx - shift
                arg = call.args[pos] if 0 <= pos < len(call.args) and not isinstance(call.args[pos], ast.Starred) else None
                for kw in call.keywords:
                    if kw.arg == name:
                        arg = kw.value
                if arg is not None and self.tainted(arg, caller):
                    r = True
                    break
        self._names[ck] = r
        return r

    def _call_sites(self, f: FuncInfo):
        if self._sites is None:
            self._sites = {}
            for g in self.A.prog.functions.values():
                for n in self.T.own_nodes(g):
                    if isinstance(n, ast.Call):
                        nm = n.func.id if isinstance(n.func, ast.Name) else (n.func.attr if isinstance(n.func, ast.Attribute) else None)
                        if nm:
                            self._sites.setdefault(nm, []).append((g, n))
        out = []
        for g, n in self._sites.get(f.name, []):
            shift = 1 if (f.cls is not None and f.parent is None and not f.is_static and isinstance(n.func, ast.Attribute)) else 0
            out.append((g, n, shift))
        return out


def exact_str_tests(A: Analysis, func: FuncInfo):
    """Yield (compare node, tested expression): `type(E) is str`, `type(E) == str`, `type(E) is not str`, `type(E) in (.. str ..)`."""
    for n in A.typer.own_nodes(func):
        if isinstance(n, ast.Compare) and len(n.ops) == 1 and isinstance(n.left, ast.Call) and src(n.left.func) == 'type' and len(n.left.args) == 1:
            rhs = n.comparators[0]
            names = {x.id for x in ast.walk(rhs) if isinstance(x, ast.Name)}
            if 'str' in names and isinstance(n.ops[0], (ast.Is, ast.IsNot, ast.Eq, ast.NotEq, ast.In, ast.NotIn)):
                yield n, n.left.args[0]
