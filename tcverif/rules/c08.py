"""C08 - the dependency graph is exactly the declared one, and acyclic.

R08.1 acyclicity gate on every construction path (all _prepare implementations);  R08.2 a missing required input raises;
R08.3 discovery: exclusions before registration, only abstract/excluded skipped, `~` patterns namespace-exact;
R08.4 structured-name tests are separator-aware (name-kind lint);  R08.5 closures (shared with C07);
R08.6 declared inputs are resolved namespace-exact after qualification with the declaring config's namespace.
"""
from __future__ import annotations

import ast
import os

import networkx as nx

from ..model import src
from ..namekinds import NameKinds, mentions_separator, textual_tests
from ..report import Report, key_of
from ..terms import assume, dag_nodes, has_opaque, pretty
from .c07 import graph_orientation
from .common import TRUSTED_BASE, bound_args, cfg_nodes_for, expanded_facts, inl, loop_runs_to_end, loop_unconditional, normal_succ, subst_single_assign, where


_CONTROL_SRC = '''


def _tcverif_control_bad(tasks: Dict[str, Task], task: Task):
    for full_name in tasks:
        if full_name.endswith(task.slugname):
            return full_name


def _tcverif_control_good(tasks: Dict[str, Task], task: Task):
    for full_name in tasks:
        if full_name.endswith(f'::{task.slugname}'):
            return full_name
'''


def name_test_control(A, R: Report, rid: str):
    """Positive control of the name-kind lint (its expected number of reports on a correct tree is zero): two functions
    appended to task.py in memory - the separator-less suffix test must be flagged, the separator-carrying one must not."""
    from ..core import Analysis
    rel = 'src/taskchain/task.py'
    base = (A.prog.overlay or {}).get(rel)
    if base is None:
        with open(os.path.join(A.prog.root, rel), encoding='utf-8') as fh:
            base = fh.read()
    ov = dict(A.prog.overlay or {})
    ov[rel] = base + _CONTROL_SRC
    A2 = Analysis(root=A.prog.root, overlay=ov)
    NK = NameKinds(A2)
    got = {}
    for name in ('_tcverif_control_bad', '_tcverif_control_good'):
        f = A2.func(name)
        got[name] = [(op, mentions_separator(Y, A2, f)) for node, op, X, Y, kx, ky in textual_tests(A2, NK, f)]
    R.require(got['_tcverif_control_bad'] == [('endswith', False)] and got['_tcverif_control_good'] == [('endswith', True)],
              f'positive control of the name-kind lint failed: {got} - the lint is blind')
    R.ok(rid, 'positive control', 'a separator-less suffix test between a full name and a slug name is flagged, its separator-carrying twin is not', where='(in-memory control appended to src/taskchain/task.py)')


def check_name_tests(A, R: Report, rid: str, funcs=None, only=None):
    """R08.4 family.  `only`: restrict to functions (short names); returns number of instances."""
    NK = NameKinds(A)
    n = 0
    name_test_control(A, R, rid)
    for f in A.prog.functions.values():
        if only is not None and f.short not in only:
            continue
        for node, op, X, Y, kx, ky in textual_tests(A, NK, f):
            n += 1
            construct = f'{f.short}: `{src(node)[:70]}`'
            if mentions_separator(Y, A, f):
                R.ok(rid, construct, f'{op} test carries the separator', where=where(f, node))
                continue
            # an adjacent conjunct / disjunct that pins the separator position or tests equality makes the pair exact
            par = getattr(node, '_parent', None)
            if isinstance(par, ast.UnaryOp):
                par = getattr(par, '_parent', None)
            sib_ok = False
            if isinstance(par, ast.BoolOp):
                for v in par.values:
                    if v is not node and mentions_separator(v) and src(X) in src(v):
                        sib_ok = True
            if sib_ok:
                R.ok(rid, construct, 'adjacent test pins the separator', where=where(f, node))
                continue
            R.violation(rid, construct, key_of(f.short, op, src(X), src(Y)),
                        f'`{src(node)}` compares structured names textually ({kx} {op} {ky or "pattern"}): names that are textual affixes of one another (`n` / `xn`, `train` / `train_x`) are confused',
                        where=where(f, node))
    # segment extraction: `x.split(sep, k)[-1]` is the remainder after the first k separators, not the last segment
    # (and `x.rsplit(sep, k)[0]` the remainder before the last k); on names with several levels the two differ
    for f in A.prog.functions.values():
        if only is not None and f.short not in only:
            continue
        for node in A.typer.own_nodes(f):
            if isinstance(node, ast.Subscript) and isinstance(node.value, ast.Call) and isinstance(node.value.func, ast.Attribute) and node.value.func.attr in ('split', 'rsplit') \
                    and node.value.args and isinstance(node.value.args[0], ast.Constant) and isinstance(node.value.args[0].value, str) and ':' in node.value.args[0].value:
                c = node.value
                has_max = len(c.args) >= 2 or any(kw.arg == 'maxsplit' for kw in c.keywords)
                idx = node.slice.value if isinstance(node.slice, ast.Constant) else (-node.slice.operand.value if isinstance(node.slice, ast.UnaryOp) and isinstance(node.slice.op, ast.USub) and isinstance(node.slice.operand, ast.Constant) else None)
                if not has_max or idx is None:
                    continue
                n += 1
                maxs = c.args[1] if len(c.args) >= 2 else next((kw.value for kw in c.keywords if kw.arg == 'maxsplit'), None)
                mval = maxs.value if isinstance(maxs, ast.Constant) and isinstance(maxs.value, int) else None
                wrong = (c.func.attr == 'split' and (idx == -1 or (mval is not None and idx == mval))) or (c.func.attr == 'rsplit' and (idx == 0 or (mval is not None and idx == -(mval + 1))))
                construct = f'{f.short}: `{src(node)[:70]}`'
                R.check(not wrong, rid, construct, key_of(f.short, 'segment', src(node)), 'bounded split used for the bounded side',
                        f'`{src(node)}` takes the remainder of a bounded split as if it were the {"last" if idx == -1 else "first"} segment: names with more than one `{c.args[0].value}` level (nested groups / namespaces) are cut at the wrong place',
                        where=where(f, node))
    return n


def _parents(n):
    p = getattr(n, '_parent', None)
    while p is not None and not isinstance(p, (ast.FunctionDef, ast.AsyncFunctionDef)):
        yield p
        p = getattr(p, '_parent', None)


def _split_derived(A, f, expr, which):
    """expr denotes the namespace segments (`which`='ns') or the last segment ('last') of a name split on '::'."""
    e = subst_single_assign(A, f, expr)
    from .common import src_resolved
    t = src_resolved(A, f, expr)      # intermediate locals (`parts = name.split('::')`) resolved recursively
    if which == 'ns' and "split('::')[:-1]" in t:
        return True
    if which == 'last' and "split('::')[-1]" in t:
        return True
    if isinstance(e, ast.Name):
        # star-unpacking:  *namespace, last = name.split('::')
        for n in A.typer.own_nodes(f):
            if isinstance(n, ast.Assign) and isinstance(n.targets[0], ast.Tuple) and "split('::')" in src(n.value) and len(n.targets[0].elts) == 2:
                a, b = n.targets[0].elts
                if which == 'ns' and isinstance(a, ast.Starred) and src(a.value) == e.id:
                    return True
                if which == 'last' and isinstance(a, ast.Starred) and src(b) == e.id:
                    return True
            if isinstance(n, ast.Assign) and len(n.targets) == 1 and src(n.targets[0]) == e.id and 'rsplit' in src(n.value) or (isinstance(n, ast.Assign) and src(n.targets[0]) == e.id and 'rpartition' in src(n.value)):
                return True
    return False


def check_expand_tasks(A, R: Report, rid: str):
    """Every path on which a task name is added for a `~pattern` passes (a) a full match of the pattern against the last
    `::` segment of the candidate and (b) either a segment-wise comparison of the namespaces or the `~~` test."""
    fex = A.func('Chain._expand_tasks')
    cfg = A.cfg(fex)
    tp = fex.params[1]
    loops, appends = [], []
    for n in inl(A, fex):
        if not isinstance(n, ast.For):
            continue
        it = src(n.iter)
        if it in (tp, f'{tp}.keys()', f'list({tp})', f'sorted({tp})', f'list({tp}.keys())', f'sorted({tp}.keys())') and isinstance(n.target, ast.Name):
            namevar = n.target.id
        elif it == f'{tp}.items()' and isinstance(n.target, ast.Tuple) and isinstance(n.target.elts[0], ast.Name):
            namevar = n.target.elts[0].id
        else:
            continue
        loops.append(n)
        appends += [x for x in ast.walk(n) if isinstance(x, ast.Call) and isinstance(x.func, ast.Attribute) and x.func.attr in ('append', 'add') and x.args and src(subst_single_assign(A, fex, x.args[0])) == namevar]
    if not appends:
        R.undecided(rid, 'Chain._expand_tasks', 'pattern expansion loop not recognised', where=where(fex))
        return
    ns_gates, fm_gates = [], []
    for n in cfg.nodes.values():
        if n.kind != 'edge' or n.label != 'T':
            continue
        a = n.ast
        if isinstance(a, ast.Compare) and len(a.ops) == 1 and isinstance(a.ops[0], ast.Eq) and _split_derived(A, fex, a.left, 'ns') and _split_derived(A, fex, a.comparators[0], 'ns'):
            ns_gates.append(n.id)
        if isinstance(a, ast.Call) and isinstance(a.func, ast.Attribute) and a.func.attr == 'startswith' and a.args and isinstance(a.args[0], ast.Constant) and a.args[0].value == '~~':
            ns_gates.append(n.id)
        if isinstance(a, ast.Call) and src(a.func).endswith('fullmatch') and a.args and _split_derived(A, fex, a.args[-1], 'last'):
            fm_gates.append(n.id)
        # `re.fullmatch(...) is not None`
        if isinstance(a, ast.Compare) and len(a.ops) == 1 and isinstance(a.ops[0], ast.IsNot) and isinstance(a.comparators[0], ast.Constant) and a.comparators[0].value is None \
                and isinstance(a.left, ast.Call) and src(a.left.func).endswith('fullmatch') and a.left.args and _split_derived(A, fex, a.left.args[-1], 'last'):
            fm_gates.append(n.id)
    for n in cfg.nodes.values():
        if n.kind == 'edge' and n.label == 'F' and isinstance(n.ast, ast.Compare) and len(n.ast.ops) == 1 and isinstance(n.ast.ops[0], ast.Is) and isinstance(n.ast.comparators[0], ast.Constant) \
                and n.ast.comparators[0].value is None and isinstance(n.ast.left, ast.Call) and src(n.ast.left.func).endswith('fullmatch') and n.ast.left.args and _split_derived(A, fex, n.ast.left.args[-1], 'last'):
            fm_gates.append(n.id)
    heads = [n.id for n in cfg.nodes.values() if n.kind == 'for' and n.ast in loops]
    app_nodes = [cn.id for a in appends for cn in cfg_nodes_for(cfg, a)]
    p_ns = cfg.find_path(heads, app_nodes, avoid=ns_gates)
    p_fm = cfg.find_path(heads, app_nodes, avoid=fm_gates)
    ns_ok, fm_ok = bool(ns_gates) and p_ns is None, bool(fm_gates) and p_fm is None
    R.check(ns_ok and fm_ok, rid, 'Chain._expand_tasks', key_of('pattern', ns_ok, fm_ok), 'namespace compared segment-wise, name matched with fullmatch on the last segment',
            'pattern inputs are not restricted to the own namespace segment-wise / not matched with fullmatch: a pattern can pull in tasks of other namespaces or partial names',
            witness=cfg.describe_path(p_ns or p_fm) if (p_ns or p_fm) else None, where=where(fex))


def edge_coverage(A, g):
    """(ok, why): the graph built in g gets an edge for every Task-valued entry of every task's input_tasks: either
    add_edge in a loop nest (tasks x their inputs) skipped only for non-Task inputs, or add_edges_from over a
    comprehension with exactly that domain and filter."""
    cfg = A.cfg(g)
    allnodes = list(cfg.nodes)
    found = []
    for n in inl(A, g):
        if not (isinstance(n, ast.Call) and isinstance(n.func, ast.Attribute)):
            continue
        if n.func.attr == 'add_edge' and len(n.args) >= 2:
            nest = [p for p in _parents(n) if isinstance(p, ast.For)]

            def _it(lp):
                # what the loop iterates, with a single-assignment local (`all_tasks = self.tasks.values()`) replaced by its definition
                return src(subst_single_assign(A, g, lp.iter)) if isinstance(lp.iter, ast.Name) else src(lp.iter)
            inner = next((lp for lp in nest if 'input_tasks' in _it(lp)), None)
            outer = next((lp for lp in nest if 'self.tasks' in _it(lp) and 'input_tasks' not in _it(lp)), None)
            if inner is None and outer is not None:
                # the inputs were collected into a local list first: [(inp, task) for inp in task.input_tasks.values() if isinstance(inp, Task)]
                for lp in nest:
                    comp = subst_single_assign(A, g, lp.iter) if isinstance(lp.iter, ast.Name) else None
                    if isinstance(comp, (ast.ListComp, ast.GeneratorExp)) and len(comp.generators) == 1 and 'input_tasks' in src(comp.generators[0].iter):
                        gvars = [x.id for x in ast.walk(comp.generators[0].target) if isinstance(x, ast.Name)]
                        only_task_filter = all(isinstance(c_, ast.Call) and src(c_.func) == 'isinstance' and len(c_.args) == 2 and src(c_.args[0]) in gvars and src(c_.args[1]) == 'Task' for c_ in comp.generators[0].ifs)
                        if only_task_filter and loop_runs_to_end(lp) and loop_runs_to_end(outer) and loop_unconditional(cfg, lp, n):
                            found.append((True, ''))
                        else:
                            found.append((False, 'an input can be skipped for another reason than not being a Task'))
                        inner = 'handled'
                        break
                if inner == 'handled':
                    continue
            if inner is None or outer is None:
                found.append((False, 'add_edge is not inside a loop over the tasks and a loop over their input_tasks'))
                continue
            ivars = [x.id for x in ast.walk(inner.target) if isinstance(x, ast.Name)]
            heads = [h.id for h in cfg.nodes.values() if h.kind == 'for' and h.ast is inner]
            starts = [v for h in heads for v in cfg.succ_by_label(h, 'loop')]
            gates = [cn.id for cn in cfg_nodes_for(cfg, n)]
            for e in cfg.nodes.values():
                if e.kind == 'edge' and e.label == 'F' and isinstance(e.ast, ast.Call) and src(e.ast.func) == 'isinstance' and len(e.ast.args) == 2 and src(e.ast.args[0]) in ivars and src(e.ast.args[1]) == 'Task':
                    gates.append(e.id)
            skip = cfg.find_path(starts, heads, avoid=gates, no_exc_from=allnodes)
            full = loop_runs_to_end(inner) and loop_runs_to_end(outer) and loop_unconditional(cfg, outer, inner) if False else (loop_runs_to_end(inner) and loop_runs_to_end(outer))
            found.append((skip is None and full, 'an input can be skipped for another reason than not being a Task' if skip is not None else ('a loop ends early' if not full else '')))
        elif n.func.attr == 'add_edges_from' and n.args:
            e = subst_single_assign(A, g, n.args[0])
            if not isinstance(e, (ast.GeneratorExp, ast.ListComp, ast.SetComp)):
                found.append((None, 'edge collection not recognised'))
                continue
            gens = e.generators
            outer = next((x for x in gens if 'self.tasks' in src(x.iter) and 'input_tasks' not in src(x.iter)), None)
            inner = next((x for x in gens if 'input_tasks' in src(x.iter)), None)
            if outer is None and inner is not None:
                # the tasks are walked by an enclosing loop, each iteration adds the edges of one task
                lp = next((p_ for p_ in _parents(n) if isinstance(p_, ast.For) and 'self.tasks' in src(p_.iter) and 'input_tasks' not in src(p_.iter)), None)
                if lp is not None:
                    if not (loop_runs_to_end(lp) and loop_unconditional(cfg, lp, n)):
                        found.append((False, 'the loop over the tasks ends early or skips the edges of a task'))
                        continue
                    outer = lp
            if outer is None or inner is None:
                found.append((False, 'edges are not generated over the tasks and their input_tasks'))
                continue
            ivars = [x.id for x in ast.walk(inner.target) if isinstance(x, ast.Name)]
            filt_ok = all(isinstance(c, ast.Call) and src(c.func) == 'isinstance' and len(c.args) == 2 and src(c.args[0]) in ivars and src(c.args[1]) == 'Task' for x in gens for c in x.ifs)
            found.append((filt_ok, '' if filt_ok else 'edges are filtered by another condition than the input being a Task'))
    if not found:
        return False, 'no edges are added'
    if any(o is None for o, _ in found):
        return True, 'undecided'
    bad = [w for o, w in found if not o]
    return (not bad), (bad[0] if bad else '')


def check_declaration_loop(A, R: Report, rid: str):
    """Every declared input of every task is processed: the loops of _process_dependencies never stop early."""
    fpd = A.func('Chain._process_dependencies')
    loops = [n for n in A.typer.own_nodes(fpd) if isinstance(n, ast.For)]   # the declaration loops themselves (search loops of helpers may return early)
    bad = [lp for lp in loops if not loop_runs_to_end(lp)]
    R.check(not bad, rid, 'Chain._process_dependencies: loops', key_of('declaration-loop', len(bad)), 'all tasks and all their declarations are processed',
            f'the loop `for {src(bad[0].target)} in {src(bad[0].iter)[:50]}` can end early (break / return): declarations after that point are neither resolved nor checked, so a missing required input is not reported and supplied inputs stay unbound' if bad else '',
            where=where(fpd, bad[0]) if bad else where(fpd))


def check_bound_input(A, R: Report, rid: str):
    """`input_tasks[K] = tasks[I]` in Chain._process_dependencies: the task bound to an input is the one registered under the very name
    the input is stored under (I == K on every path) - for a reference by class that is the class's own qualified name, not whatever
    the short-name search returned."""
    fpd = A.func('Chain._process_dependencies')
    tparam = fpd.params[0]
    stores = [n for n in inl(A, fpd) if isinstance(n, ast.Assign) and len(n.targets) == 1 and isinstance(n.targets[0], ast.Subscript) and isinstance(n.value, ast.Subscript)
              and src(subst_single_assign(A, fpd, n.value.value)) == tparam]
    if not stores:
        R.undecided(rid, 'Chain._process_dependencies: bound task', 'store of the resolved task not recognised', where=where(fpd))
        return
    stop_old = A.sym.stop_at
    A.sym.stop_at = {fi.qualname for fi in A.prog.functions.values() if fi.name in ('slugname', 'get_config', '_expand_tasks', '_find_task_full_name')}
    try:
        at = A.sym.terms_at(fpd, None, [x for st in stores for x in (st.targets[0].slice, st.value.slice)])
    finally:
        A.sym.stop_at = stop_old
    for st in stores:
        ks, is_ = at.get(id(st.targets[0].slice), []), at.get(id(st.value.slice), [])
        if not ks or not is_ or any(has_opaque(t) for t in ks + is_):
            R.undecided(rid, 'Chain._process_dependencies: bound task', 'key / index of the bound task could not be evaluated symbolically', where=where(fpd, st))
            continue
        same = len(ks) == len(is_) and all(a == b for a, b in zip(ks, is_))
        R.check(same, rid, f'Chain._process_dependencies: `{src(st)[:60]}`', key_of('bound-task', same), 'the task registered under the input\'s own key',
                f'the task bound to an input is `{tparam}[{pretty(is_[0])[:80]}]` while the input is stored under `{pretty(ks[0])[:80]}`: for an input referenced by class the short-name search decides, so a missing `price` '
                'silently binds the unrelated `eu:price` instead of being reported', where=where(fpd, st))


def check_resolver_call(A, R: Report, rid: str, rid9=None):
    """The name Chain._process_dependencies hands to the resolver is `<own namespace>::name` (or already prefixed), and the
    resolver is told not to guess namespaces."""
    fpd = A.func('Chain._process_dependencies')
    resolver_calls = [n for n in A.typer.own_nodes(fpd) if isinstance(n, ast.Call) and isinstance(n.func, ast.Name) and n.func.id == '_find_task_full_name']
    R.require(resolver_calls, 'anchor: _find_task_full_name call not found in _process_dependencies')
    fres = A.func('_find_task_full_name')
    stop_old = A.sym.stop_at
    A.sym.stop_at = {fi.qualname for fi in A.prog.functions.values() if fi.name in ('slugname', 'get_config', '_expand_tasks')}
    try:
        at = A.sym.terms_at(fpd, None, [c.args[0] for c in resolver_calls if c.args])
    finally:
        A.sym.stop_at = stop_old
    for c in resolver_calls:
        ba = bound_args(c, fres, skip_self=False) or {}
        dn = ba.get('determine_namespace')
        exact = isinstance(dn, ast.Constant) and dn.value is False
        terms = at.get(id(c.args[0]), []) if c.args else []
        if not terms:
            R.undecided(rid, 'Chain._process_dependencies: resolver call', 'the name handed to the resolver could not be evaluated symbolically', where=where(fpd, c))
            continue
        verdicts = []
        for t in terms:
            nss = {x[1][0] for x in dag_nodes(t) if x[0] == 'cat' and len(x[1]) >= 2 and x[1][1] == ('lit', '::') and x[1][0][0] == 'attr' and x[1][0][2] == 'namespace'}
            if len(nss) != 1:
                # the namespace may reach the concatenation through a local that is None for non-string references: any `.namespace` read of the declaring config
                nss = {x for x in dag_nodes(t) if x[0] == 'attr' and x[2] == 'namespace'}
            if len(nss) != 1:
                verdicts.append((False, t))
                continue
            ns = next(iter(nss))

            def decide(c_, ns=ns):
                if c_ == ns:
                    return True
                if c_[0] == 'cmp' and c_[1] == 'Is' and c_[2][0] == 'call' and c_[2][1] == 'type' and c_[3] in (('global', 'str'), ('builtin', 'str')):
                    return True
                return None

            def qualified(r, ns=ns):
                # <ns>::<name>, or <name> itself where it already starts with <ns>::
                if r[0] == 'cat' and len(r[1]) == 3 and r[1][0] in (ns, ('str', ns)) and r[1][1] == ('lit', '::'):
                    return True
                if r[0] == 'cond':
                    test, neg = r[1], False
                    if test[0] == 'not':
                        test, neg = test[1], True
                    if test[0] == 'method' and test[2] == 'startswith' and test[3] in ((('cat', (ns, ('lit', '::'))),), (('cat', (('str', ns), ('lit', '::'))),)):
                        yes, no = (r[3], r[2]) if neg else (r[2], r[3])
                        return (yes == test[1] or qualified(yes)) and qualified(no)
                    return qualified(r[2]) and qualified(r[3])
                return False

            from ..terms import normalise as _norm
            verdicts.append((qualified(_norm(assume(t, decide))), t))
        bad = [t for ok_, t in verdicts if not ok_]
        if bad and any(has_opaque(t) for t in bad):
            R.undecided(rid, 'Chain._process_dependencies: resolver call', 'the name handed to the resolver involves a construct the term engine does not interpret', where=where(fpd, c))
            continue
        if rid9 is not None:
            # whether a name is relative to the declaring namespace is decided from its *text*: `ns::x` declared inside `ns` may mean
            # the task `ns::x` (absolute, e.g. produced by pattern expansion) or the task x of the inner namespace `ns::ns`
            textual = [t for t in terms if any(x[0] == 'method' and x[2] == 'startswith' and len(x[3]) == 1 and x[3][0][0] == 'cat' and ('lit', '::') in x[3][0][1] and
                                               any(y[0] == 'attr' and y[2] == 'namespace' for y in dag_nodes(x[3][0])) for x in dag_nodes(t))]
            R.check(not textual, rid9, 'Chain._process_dependencies: relative or absolute name', key_of('prefix-heuristic', bool(textual)), 'decided by where the name came from',
                    'a declared input name that starts with `<own namespace>::` is taken as already qualified: inside a config mounted `as token`, the input `token::tokenize` '
                    '(task of the inner namespace `token`) is looked up as `token::tokenize` instead of `token::token::tokenize` and construction fails with "not found"',
                    witness=[pretty(textual[0])[:200]] if textual else None, where=where(fpd, c))
        R.check(exact and not bad, rid, 'Chain._process_dependencies: resolver call', key_of('ns-exact', exact, not bad),
                'qualified with the own namespace, determine_namespace=False',
                'a declared input can be resolved without the declaring config\'s namespace (or with namespace guessing): it may bind a same-named task of another namespace',
                witness=[pretty(bad[0])[:300]] if bad else [pretty(terms[0])[:200]], where=where(fpd, c))



def run(A, R: Report, thorough: bool):
    R.explanation = ('CFG must-pass-through of the acyclicity gate in every _prepare implementation; handler analysis of the missing-input path; symbolic order of exclusion and '
                     'registration; a nominal type system over name strings (namespace / full name / slug) that flags textual prefix, suffix and substring tests between structured names; '
                     'CFG facts for namespace qualification before resolution. Not decided: edge identity for every configuration.')
    R.trusted = TRUSTED_BASE + ['networkx.is_directed_acyclic_graph']
    chain = A.cls('Chain')

    # ---- R08.1
    R.rule('R08.1', 'every path through every _prepare implementation passes the acyclicity gate, after the last assignment of self.tasks', floor=2)
    gates = []
    for f in A.prog.functions.values():
        cfg = None
        for n in A.typer.own_nodes(f):
            if isinstance(n, ast.Raise):
                cfg = cfg or A.cfg(f)
                for cn in cfg_nodes_for(cfg, n):
                    for a, pol in cfg.facts_at(cn.id):
                        if isinstance(a, ast.Call) and src(a.func).endswith('is_directed_acyclic_graph') and not pol:
                            gates.append(f)
    gates = list(dict.fromkeys(gates))
    other_idiom = [f for f in A.prog.functions.values() if f not in gates and any(
        isinstance(n, ast.Call) and src(n.func).split('.')[-1] in ('find_cycle', 'simple_cycles', 'topological_sort', 'is_directed_acyclic_graph') for n in A.typer.own_nodes(f))]
    if not gates and other_idiom:
        for f in other_idiom:
            R.undecided('R08.1', f.short, 'cycle detection idiom not recognised (no raise under `not is_directed_acyclic_graph(G)`)', where=where(f))
        return_after = True
    if not gates and not other_idiom:
        for c in chain.all_subclasses():
            f = c.methods.get('_prepare')
            if f is not None:
                R.violation('R08.1', f.short, key_of('no-gate', f.short), 'no acyclicity check exists on the construction path (nothing raises when the dependency graph has a cycle)', where=where(f))
    gate_names = {g.name for g in gates}
    for g in gates:
        # the graph receives an edge for every Task input of every task
        fb, edges = graph_orientation(A) if g.short == 'Chain._build_graph' else (g, [])
        ok_edges, why = edge_coverage(A, g)
        R.check(ok_edges, 'R08.1', f'{g.short}: edges', key_of('edges', why), 'one edge per Task-valued input of every task',
                f'the graph that is checked for cycles does not receive every declared input edge ({why})', where=where(g))
        # the test sees the complete graph: on every path, the last thing that happens to the graph before the function ends is the test, not an edge
        cfgg = A.cfg(g)
        tests_g = [n.id for n in cfgg.nodes.values() if n.kind == 'test' and any(isinstance(x, ast.Call) and src(x.func).endswith('is_directed_acyclic_graph') for x in ast.walk(n.ast))]
        adds_g = [n.id for n in cfgg.nodes.values() if n.kind == 'stmt' and n.ast is not None and any(
            isinstance(x, ast.Call) and isinstance(x.func, ast.Attribute) and x.func.attr in ('add_edge', 'add_edges_from', 'add_weighted_edges_from') for x in ast.walk(n.ast))]
        if tests_g and adds_g:
            unchecked = cfgg.find_path([v for a_ in adds_g for v in normal_succ(cfgg, a_)], [cfgg.exit.id], avoid=tests_g)
            R.check(unchecked is None, 'R08.1', f'{g.short}: gate after the last edge', key_of('edge-after-gate', unchecked is None), 'every added edge is followed by the acyclicity test',
                    'an edge can be added after the last acyclicity test (the test runs before the edge is added): a cycle closed by the last declared input is never seen, and a chain with a cyclic graph is returned',
                    witness=cfgg.describe_path(unchecked) if unchecked else None, where=where(g))
    n_prep = 0
    for c in chain.all_subclasses():
        f = c.methods.get('_prepare')
        if f is None:
            continue
        n_prep += 1
        cfg = A.cfg(f)
        gate_nodes = [n.id for n in cfg.nodes.values() if n.kind == 'stmt' and n.ast is not None and any(
            isinstance(x, ast.Call) and isinstance(x.func, ast.Attribute) and x.func.attr in gate_names and src(x.func.value) == 'self' for x in ast.walk(n.ast))]
        p = cfg.find_path([cfg.entry.id], [cfg.exit.id], avoid=gate_nodes)
        stores = [n.id for n in cfg.nodes.values() if n.kind == 'stmt' and isinstance(n.ast, ast.Assign) and any(src(t) == 'self.tasks' for t in n.ast.targets)]
        late = cfg.find_path(gate_nodes, stores) if gate_nodes and stores else None
        if p is not None:
            R.violation('R08.1', f'{f.short}', key_of('no-gate', f.short), 'a chain can be constructed without the acyclicity check: a dependency cycle yields a chain instead of an error',
                        witness=cfg.describe_path(p), where=where(f))
        elif late is not None:
            R.violation('R08.1', f'{f.short}', key_of('tasks-after-gate', f.short), 'self.tasks is replaced after the acyclicity check: the checked graph is not the chain\'s graph', witness=cfg.describe_path(late), where=where(f))
        else:
            R.ok('R08.1', f'{f.short}', f'{len(gate_nodes)} gate call(s) cut every path', where=where(f))
    R.require(n_prep >= 2, f'anchor: expected Chain._prepare and TestChain._prepare, found {n_prep}')

    # ---- R08.2 / R08.6
    fpd = A.func('Chain._process_dependencies')
    cfg = A.cfg(fpd)
    R.rule('R08.2', 'a KeyError from input resolution is converted to an error unless the input is optional; nothing else swallows it', floor=1)
    resolver_calls = [n for n in A.typer.own_nodes(fpd) if isinstance(n, ast.Call) and isinstance(n.func, ast.Name) and n.func.id == '_find_task_full_name']
    R.require(resolver_calls, 'anchor: _find_task_full_name call not found in _process_dependencies')
    handlers = [n for n in cfg.nodes.values() if n.kind == 'handler']
    key_handlers = [h for h in handlers if 'KeyError' in h.label or h.label in ('Exception', 'bare', 'BaseException')]
    if not key_handlers:
        R.ok('R08.2', 'Chain._process_dependencies', 'resolution errors propagate (no handler)', where=where(fpd))
    opt_edges = [n.id for n in cfg.nodes.values() if n.kind == 'edge' and ((src(n.ast) == 'required' and n.label == 'F') or (src(n.ast) in ('not required',) and n.label == 'T'))]
    loop_heads = [n.id for n in cfg.nodes.values() if n.kind == 'for']
    for h in key_handlers:
        p = cfg.find_path([h.id], [cfg.exit.id] + loop_heads, avoid=opt_edges)
        R.check(p is None, 'R08.2', 'Chain._process_dependencies: except ' + h.label, key_of('missing-input', h.label), 'continues only for optional inputs',
                'a missing *required* input can be skipped silently: the chain is built with a dangling declaration', witness=cfg.describe_path(p) if p else None, where=where(fpd, h.ast))

    check_declaration_loop(A, R, 'R08.2')
    R.rule('R08.6', 'the name handed to the resolver is qualified with the declaring config\'s namespace whenever it has one, and resolution is namespace-exact', floor=1)
    R.rule('R08.10', 'the task bound to a declared input is the one registered under the name the input is stored under', floor=1)
    check_bound_input(A, R, 'R08.10')
    R.rule('R08.9', 'whether a declared input name is relative to the declaring namespace does not depend on the spelling of the name', floor=1)
    check_resolver_call(A, R, 'R08.6', 'R08.9')

    # ---- R08.3
    R.rule('R08.3', 'exclusions are collected before any registration; only abstract and excluded classes are skipped; single-~ patterns match the own namespace segment-wise with fullmatch', floor=3)
    fct = A.func('Chain._create_tasks')
    scope = [fct] + list(fct.nested.values())
    # module-level private helpers the declarations are read through (a generator that yields the declared classes, ...)
    for f_ in list(scope):
        for n_ in A.typer.own_nodes(f_):
            if isinstance(n_, ast.Call) and isinstance(n_.func, ast.Name) and n_.func.id.startswith('_'):
                h_ = next((g for g in A.prog.functions.values() if g.name == n_.func.id and g.cls is None and g.parent is None and g.module is fct.module), None)
                if h_ is not None and h_ not in scope:
                    scope.append(h_)
    order_lists = [n for n in A.typer.own_nodes(fct) if isinstance(n, ast.For) and isinstance(n.iter, (ast.List, ast.Tuple)) and n.iter.elts and all(isinstance(e, ast.Tuple) for e in n.iter.elts)]
    cfg_loops = [n for n in A.typer.own_nodes(fct) if isinstance(n, ast.For) and '_configs' in src(n.iter)]
    # the exclusion set: a local bound to a set (empty and filled by .add, or built in one expression from the `excluded_tasks` field)
    ex_sets = [n for n in A.typer.own_nodes(fct) if isinstance(n, ast.Assign) and len(n.targets) == 1 and isinstance(n.targets[0], ast.Name) and 'exclu' in n.targets[0].id
               and ((isinstance(n.value, ast.Call) and src(n.value.func) in ('set', 'frozenset')) or isinstance(n.value, (ast.SetComp, ast.Set)))]
    creates = [n for f_ in scope for n in A.typer.own_nodes(f_) if isinstance(n, ast.Call) and isinstance(n.func, ast.Attribute) and n.func.attr == '_create_task']
    if order_lists:
        firsts = [src(e.elts[0]) for e in order_lists[0].iter.elts]
        R.check(firsts and 'excluded' in firsts[0] and all('excluded' not in x for x in firsts[1:]), 'R08.3', 'Chain._create_tasks: field order', key_of('order', firsts), f'fields processed in order {firsts}',
                f'task fields are processed in order {firsts}: a task can be registered before its exclusion is known', where=where(fct, order_lists[0]))
    elif ex_sets and creates and all(isinstance(n.value, (ast.SetComp, ast.Set)) or n.value.args for n in ex_sets):
        # the whole exclusion set is computed by one expression: it must dominate every task creation
        cfgc = A.cfg(fct)
        exn = [cn.id for n in ex_sets for cn in cfg_nodes_for(cfgc, n)]
        crn = [cn.id for n in creates for cn in cfg_nodes_for(cfgc, n)]
        if not crn:
            R.undecided('R08.3', 'Chain._create_tasks: field order', 'task creation happens in a nested function; ordering against the exclusion set not recognised', where=where(fct))
        else:
            dom = all(any(cfgc.dominates(e, c) for e in exn) for c in crn)
            mention = all("'excluded_tasks'" in src(n.value) for n in ex_sets)
            R.check(dom and mention, 'R08.3', 'Chain._create_tasks: field order', key_of('order-dom', dom, mention), 'the exclusion set is complete before the first task is created',
                    'a task can be registered before its exclusion is known', where=where(fct, ex_sets[0]))
    else:
        R.undecided('R08.3', 'Chain._create_tasks: field order', 'exclusion/registration ordering idiom not recognised', where=where(fct))
    # the exclusion set is per config: it must be created inside the loop over the configs
    if not cfg_loops or not ex_sets:
        R.undecided('R08.3', 'Chain._create_tasks: exclusion scope', 'per-config exclusion set not recognised', where=where(fct))
    else:
        inside = all(any(p is lp for lp in cfg_loops for p in _parents(n)) for n in ex_sets)
        R.check(inside, 'R08.3', 'Chain._create_tasks: exclusion scope', key_of('exclusion-scope', inside), 'exclusions are collected per config',
                'the exclusion set outlives one config: a class excluded by one config is also dropped from every config processed after it', where=where(fct, ex_sets[0]))
    # filters: the abstract test and the exclusion membership test exist; no other condition drops a declared class
    exnames = {n.targets[0].id for n in ex_sets}
    tests = []  # (function, test expr, node)
    for f_ in scope:
        for n in A.typer.own_nodes(f_):
            if isinstance(n, (ast.If, ast.IfExp, ast.While)):
                tests.append((f_, n.test, n))
            elif isinstance(n, ast.comprehension):
                tests += [(f_, i, n) for i in n.ifs]
    from .common import src_resolved

    def _resolved(f_, t):
        try:
            return ast.parse(src_resolved(A, f_, t), mode='eval').body
        except SyntaxError:
            return t
    tests = tests + [(f_, _resolved(f_, t), n) for f_, t, n in tests]      # tests through named locals count like the expression itself
    has_abstract = any(any(isinstance(x, ast.Constant) and x.value == 'abstract' for x in ast.walk(t)) for _, t, _ in tests)
    has_excl = any(any(isinstance(x, ast.Compare) and len(x.ops) == 1 and isinstance(x.ops[0], (ast.In, ast.NotIn)) and isinstance(x.comparators[0], ast.Name) and x.comparators[0].id in exnames
                       for x in ast.walk(t)) for _, t, _ in tests)
    R.check(has_abstract and has_excl, 'R08.3', 'Chain._create_tasks: filters', key_of('filters', has_abstract, has_excl), 'abstract classes and excluded classes are filtered',
            'the abstract or exclusion filter is missing', where=where(fct))
    skips = []
    for f_ in scope:
        for n in A.typer.own_nodes(f_):
            if isinstance(n, ast.If) and n.body and isinstance(n.body[-1], (ast.Continue, ast.Return)) and not n.orelse:
                skips.append((f_, n))
    for f_, n in skips:
        t = src_resolved(A, f_, n.test)
        ok = t == 'exclude' or any(isinstance(x, ast.Compare) and isinstance(x.ops[0], (ast.In, ast.NotIn)) and isinstance(x.comparators[0], ast.Name) and x.comparators[0].id in exnames for x in list(ast.walk(n.test)) + list(ast.walk(_resolved(f_, n.test)))) \
            or t == 'exclude' or ("'abstract'" in t) or t.endswith('is None') or src(n.test) == 'exclude'
        R.check(ok, 'R08.3', f'{f_.short}: skip `{t[:60]}`', key_of('skip', t), 'abstract / excluded / exclusion-pass skip',
                f'a declared task class is skipped under `{t}`: the chain no longer contains exactly the declared, non-abstract, non-excluded tasks', where=where(f_, n))
    check_expand_tasks(A, R, 'R08.3')

    # ---- R08.7 declarations are read with inheritance: Meta(cls) collects dir(cls.Meta) / getattr, so a Meta class that extends
    # another one keeps the inherited input_tasks / parameters / abstract
    R.rule('R08.7', 'Meta.__init__ enumerates the declarations with dir(cls.Meta) and reads them with getattr (inherited declarations included)', floor=1)
    meta_ci = A.prog.find_cls('Meta')
    minit = meta_ci.methods.get('__init__') if meta_ci is not None else None
    R.require(minit is not None, 'anchor: utils.clazz.Meta.__init__ missing')
    mloops = [n for n in inl(A, minit) if isinstance(n, ast.For)]
    if not mloops:
        R.undecided('R08.7', 'Meta.__init__', 'collection of the declarations not recognised', where=where(minit))
    for lp in mloops:
        it = subst_single_assign(A, minit, lp.iter)
        t_ = src(it)
        if isinstance(it, ast.Call) and src(it.func) == 'dir' and t_.endswith('.Meta)'):
            reads = [n for n in ast.walk(lp) if isinstance(n, ast.Call) and src(n.func) == 'getattr' and len(n.args) >= 2 and src(n.args[0]).endswith('.Meta')]
            R.check(bool(reads), 'R08.7', 'Meta.__init__', key_of('meta-read', bool(reads)), 'dir(cls.Meta) + getattr', 'declarations are enumerated with dir() but not read with getattr from the Meta class', where=where(minit, lp))
        elif 'vars(' in t_ or '__dict__' in t_:
            R.violation('R08.7', 'Meta.__init__', key_of('meta-own-only', t_[:60]), f'declarations are taken from `{t_[:60]}`: only attributes defined directly on a Meta class are seen, so input_tasks / parameters / abstract inherited from a parent Meta are dropped (edges and missing-input errors disappear)',
                        where=where(minit, lp))
        else:
            R.undecided('R08.7', 'Meta.__init__', f'iteration `{t_[:60]}` not recognised', where=where(minit, lp))

    # ---- R08.4
    R.rule('R08.4', 'no textual prefix / suffix / substring test between structured names (namespace, full name, slug) without the separator', floor=1)
    check_name_tests(A, R, 'R08.4')

    # ---- R08.5
    R.rule('R08.5', 'required_tasks / dependent_tasks / is_task_dependent_on use the closure matching the edge orientation (decided by C07 R07.3)', floor=1)
    fb, edges = graph_orientation(A)
    orient = {o for o, _ in edges}
    if len(orient) == 1 and None not in orient:
        fwd = orient.pop() == 'input->task'
        bad = []
        for mname, want in (('dependent_tasks', 'descendants' if fwd else 'ancestors'), ('required_tasks', 'ancestors' if fwd else 'descendants')):
            f = A.func(f'Chain.{mname}')
            used = [src(n.func).split('.')[-1] for n in A.typer.own_nodes(f) if isinstance(n, ast.Call) and src(n.func).split('.')[-1] in ('descendants', 'ancestors')]
            if used and any(u != want for u in used):
                bad.append(f'{mname} uses {used}')
        R.check(not bad, 'R08.5', 'Chain: closures', key_of('closures', bad), 'closures match the orientation', '; '.join(bad), where=where(fb))
    else:
        R.undecided('R08.5', 'Chain: closures', 'edge orientation not recognised', where=where(fb))

    # ---- R08.5b graph queries keep no state and return fresh sets
    from ..types import Ctx
    from .purity import check_stateless
    R.rule('R08.5b', 'required_tasks / dependent_tasks / is_task_dependent_on / get_task store nothing on the chain (each answer is computed from the graph)', floor=3)
    for n in ('dependent_tasks', 'required_tasks', 'is_task_dependent_on', 'get_task'):
        f = chain.methods.get(n)
        if f is not None:
            check_stateless(A, R, 'R08.5b', f.short, [Ctx(f, ('inst', chain))], 'a memoised closure is handed out by reference: callers (and include_self=True) mutate the cached set, so later answers contain the task itself or foreign tasks', at=where(f))
