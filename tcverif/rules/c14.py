"""C14 - file caches return the value for the key, or recompute.

R14.1 compute precedes save, nothing saved on compute's exceptional exit;  R14.2 handler discipline around load_value;
R14.3 key verification in JsonCache.load_value;  R14.4 file name uses the whole digest, sub-caches are separate;
R14.5 `force` is a conjunct of the load guard and `get` never computes.
R14.11 save_value refuses a value before it opens the file for writing;  R14.10 (from C15 R15.8) presence decided under the lock.
"""
from __future__ import annotations

import ast

import networkx as nx

from ..model import src
from ..report import Report, key_of
from ..terms import dag_nodes, pretty
from ..types import Ctx
from .common import TRUSTED_BASE, cfg_nodes_for, effects_of, facts_text, inl, normal_succ, resolve_expr, subst_single_assign, where


def _self_calls(A, f, name):
    return [n for n in inl(A, f) if isinstance(n, ast.Call) and isinstance(n.func, ast.Attribute) and n.func.attr == name
            and isinstance(n.func.value, ast.Name) and n.func.value.id == 'self']


def check_strict_text_io(A, R, rid, classes):
    """Text files of the given classes are opened without an `errors=` policy other than strict: a byte sequence that is not valid in
    the encoding (a corrupted file) must raise - and so be treated as unreadable - instead of being decoded with substitutions."""
    n = 0
    for ci_ in classes:
        for m_ in ci_.methods.values():
            for c_ in A.typer.own_nodes(m_):
                if isinstance(c_, ast.Call) and (src(c_.func) == 'open' or (isinstance(c_.func, ast.Attribute) and c_.func.attr in ('open', 'read_text', 'write_text'))):
                    n += 1
                    lax = [kw for kw in c_.keywords if kw.arg == 'errors' and not (isinstance(kw.value, ast.Constant) and kw.value.value in ('strict', None))]
                    R.check(not lax, rid, f'{ci_.short}.{m_.name}: `{src(c_)[:50]}`', key_of('lax-decoding', ci_.short, m_.name, bool(lax)), 'strict decoding / encoding',
                            f'`{src(c_)[:70]}` decodes invalid bytes with substitutions: a cache file whose bytes were damaged is returned as a (different) value instead of being recomputed', where=where(m_, c_))
    return n


def check_numpy_entries(A, R, rid):
    """np.load must accept what np.save writes, and return a copy (shared with C15)."""
    # numpy entries: what np.save can write, np.load must be able to read back - and as a copy, not as a view of the file
    npc = A.prog.find_cls('NumpyArrayCache')
    if npc is not None:
        saves = [n_ for m_ in npc.methods.values() for n_ in A.typer.own_nodes(m_) if isinstance(n_, ast.Call) and src(n_.func) in ('np.save', 'numpy.save')]
        loads = [(m_, n_) for m_ in npc.methods.values() for n_ in A.typer.own_nodes(m_) if isinstance(n_, ast.Call) and src(n_.func) in ('np.load', 'numpy.load')]
        pickling = any(not any(kw.arg == 'allow_pickle' and isinstance(kw.value, ast.Constant) and kw.value.value is False for kw in c_.keywords) for c_ in saves)
        for m_, c_ in loads:
            ap = [kw for kw in c_.keywords if kw.arg == 'allow_pickle']
            ok_ap = not pickling or (ap and isinstance(ap[0].value, ast.Constant) and ap[0].value.value is True)
            mm = [kw for kw in c_.keywords if kw.arg == 'mmap_mode' and not (isinstance(kw.value, ast.Constant) and kw.value.value is None)]
            R.check(ok_ap and not mm, rid, f'NumpyArrayCache.{m_.name}: `{src(c_)[:50]}`', key_of('np-load', ok_ap, bool(mm)), 'np.load accepts what np.save writes (allow_pickle=True) and returns a copy',
                    ('np.save pickles object arrays (its default), but np.load refuses pickled data unless allow_pickle=True: such an entry is written and can never be read back, every call recomputes' if not ok_ap else
                     'np.load(mmap_mode=...) returns a view of the cache file: a later forced write of the key changes (or truncates under) a value that an earlier call already returned'), where=where(m_, c_))


def check_load_handlers(A, R, rid, rid_force=None):
    """R14.2 (and R14.5 when rid_force is given) for FileCache.get and FileCache.get_or_compute; shared with C15 / C16."""
    fc = A.cls('FileCache')
    goc = fc.lookup('get_or_compute')
    get = fc.lookup('get')
    cp = [p for p in goc.params if p not in ('self', 'key', 'force')][0]
    comps = [n for n, o, sites in A.nodes_with_sites(goc) if isinstance(n, ast.Call) and isinstance(n.func, ast.Name) and src(resolve_expr(A, goc, n.func, o, sites)) == cp]
    for f in (get, goc):
        cfg = A.cfg(f)
        loads = _self_calls(A, f, 'load_value')
        R.require(loads, f'anchor: no load_value call in {f.short}')
        for ld in loads:
            construct = f'{f.short}: `{src(ld)[:40]}`'
            for ln in cfg_nodes_for(cfg, ld):
                exc = cfg.succ_by_label(ln.id, 'exc')
                if not exc:
                    R.violation(rid, construct, key_of('unprotected-load', f.short), 'load_value is not inside a try: a corrupt file raises instead of being recomputed', where=where(f, ld))
                    continue
                handlers = [cfg.nodes[d] for e in exc for d in (nx.descendants(cfg.g, e) | {e}) if cfg.nodes[d].kind == 'handler']
                handlers = [h for h in handlers if any(cfg.g.has_edge(e, h.id) for e in exc)]
                ce = [h for h in handlers if 'CacheException' in h.label]
                generic = [h for h in handlers if h.label in ('Exception', 'BaseException', 'bare')]
                problems = []
                if not ce:
                    problems.append('no CacheException handler: a file recorded for another key would be treated as corrupt and silently recomputed')
                if not generic:
                    problems.append('no generic handler: a corrupt/truncated file raises instead of being recomputed')
                for h in ce:
                    if cfg.path_exists([h.id], [cfg.exit.id]):
                        problems.append('CacheException handler can continue normally (error not reported)')
                    # order: specific handler must come before the generic one
                    tr = h.ast._parent
                    idx = tr.handlers.index(h.ast)
                    if any(tr.handlers.index(g.ast) < idx for g in generic if g.ast._parent is tr):
                        problems.append('generic handler precedes the CacheException handler (it would never fire)')
                for g in generic:
                    rets = [cfg.nodes[d] for d in nx.descendants(cfg.g, g.id) if cfg.nodes[d].kind == 'stmt' and isinstance(cfg.nodes[d].ast, ast.Return) and cfg.nodes[d].id in _handler_body(cfg, g)
                            and getattr(cfg.nodes[d], 'owner', f.node) is f.node]   # a `return` of an inlined helper hands its outcome to the caller: what the caller does with it is checked below
                    if rets:
                        problems.append('generic handler returns from inside the handler')
                    if f is goc:
                        comp_nodes = [n.id for c in comps for n in cfg_nodes_for(cfg, c)]
                        p = cfg.find_path([g.id], [cfg.exit.id], avoid=comp_nodes)
                        if p is not None:
                            problems.append('after a failed load a path returns without recomputing')
                    else:
                        bad = [cfg.nodes[d] for d in nx.descendants(cfg.g, g.id) if cfg.nodes[d].kind == 'stmt' and isinstance(cfg.nodes[d].ast, ast.Return) and cfg.nodes[d].owner is f.node
                               and src(cfg.nodes[d].ast.value or ast.Constant(None)) != 'NO_VALUE']
                        if bad:
                            problems.append('after a failed load get() returns something other than NO_VALUE')
                    if _handler_reraises(cfg, g):
                        problems.append('generic handler re-raises')
                R.check(not problems, rid, construct, key_of('handlers', f.short, sorted(problems)), 'CacheException re-raised, other errors fall through', '; '.join(problems), where=where(f, ld))
                # R14.5
                if f is goc and rid_force is not None:
                    facts = [(src(a), pol) for a, pol in cfg.facts_at(ln.id)]
                    fparam = 'force'
                    ok = (fparam, False) in facts
                    if not ok:
                        # a flag computed in steps (`reuse = False; if exists: reuse = not force`): the value of the guard when force holds
                        from ..terms import truth_under as _truth
                        for a_, pol_ in cfg.facts_at(ln.id):
                            if not pol_ or getattr(cfg.nodes.get(ln.id), 'owner', f.node) is not f.node:
                                continue
                            for t_ in A.sym.terms_at(f, ('inst', fc), [a_]).get(id(a_), []):
                                if _truth(t_, lambda c_: True if c_ == ('p', fparam) else None) is False:
                                    ok = True
                    R.check(ok, rid_force, construct, key_of('force-guard'), 'load guarded by not force', 'the load is not guarded by `not force`: force=True could return the stored value', witness=[str(facts)], where=where(f, ld))


def run(A, R: Report, thorough: bool):
    R.explanation = ('CFG rules on FileCache.get / get_or_compute (ordering of compute and save, exception handlers around the load, guard conjuncts), control dependence '
                     'of the key-mismatch error in JsonCache.load_value, and the symbolic term of the cache file path. Not decided: value round trip, behaviour on every truncation.')
    R.trusted = TRUSTED_BASE + ['numpy.save pickles object arrays by default while numpy.load refuses pickled data unless allow_pickle=True; numpy.load(mmap_mode=...) returns a view of the file, not a copy']
    fc = A.cls('FileCache')
    goc = fc.lookup('get_or_compute')
    get = fc.lookup('get')
    R.require(goc is not None and get is not None, 'anchor: FileCache.get / get_or_compute missing')

    # ---- R14.1
    R.rule('R14.1', 'computer() completes before save_value; save_value unreachable from computer()\'s exception edge', floor=1)
    cfg = A.cfg(goc)
    comp_param = [p for p in goc.params if p not in ('self', 'key', 'force')]
    R.require(comp_param, 'anchor: get_or_compute has no computer parameter')
    cp = comp_param[0]
    comps = [n for n, o, sites in A.nodes_with_sites(goc) if isinstance(n, ast.Call) and isinstance(n.func, ast.Name) and src(resolve_expr(A, goc, n.func, o, sites)) == cp]
    saves = _self_calls(A, goc, 'save_value')
    R.require(comps and saves, 'anchor: computer() / save_value calls not found in get_or_compute')
    comp_nodes = [n.id for c in comps for n in cfg_nodes_for(cfg, c)]
    for s in saves:
        for sn in cfg_nodes_for(cfg, s):
            dom = any(cfg.dominates(c, sn.id) and c != sn.id for c in comp_nodes)
            exc = [v for c in comp_nodes for v in cfg.succ_by_label(c, 'exc')]
            after_fail = cfg.find_path(exc, [sn.id]) if exc else None
            # the saved value is what the computer returned
            val_ok = len(s.args) >= 3 and isinstance(s.args[2], ast.Name) and any(
                isinstance(a, ast.Assign) and any(src(t) == s.args[2].id for t in a.targets) and a.value in comps for a in inl(A, goc) if isinstance(a, ast.Assign))
            R.check(dom and after_fail is None and val_ok, 'R14.1', 'FileCache.get_or_compute: save_value', key_of('compute-save', dom, after_fail is None, val_ok),
                    'save follows a completed compute and stores its result', f'save_value not strictly after a successful computer() (dominated={dom}, reachable-after-failure={after_fail is not None}, stores-computed-value={val_ok})',
                    witness=cfg.describe_path(after_fail) if after_fail else None, where=where(goc, s))
    ret_ok = all(isinstance(r.value, ast.Name) or isinstance(r.value, ast.Call) for r in A.typer.own_nodes(goc) if isinstance(r, ast.Return) and r.value is not None)

    # ---- R14.1b a failed computation leaves the stored entry untouched
    R.rule('R14.1b', 'get_or_compute changes the cache file only through save_value, after computer() returned (a computation that raises stores and destroys nothing)', floor=1)
    from ..effects import FS_MUTATING, same_path, is_under
    E = effects_of(A)
    for ci in fc.all_subclasses(include_self=False):
        ctx = Ctx(goc, ('inst', ci))
        fp_term = A.sym.expr_term(ast.parse('self.filepath(key)', mode='eval').body, ctx) if False else None
        evs = E.collect(ctx, kinds=FS_MUTATING)
        save_nodes = set(id(s) for s in saves)
        fpt = A.sym.func_term(ci.lookup('filepath'), ('inst', ci))
        bad = [e for e in evs if id(e.root_node) not in save_nodes and not any(str(c_).split('.')[-1].startswith('save_value') for c_ in e.chain) and e.target is not None and (same_path(e.target, fpt) or (e.kind == 'FS_RENAME' and e.source is not None and same_path(e.source, fpt)))]
        R.check(not bad, 'R14.1b', f'{ci.short}.get_or_compute', key_of('entry-touched', ci.short, [e.kind for e in bad]), 'the entry is only replaced by save_value',
                'the stored entry is deleted / rewritten outside save_value: when computer() raises (e.g. on a forced recompute) the previously stored value is lost', witness=[e.describe()[:200] for e in bad], where=where(goc))

    # ---- R14.11 a value that is refused is refused before the entry is touched
    R.rule('R14.11', 'save_value raises its own errors (a value it refuses to store) before it opens the cache file for writing: a refused write leaves the stored entry as it was', floor=1)
    n11 = 0
    for ci in fc.all_subclasses(include_self=False):
        sv = ci.methods.get('save_value')
        if sv is None:
            continue
        cfgs = A.cfg(sv)
        def _opens_for_write(c_):
            if not (isinstance(c_, ast.Call) and (src(c_.func) == 'open' or (isinstance(c_.func, ast.Attribute) and c_.func.attr == 'open'))):
                return False
            modes = [a_ for a_ in list(c_.args) + [k_.value for k_ in c_.keywords if k_.arg == 'mode'] if isinstance(a_, ast.Constant) and isinstance(a_.value, str) and a_.value[:1] in ('w', 'x', 'a')]
            return bool(modes)
        opens = [n.id for n in cfgs.nodes.values() if n.ast is not None and n.kind not in ('edge', 'dispatch', 'handler', 'with_exit', 'entry', 'exit', 'raise') and
                 any(_opens_for_write(x) for x in ast.walk(n.ast.items[0].context_expr if isinstance(n.ast, (ast.With, ast.AsyncWith)) and n.ast.items else n.ast) if not isinstance(n.ast, (ast.With, ast.AsyncWith)) or True)]
        opens = [i for i in opens if not isinstance(cfgs.nodes[i].ast, (ast.If, ast.For, ast.While, ast.Try))]
        raises11 = [n.id for n in cfgs.nodes.values() if n.kind == 'stmt' and isinstance(n.ast, ast.Raise)]
        if not opens:
            continue
        n11 += 1
        late = cfgs.find_path([v for o_ in opens for v in normal_succ(cfgs, o_)], raises11) if raises11 else None
        R.check(late is None, 'R14.11', f'{ci.short}.save_value', key_of('refuse-after-truncate', ci.short, late is None), 'refusals precede the open for writing',
                'save_value refuses the value (raises) after the cache file was opened for writing, i.e. truncated: a forced recomputation that yields a refused value (None with allow_nones=False) '
                'leaves an empty entry where a complete one was stored - later calls report NO_VALUE / recompute', witness=cfgs.describe_path(late) if late else None, where=where(sv))
    R.require(n11 >= 1, 'anchor: no save_value that opens its file for writing')

    # ---- R14.2 / R14.5 per entry point
    R.rule('R14.2', 'around load_value: CacheException propagates; any other exception is not returned from and falls through to recompute / NO_VALUE', floor=2)
    R.rule('R14.5', '`force` false is a conjunct of the load guard; get() calls no computer', floor=2)
    check_load_handlers(A, R, 'R14.2', 'R14.5')
    user_calls = [e for c in fc.all_subclasses(include_self=False) for e in effects_of(A).collect(Ctx(get, ('inst', c))) if e.kind == 'USER' and e.detail.startswith('call of')]
    R.check(not user_calls and not any(p for p in get.params if 'comput' in p), 'R14.5', 'FileCache.get', key_of('get-computes'), 'get() has no callable to compute with',
            'get() invokes user code', witness=[e.describe() for e in user_calls], where=where(get))

    # ---- R14.3
    R.rule('R14.3', 'JsonCache.load_value raises CacheException exactly when the stored key differs, and returns the value of the verified object', floor=1)
    jc = A.cls('JsonCache')
    lv = jc.methods.get('load_value')
    R.require(lv is not None, 'anchor: JsonCache.load_value missing')
    cfg = A.cfg(lv)
    raises = [n for n in cfg.nodes.values() if n.kind == 'stmt' and isinstance(n.ast, ast.Raise) and 'CacheException' in src(n.ast)]
    key_raise = None
    loaded_var = None
    for rn in raises:
        for a, pol in cfg.facts_at(rn.id):
            if isinstance(a, ast.Compare) and len(a.ops) == 1 and ((isinstance(a.ops[0], ast.NotEq) and pol) or (isinstance(a.ops[0], ast.Eq) and not pol)):
                sides = [subst_single_assign(A, lv, a.left), subst_single_assign(A, lv, a.comparators[0])]
                names = [src(x) for x in sides]
                if 'key' in names:
                    other = sides[1 - names.index('key')]
                    if isinstance(other, ast.Subscript) and isinstance(other.slice, ast.Constant) and other.slice.value == 'key':
                        key_raise = rn
                        loaded_var = src(other.value)
    rets = [n for n in A.typer.own_nodes(lv) if isinstance(n, ast.Return) and n.value is not None]
    rvals = [subst_single_assign(A, lv, r.value) for r in rets]
    ret_ok = bool(rets) and all(isinstance(v, ast.Subscript) and src(v.value) == loaded_var and isinstance(v.slice, ast.Constant) and v.slice.value == 'value' for v in rvals)
    dom_ok = key_raise is not None and all(_test_dominates(cfg, key_raise, r) for r in rets)
    R.check(key_raise is not None and ret_ok and dom_ok, 'R14.3', 'JsonCache.load_value', key_of('key-check', key_raise is not None, ret_ok, dom_ok),
            f'key verified on `{loaded_var}` before its value is returned', 'stored key is not verified against the requested key before the value is returned (a hash-colliding or misplaced file would be returned as this key\'s value)', where=where(lv))
    # the forbidden-None check tests identity with None, not truthiness (0, '', [] and False are legitimate values)
    for rn in raises:
        if rn is key_raise:
            continue
        fx = facts_text(A, lv, cfg, rn.id)
        truthy = [(t_, pol) for t_, pol in fx if not pol and (t_.endswith("['value']") or t_.endswith('["value"]'))]
        ident = [(t_, pol) for t_, pol in fx if 'is None' in t_ or 'is not None' in t_ or '== None' in t_]
        if truthy and not ident:
            R.violation('R14.3', 'JsonCache.load_value: None check', key_of('none-by-truthiness', truthy[0][0]), f'the stored value is rejected when `{truthy[0][0]}` is falsy: with allow_nones=False a stored 0, "", [] or False can be written but never read back (CacheException on every later access)',
                        where=where(lv, rn.ast))
    # the same in helpers of JsonCache (a shared `_check_value`): the "value is None" error is raised on identity with None only
    for m_ in jc.methods.values():
        if m_ is lv:
            continue
        cfgm_ = A.cfg(m_)
        for rn in [n_ for n_ in cfgm_.nodes.values() if n_.kind == 'stmt' and isinstance(n_.ast, ast.Raise) and n_.ast.exc is not None and n_.id in cfgm_.reachable_nodes()]:
            fx = facts_text(A, m_, cfgm_, rn.id)
            truthy = [(t_, pol) for t_, pol in fx if not pol and (t_ in m_.params or t_.endswith("['value']")) and 'value' in t_]
            ident = [(t_, pol) for t_, pol in fx if ('is None' in t_ and pol) or ('is not None' in t_ and not pol)]
            if truthy and not ident:
                R.violation('R14.3', f'JsonCache.{m_.name}: None check', key_of('none-by-truthiness', truthy[0][0]), f'the stored value is rejected when `{truthy[0][0]}` is falsy: with allow_nones=False a stored 0, "", [] or False can be written but never read back (CacheException on every later access)',
                            where=where(m_, rn.ast))
    # CacheException means "this file belongs to another key" (get / get_or_compute re-raise it); a file that cannot be decoded must stay an ordinary error
    for ci_ in [c_ for c_ in A.prog.classes.values() if c_.is_subclass_of(A.cls('FileCache'))]:
        lv_ = ci_.methods.get('load_value')
        if lv_ is None:
            continue
        cfg_ = A.cfg(lv_)
        conv = [n_ for n_ in cfg_.nodes.values() if n_.kind == 'stmt' and isinstance(n_.ast, ast.Raise) and n_.ast.exc is not None and 'CacheException' in src(n_.ast.exc) and n_.id in cfg_.in_handler]
        R.check(not conv, 'R14.3', f'{ci_.short}.load_value: decoding errors', key_of('decode-error-as-mismatch', ci_.short, len(conv)), 'no exception handler turns a load failure into CacheException',
                f'an exception handler in {ci_.short}.load_value re-raises a load failure as CacheException: get() and get_or_compute() let CacheException through (it means "file of another key"), so an empty / truncated file raises instead of being recomputed',
                where=where(lv_, conv[0].ast) if conv else where(lv_))
    sv = jc.methods.get('save_value')
    dumps = [n for n in inl(A, sv) if isinstance(n, ast.Call) and src(n.func).endswith('dump') and n.args and isinstance(subst_single_assign(A, sv, n.args[0]), ast.Dict)]
    if dumps:
        d = subst_single_assign(A, sv, dumps[0].args[0])
        m = {k.value: src(v) for k, v in zip(d.keys, d.values) if isinstance(k, ast.Constant)}
        R.check(m.get('key') == 'key' and m.get('value') == 'value', 'R14.3', 'JsonCache.save_value', key_of('record', sorted(m.items())), 'record stores key and value',
                f'stored record does not bind key->key, value->value: {m}', where=where(sv))
    else:
        R.undecided('R14.3', 'JsonCache.save_value', 'record construction not recognised', where=where(sv))

    # ---- R14.4
    R.rule('R14.4', 'cache file name is built from complementary slices of the full digest of the key; sub-caches are separate stores', floor=3)
    fp = fc.lookup('filepath')
    t = A.sym.func_term(fp, ('inst', jc))
    slices = [x for x in dag_nodes(t) if x[0] == 'slice']
    digests = {pretty(x[1]) for x in slices}
    lo_hi = sorted((pretty(x[2]), pretty(x[3])) for x in slices)
    full = len(slices) == 2 and len(digests) == 1 and lo_hi[0][0] != 'None' and lo_hi[0][1] == 'None' and lo_hi[1][0] == 'None' and lo_hi[1][1] == lo_hi[0][0]
    strong = any(x[0] == 'method' and x[2] == 'hexdigest' and x[1][0] == 'call' and x[1][1].split('.')[-1] in ('sha256', 'sha512', 'sha1', 'md5', 'blake2b') for x in dag_nodes(t))
    keyed = any(x == ('p', 'key') for x in dag_nodes(t))
    # the digest input must be the key itself (encoded): any other transformation (normalisation, case folding, truncation) can merge distinct keys
    hashed = [x[2][0] for x in dag_nodes(t) if x[0] == 'call' and x[1].split('.')[-1] in ('sha256', 'sha512', 'sha1', 'md5', 'blake2b') and x[2]]
    injective = bool(hashed) and all(h in (('call', 'encode', (('p', 'key'),)), ('call', 'encode', (('str', ('p', 'key')),))) for h in hashed)
    R.check(injective, 'R14.4', 'FileCache.filepath: hashed text', key_of('hashed-text', [pretty(h)[:80] for h in hashed]), 'digest of key.encode()',
            f'the file name is derived from `{[pretty(h)[:80] for h in hashed]}` instead of the key itself: distinct keys that the transformation identifies share one cache file', where=where(fp))
    R.check(full and strong and keyed, 'R14.4', 'FileCache.filepath', key_of('digest-slices', lo_hi, sorted(digests)), f'path = {pretty(t)}',
            f'cache file path does not use the whole digest of the key (slices {lo_hi}): distinct keys can share a file', witness=[pretty(t)], where=where(fp))
    sc = fc.lookup('subcache')
    st = A.sym.func_term(sc, ('inst', jc))
    ok = st[0] == 'call' and st[1] == 'apply' or 'pathjoin' in str(st)
    dparam = [p_ for p_ in sc.params if p_ != 'self']
    sub_ok = bool(dparam) and any(x[0] == 'pathjoin' and x[1] == ('attr', ('self',), 'directory') and x[2] == ('p', dparam[0]) for x in dag_nodes(st))
    R.check(sub_ok, 'R14.4', 'FileCache.subcache', key_of('subdir'), 'sub-cache lives in <parent directory>/<the given name>', 'the sub-cache directory is not <parent directory>/<the given name> unchanged: differently named sub-caches can share a directory (and entries)', witness=[pretty(st)], where=where(sc))
    imc = A.cls('InMemoryCache')
    # ---- R14.6 a (forced) computation replaces the entry and is what the call returns
    R.rule('R14.6', 'InMemoryCache.get_or_compute stores the computed value by item assignment under the key (overwriting an existing entry) and returns that entry', floor=1)
    fgm = imc.methods.get('get_or_compute')
    R.require(fgm is not None, 'anchor: InMemoryCache.get_or_compute missing')
    keyp, compp = fgm.params[1], fgm.params[2]
    compc = [n for n in inl(A, fgm) if isinstance(n, ast.Call) and isinstance(n.func, ast.Name) and n.func.id == compp]
    R.require(compc, 'anchor: computer() call missing in InMemoryCache.get_or_compute')
    for c in compc:
        par = getattr(c, '_parent', None)
        stored_by_assignment = False
        weak = None
        holder = None
        if isinstance(par, ast.Assign) and len(par.targets) == 1:
            tgt = par.targets[0]
            if isinstance(tgt, ast.Subscript) and src(tgt.slice) == keyp:
                stored_by_assignment = True
            elif isinstance(tgt, ast.Name):
                holder = tgt.id
                stored_by_assignment = any(isinstance(n, ast.Assign) and isinstance(n.targets[0], ast.Subscript) and src(n.targets[0].slice) == keyp and src(n.value) == holder for n in inl(A, fgm))
        elif isinstance(par, ast.Call) and isinstance(par.func, ast.Attribute) and par.func.attr in ('setdefault',):
            weak = 'setdefault keeps an existing entry: with force=True the recomputed value is neither stored nor returned'
        if holder and not stored_by_assignment:
            for n in inl(A, fgm):
                if isinstance(n, ast.Call) and isinstance(n.func, ast.Attribute) and n.func.attr == 'setdefault' and any(src(a_) == holder for a_ in n.args):
                    weak = 'setdefault keeps an existing entry: with force=True the recomputed value is neither stored nor returned'
        if stored_by_assignment:
            R.ok('R14.6', 'InMemoryCache.get_or_compute', 'entry[key] = computer()', where=where(fgm, c))
        elif weak:
            R.violation('R14.6', 'InMemoryCache.get_or_compute', key_of('weak-store', weak[:30]), weak, where=where(fgm, c))
        else:
            R.undecided('R14.6', 'InMemoryCache.get_or_compute', 'how the computed value is stored is not recognised', where=where(fgm, c))
    # the entry is replaced only by a finished computation: nothing is removed / overwritten on a path that has not completed computer()
    cfgm = A.cfg(fgm)
    comp_nodes = {n_.id for c in compc for n_ in cfg_nodes_for(cfgm, c)}
    early = []
    for n_ in cfgm.nodes.values():
        if n_.kind != 'stmt' or n_.ast is None or n_.id in comp_nodes:
            continue
        st_ = n_.ast
        mut_ = (isinstance(st_, ast.Delete) and any(isinstance(t_, ast.Subscript) for t_ in st_.targets)) or \
               (isinstance(st_, (ast.Assign, ast.AugAssign)) and any(isinstance(t_, ast.Subscript) for t_ in (st_.targets if isinstance(st_, ast.Assign) else [st_.target]))) or \
               any(isinstance(x, ast.Call) and isinstance(x.func, ast.Attribute) and x.func.attr in ('pop', 'popitem', 'clear', 'update', '__delitem__', '__setitem__') for x in ast.walk(st_))
        if mut_ and cfgm.find_path([cfgm.entry.id], [n_.id], avoid=comp_nodes) is not None:
            early.append(st_)
    R.check(not early, 'R14.6', 'InMemoryCache.get_or_compute: entry kept until the computation finished', key_of('early-mutation', [src(e)[:40] for e in early]), 'the store is changed only after computer() returned',
            f'`{src(early[0])[:60] if early else ""}` changes the store before computer() has returned: a forced computation that raises has already destroyed the stored entry', where=where(fgm, early[0]) if early else where(fgm))
    check_numpy_entries(A, R, 'R14.3')
    isc = imc.lookup('subcache')
    text = src(isc.node)
    R.check('get_ident()' in text and 'name' in text and 'InMemoryCache()' in text, 'R14.4', 'InMemoryCache.subcache', key_of('mem-subcache'), 'separate object per name and thread',
            'in-memory sub-caches are not separate per name and thread', where=where(isc))

    R.rule('R14.7', 'cache files are read and written with strict text decoding / encoding', floor=2)
    check_strict_text_io(A, R, 'R14.7', [c_ for c_ in A.prog.classes.values() if c_.is_subclass_of(A.cls('FileCache'))])


def _handler_body(cfg, h):
    return cfg.in_handler


def _handler_reraises(cfg, g) -> bool:
    body = g.ast.body
    return any(isinstance(n, ast.Raise) for st in body for n in ast.walk(st))


def _test_dominates(cfg, raise_node, ret_ast) -> bool:
    """The mismatch test that guards raise_node is evaluated on every path to the return."""
    tests = [d for d in cfg.dominators_of(raise_node.id) if cfg.nodes[d].kind == 'edge']
    if not tests:
        return False
    test_node = cfg.nodes[tests[0]].polarity_of[0]
    return all(cfg.dominates(test_node, rn.id) for rn in cfg.nodes_containing(ret_ast))
