"""C19 - test helpers compute what the real chain computes.

R19.1 TestChain._prepare keeps the stages of the base construction pipeline (non-parameter path) in order;
R19.2 mocks are in-memory, return the supplied value, and have no RUN / save / file-system effect; real tasks are
      created through _create_task with the helper's config;  R19.3 the parameters reach the config unchanged;
R19.4 create_test_task returns the task from a TestChain built from exactly its arguments;
R19.5 pattern inputs select tasks by the name they are registered under (so mocked tasks are found);
R19.6 run() arguments come only from input tasks and declared parameters (shared with C01 R01.5);
R19.7 the helper's store is private to it, or its storage key names the parameters and the mocked values.
"""
from __future__ import annotations

import ast

from ..effects import FS_MUTATING
from ..model import src
from ..report import Report, key_of
from ..types import Ctx
from .c01 import check_run_argument_binding
from .c08 import check_expand_tasks
from ..terms import assume, contains, has_opaque, is_opaque, pretty
from .common import TRUSTED_BASE, bound_args, effects_of, inl, subst_single_assign, where

STAGES = ['_process_config', '_create_tasks', '_process_dependencies', '_build_graph', '_init_objects']


def stage_sequence(A, f):
    """Ordered list of self.<stage>() calls in source order (statement level)."""
    out = []
    for n in A.typer.own_nodes(f):
        if isinstance(n, ast.Call) and isinstance(n.func, ast.Attribute) and src(n.func.value) == 'self' and n.func.attr in STAGES + ['_recreate_tasks_with_parameter_config']:
            out.append((n.func.attr, n))
    return out


def run(A, R: Report, thorough: bool):
    R.explanation = ('Override consistency cross-check between TestChain._prepare and Chain._prepare (same stages, same order, dominance in the CFG); effect summary and class attributes '
                     'of MockTask; def-use of the helper\'s arguments. The helper reuses the real Task / Chain code for everything else, so agreement of values is an argument, not a check.')
    R.trusted = TRUSTED_BASE
    tc = A.cls('TestChain')
    chain = A.cls('Chain')
    mock = A.cls('MockTask')
    fprep = tc.methods.get('_prepare')
    R.require(fprep is not None, 'anchor: TestChain._prepare missing')

    # ---- R19.1
    R.rule('R19.1', 'TestChain._prepare runs _process_config, _create_tasks, _process_dependencies, _build_graph, _init_objects - each dominating the next', floor=1)
    seq = [s for s, _ in stage_sequence(A, fprep)]
    cfg = A.cfg(fprep)
    from .common import cfg_nodes_for
    order_ok = seq == STAGES
    dom_ok = True
    calls = stage_sequence(A, fprep)
    for (a, na), (b, nb) in zip(calls, calls[1:]):
        an = [x.id for x in cfg_nodes_for(cfg, na)]
        bn = [x.id for x in cfg_nodes_for(cfg, nb)]
        if not all(any(cfg.dominates(x, y) for x in an) for y in bn):
            dom_ok = False
    base_seq = [s for s, _ in stage_sequence(A, chain.methods['_prepare']) if s != '_recreate_tasks_with_parameter_config']
    base_np = []
    for s in base_seq:
        if not base_np or base_np[-1] != s or s != '_process_dependencies':
            base_np.append(s)
        # the base pipeline repeats _process_dependencies only on the parameter path
    base_np = [s for i, s in enumerate(base_np) if not (s == '_process_dependencies' and i > 0 and base_np[i - 1] == '_process_dependencies')]
    R.check(order_ok and dom_ok, 'R19.1', 'TestChain._prepare', key_of('stages', seq), f'stages {seq}',
            f'TestChain._prepare runs {seq} (base pipeline: {STAGES}): missing inputs / cycles / parameters would not surface at construction as in a real chain', where=where(fprep))
    handlers = [n for n in A.typer.own_nodes(fprep) if isinstance(n, ast.ExceptHandler)]
    R.check(not handlers, 'R19.1', 'TestChain._prepare: errors', key_of('handlers', len(handlers)), 'construction errors propagate', 'an exception handler in TestChain._prepare can hide a missing input / parameter that a real chain reports at construction', where=where(fprep))
    tstores = [n for n in inl(A, fprep) if isinstance(n, ast.Assign) and any(src(t_) == 'self.tasks' for t_ in n.targets)]
    created = [subst_single_assign(A, fprep, n.value) for n in tstores]
    assign_ok = bool(created) and all(isinstance(v, ast.Call) and src(v.func).endswith('_create_tasks') for v in created)
    deps = [n for n in inl(A, fprep) if isinstance(n, ast.Call) and isinstance(n.func, ast.Attribute) and n.func.attr == '_process_dependencies' and n.args]
    # what is wired is what was stored: self.tasks itself, or the local that holds the created dict
    dep_ok = bool(deps) and all(src(d.args[0]) == 'self.tasks' or any(subst_single_assign(A, fprep, d.args[0]) is v for v in created) for d in deps)
    R.check(assign_ok and dep_ok, 'R19.1', 'TestChain._prepare: wiring', key_of('wiring', assign_ok, dep_ok), 'created tasks are the chain\'s tasks and are wired', 'the created tasks are not the ones that get wired / exposed', where=where(fprep))

    # ---- R19.2
    R.rule('R19.2', 'MockTask is in-memory, value returns the stored field, no RUN / FS effect; real tasks go through _create_task with the helper config', floor=4)
    meta = mock.nested_classes.get('Meta')
    dc = src(meta.class_attrs['data_class']) if meta is not None and 'data_class' in meta.class_attrs else None
    dci = A.prog.find_cls(dc) if dc else None
    R.check(dci is not None and dci.is_subclass_of(A.cls('InMemoryData')), 'R19.2', 'MockTask.Meta.data_class', key_of('mock-data-class', dc), f'{dc} (in memory)', f'mock tasks use data class {dc}: mocked values would be persisted', where=where(mock.methods['__init__']))
    fval = mock.methods.get('value')
    finit = mock.methods.get('__init__')
    R.require(finit is not None, 'anchor: MockTask.__init__ missing')
    if fval is None:
        R.violation('R19.2', 'MockTask.value', key_of('mock-value-inherited'), 'MockTask no longer overrides `value`: the supplied value is served through Task.value / Task.data, so force() / reset_data() drop it and the next request tries to run the mock',
                    where=where(finit))
        R.ok('R19.2', 'MockTask.value: effects', 'not applicable', where=where(finit))
    A.sym.keep_copies = True       # a copy of the supplied object is another object than the one a real upstream task hands to all its consumers
    try:
        tv = A.sym.func_term(fval, ('inst', mock)) if fval is not None else ('opaque', 'no value')
    finally:
        A.sym.keep_copies = False
    stored = [n for n in A.typer.own_nodes(finit) if isinstance(n, ast.Assign) and isinstance(n.targets[0], ast.Attribute) and src(n.value) == finit.params[1]]
    field = stored[0].targets[0].attr if stored else None
    if fval is not None:
        R.check(field is not None and tv == ('attr', ('self',), field) and fval.is_property, 'R19.2', 'MockTask.value', key_of('mock-value', str(tv)[:80]), f'returns self.{field} set from the constructor argument',
                'a mocked task does not return exactly the supplied value', where=where(fval))
        evs = [e for e in effects_of(A).collect(Ctx(fval, ('inst', mock))) if e.kind in FS_MUTATING or e.kind in ('RUN', 'USER')]
        R.check(not evs, 'R19.2', 'MockTask.value: effects', key_of('mock-effects', [e.kind for e in evs]), 'no run / file-system effect', f'reading a mocked value has effects: {[e.describe()[:80] for e in evs]}', where=where(fval))
    fct = tc.methods.get('_create_tasks')
    R.require(fct is not None, 'anchor: TestChain._create_tasks missing')
    stop_old = A.sym.stop_at
    A.sym.stop_at = {fi.qualname for fi in A.prog.functions.values() if fi.name in ('fullname', '_create_task')}
    try:
        ct = A.sym.func_term(fct, ('inst', tc))
    finally:
        A.sym.stop_at = stop_old
    cfgt = ('attr', ('self',), 'config')

    def real_part(m):
        # {cls.fullname(self.config): self._create_task(cls, self.config) for cls in self._tasks}
        return m[0] == 'mapdict' and len(m[1]) == 1 and m[5] is None and m[4] == ('attr', ('self',), '_tasks') and \
            m[2][0] == 'ref' and m[2][1].endswith('fullname') and m[2][2] == m[1][0] and m[2][3] == (cfgt,) and \
            m[3][0] == 'ref' and m[3][1].endswith('_create_task') and m[3][3][:2] == (m[1][0], cfgt)

    def mock_part(m):
        # {name or cls.fullname(self.config): MockTask(value) for name-or-cls, value in self._mock_tasks.items()}
        mt = ('attr', ('self',), '_mock_tasks')
        if m[0] == 'mapdict' and len(m[1]) == 2 and m[5] is None and m[4] == ('items', mt):
            k, v = m[1]
        elif m[0] == 'mapdict' and len(m[1]) == 1 and m[5] is None and m[4] in (mt, ('keys', mt)):
            k, v = m[1][0], ('index', mt, m[1][0])    # for key in mapping: value = mapping[key]
        else:
            return False
        key_ok = m[2] == ('cond', ('isinst', k, ('global', 'str')), k, ('ref', 'MetaTask.fullname', k, (cfgt,))) or (m[2][0] == 'cond' and m[2][2] == k and m[2][3][0] == 'ref' and m[2][3][1].endswith('fullname'))
        return key_ok and m[3][0] == 'new' and m[3][1] == 'MockTask' and m[3][2] == (v,)

    parts = list(ct[2]) if ct[0] == 'call' and ct[1] == 'merge' else [ct]
    kinds = ['real' if real_part(p_) else 'mock' if mock_part(p_) else None for p_ in parts]
    if has_opaque(ct) and None in kinds:
        R.undecided('R19.2', 'TestChain._create_tasks', 'the created mapping could not be evaluated symbolically', where=where(fct))
    else:
        ok_parts = None not in kinds and 'real' in kinds and 'mock' in kinds
        order_ok = ok_parts and max(i for i, k_ in enumerate(kinds) if k_ == 'real') < min(i for i, k_ in enumerate(kinds) if k_ == 'mock')
        R.check(ok_parts and order_ok, 'R19.2', 'TestChain._create_tasks', key_of('create', kinds), 'real tasks via _create_task(cls, self.config); every mock registered under its name, mocks last (a mocked name is served by the mock)',
                ('a task listed both in `tasks` and in `mock_tasks` is served by the real task: the mocked value is ignored and the real task is run' if ok_parts and not order_ok else
                 'real tasks are not created like in a chain with the helper config, or some mock / task is skipped or renamed'), witness=[pretty(ct)[:400]], where=where(fct))

    # ---- R19.3
    R.rule('R19.3', 'the parameters given to the helper are the config data, unchanged', floor=1)
    tinit = tc.methods.get('__init__')
    cfgs = [n for n in inl(A, tinit) if isinstance(n, ast.Call) and src(n.func) == 'Config']
    R.require(cfgs, 'anchor: Config(...) construction missing in TestChain.__init__')
    pname = 'parameters'
    R.require(pname in tinit.params, 'anchor: TestChain.__init__ has no `parameters` argument')
    cinit = A.cls('Config').lookup('__init__')
    pt = ('p', pname)
    for c in cfgs:
        ba = bound_args(c, cinit) or {}
        dn = ba.get('data')
        A.sym.keep_copies = True   # a copy of a parameter object is another object than the one the caller keeps configuring
        try:
            ts = A.sym.terms_at(tinit, ('inst', tc), [dn])[id(dn)] if dn is not None else []
        finally:
            A.sym.keep_copies = False
        # the data are the argument itself; only `None` may be replaced (by an empty mapping)
        ok = bool(ts) and all(assume(t, lambda c_: False if c_ == ('cmp', 'Is', pt, ('lit', None)) else (True if c_ in (pt, ('cmp', 'IsNot', pt, ('lit', None))) else None)) == pt
                              and assume(t, lambda c_: True if c_ == ('cmp', 'Is', pt, ('lit', None)) else (False if c_ in (pt, ('cmp', 'IsNot', pt, ('lit', None))) else None)) in (('dict', ()), pt, ('call', 'dict', ()))
                              for t in ts)
        shown = pretty(ts[0])[:160] if ts else None
        R.check(ok, 'R19.3', 'TestChain.__init__: Config(data=...)', key_of('params', shown), 'data = the parameters argument',
                f'the helper\'s config data is `{shown}`: parameters are filtered, rewritten or copied before the task sees them (a real chain passes the caller\'s objects as given)', where=where(tinit, c))
    sup = [n for n in A.typer.own_nodes(tinit) if isinstance(n, ast.Call) and src(n.func) == 'super().__init__']
    cfg_stores = [n for n in inl(A, tinit) if isinstance(n, ast.Assign) and any(src(t_) == 'self.config' for t_ in n.targets)]

    def is_helper_config(e):
        """self.config, or the local that is stored in self.config, or the Config(...) construction itself"""
        if src(e) == 'self.config':
            return True
        if isinstance(e, ast.Name) and any(isinstance(st.value, ast.Name) and st.value.id == e.id for st in cfg_stores):
            return subst_single_assign(A, tinit, e) in cfgs
        return False

    R.check(bool(sup) and all(len(c.args) == 1 and is_helper_config(c.args[0]) and not c.keywords for c in sup), 'R19.3', 'TestChain.__init__: super().__init__', key_of('super-init'), 'base chain built from the helper config (parameter mode default)',
            'the base Chain is not constructed from the helper\'s config with default settings', where=where(tinit))

    # ---- R19.7
    R.rule('R19.7', 'a helper never serves a result stored for other parameters / mock values: its store is private, or its storage key names both', floor=1)
    recreated = any(s_ == '_recreate_tasks_with_parameter_config' for s_, _ in stage_sequence(A, fprep))
    for c in cfgs:
        ba = bound_args(c, cinit) or {}
        bd, nm = ba.get('base_dir'), ba.get('name')
        got = A.sym.terms_at(tinit, ('inst', tc), [x for x in (bd, nm) if x is not None])
        bts = got.get(id(bd), []) if bd is not None else []
        nts = got.get(id(nm), []) if nm is not None else []
        if not bts or any(has_opaque(t) for t in bts + nts):
            R.undecided('R19.7', 'TestChain.__init__: store of the helper', 'base_dir / name of the helper config could not be evaluated symbolically', where=where(tinit, c))
            continue
        caller_store = any(contains(t, lambda x: x == ('p', 'base_dir')) and
                           not is_opaque(assume(t, lambda c_: False if c_ == ('cmp', 'Is', ('p', 'base_dir'), ('lit', None)) else (True if c_ in (('p', 'base_dir'), ('cmp', 'IsNot', ('p', 'base_dir'), ('lit', None))) else None)))
                           for t in bts)
        names_inputs = bool(nts) and all(contains(t, lambda x: x == ('p', 'parameters')) and contains(t, lambda x: x == ('p', 'mock_tasks')) for t in nts)
        shown = pretty(nts[0])[:80] if nts else None
        if recreated and not names_inputs:
            R.undecided('R19.7', 'TestChain.__init__: store of the helper', 'the helper recreates its tasks with parameter configs: whether the keys also name the mocked values is not decided here', where=where(tinit, c))
            continue
        R.check(not caller_store or names_inputs, 'R19.7', 'TestChain.__init__: store of the helper', key_of('helper-store', caller_store, names_inputs),
                'the store is private to the helper, or the storage name depends on the parameters and the mocked values',
                f'helper tasks are stored in the caller\'s `base_dir` under the name `{shown}`, which depends on neither the parameters nor the mocked values (and TestChain._prepare skips the parameter-hash pass): '
                'a second helper on the same base_dir loads the result computed for other parameters / mocks, where a real chain recomputes', where=where(tinit, c))

    # ---- R19.8 / R19.9 the contract a mock can serve: other code asks a task object for `.value`
    taskc = A.cls('Task')
    R.rule('R19.8', 'chain code never reads `.data` of a task object: results are requested through `.value`, the member MockTask overrides', floor=1)
    n8 = 0
    bad8 = []
    for ci_ in (chain, A.cls('MultiChain'), tc):
        for m_ in ci_.methods.values():
            for g_ in [m_] + list(m_.nested.values()):
                ctxs_ = A.ctxs(g_) or [Ctx(g_, ('inst', ci_))]
                for n_ in A.typer.own_nodes(g_):
                    if isinstance(n_, ast.Attribute) and n_.attr in ('data', '_data') and isinstance(n_.ctx, ast.Load) and src(n_.value) != 'self':
                        tys = set()
                        for cx in ctxs_[:4]:
                            tys |= set(A.typer.expr(n_.value, cx))
                        if any(t_[0] == 'inst' and hasattr(t_[1], 'is_subclass_of') and t_[1].is_subclass_of(taskc) for t_ in tys):
                            bad8.append((g_, n_))
            n8 += 1
    R.check(not bad8, 'R19.8', 'Chain / MultiChain / TestChain: reads of task results', key_of('task-data-read', sorted({f'{g_.short}:{src(n_)}' for g_, n_ in bad8})), f'{n8} methods: task results are only requested through .value',
            f'`{src(bad8[0][1]) if bad8 else ""}` in {bad8[0][0].short if bad8 else ""} goes to the load / run pipeline of the task object directly: a mocked task (which only overrides `value`, has no config and no run()) is run for real and fails, where the real chain just works',
            where=where(bad8[0][0], bad8[0][1]) if bad8 else where(chain.methods['force']))
    R.rule('R19.9', 'while a task is computed, its input task objects are only asked for `.value` (a mock has no config, storage name or data object)', floor=1)
    mock_members = set(mock.methods)
    run_path = [taskc.methods[k] for k in ('data', '_get_run_arguments', '_init_run_info', '_finish_run_info', '_process_run_result', 'value', 'save_to_run_info') if k in taskc.methods]
    bad9 = []
    n9 = 0
    for m_ in run_path:
        owned = set()
        nodes_ = list(A.typer.own_nodes(m_))

        def from_inputs(e):
            if isinstance(e, ast.Name):
                return e.id in owned
            if isinstance(e, ast.Attribute):
                return (src(e) in ('self.input_tasks', 'self._input_tasks')) or from_inputs(e.value)
            if isinstance(e, ast.Subscript):
                return from_inputs(e.value)
            if isinstance(e, ast.Call):
                return (isinstance(e.func, ast.Attribute) and e.func.attr in ('values', 'items', 'get') and from_inputs(e.func.value)) or any(from_inputs(a_) for a_ in e.args)
            if isinstance(e, (ast.BoolOp,)):
                return any(from_inputs(v_) for v_ in e.values)
            if isinstance(e, ast.IfExp):
                return from_inputs(e.body) or from_inputs(e.orelse)
            return False

        ch = True
        while ch:
            ch = False
            for n_ in nodes_:
                tg = val = None
                if isinstance(n_, ast.Assign) and len(n_.targets) == 1:
                    tg, val = n_.targets[0], n_.value
                elif isinstance(n_, (ast.For, ast.comprehension)):
                    tg, val = n_.target, n_.iter
                if tg is not None and from_inputs(val):
                    for x in ast.walk(tg):
                        if isinstance(x, ast.Name) and x.id not in owned:
                            owned.add(x.id)
                            ch = True
        for n_ in nodes_:
            if isinstance(n_, ast.Attribute) and isinstance(n_.value, (ast.Name, ast.Subscript)) and from_inputs(n_.value) and not src(n_.value).startswith('self.'):
                n9 += 1
                if n_.attr not in mock_members and n_.attr not in ('value',) and n_.attr in taskc.methods:
                    bad9.append((m_, n_))
    R.check(not bad9, 'R19.9', 'Task.data and its helpers: members read from input task objects', key_of('input-member', sorted({src(n_) for _, n_ in bad9})), f'{n9} access(es), all `.value`',
            f'`{src(bad9[0][1]) if bad9 else ""}` is read from an input task object while the task is computed: for a mocked input (no config, no data object) this raises and replaces the error / value a real chain produces',
            where=where(bad9[0][0], bad9[0][1]) if bad9 else where(taskc.methods['data']))

    # ---- R19.4
    R.rule('R19.4', 'create_test_task builds TestChain([task], parameters, mocks, base_dir) and returns chain[task.fullname(config)]', floor=1)
    fctt = A.func('create_test_task')
    tcs = [n for n in inl(A, fctt) if isinstance(n, ast.Call) and src(n.func) == 'TestChain']
    ok = False
    tinit4 = tc.methods.get('__init__')
    for c in tcs:
        ba = bound_args(c, tinit4) or {}
        at = A.sym.terms_at(fctt, None, list(ba.values()))
        got = {k: at[id(v)] for k, v in ba.items()}
        want = {'tasks': [('list', (('p', fctt.params[0]),))], 'parameters': [('p', 'parameters')], 'mock_tasks': [('p', 'input_tasks')], 'base_dir': [('p', 'base_dir')]}
        ok = all(got.get(k) == v for k, v in want.items()) and set(got) <= set(want)
    rets = [n for n in A.typer.own_nodes(fctt) if isinstance(n, ast.Return)]
    ret_ok = bool(rets)
    for r in rets:
        v = subst_single_assign(A, fctt, r.value) if r.value is not None else None
        good = False
        # chain[name] is Chain.__getitem__, which is `self.get(name)`: both spellings are the lookup by name
        getitem = A.cls('Chain').methods.get('__getitem__')
        by_get = isinstance(v, ast.Call) and isinstance(v.func, ast.Attribute) and v.func.attr == 'get' and len(v.args) == 1 and not v.keywords and getitem is not None \
            and [src(st) for st in getitem.node.body if not (isinstance(st, ast.Expr) and isinstance(st.value, ast.Constant))] == [f'return self.get({getitem.params[1]})']
        if isinstance(v, ast.Subscript) or by_get:
            base = subst_single_assign(A, fctt, v.value if isinstance(v, ast.Subscript) else v.func.value)
            key = subst_single_assign(A, fctt, v.slice if isinstance(v, ast.Subscript) else v.args[0])
            good = base in tcs and isinstance(key, ast.Call) and isinstance(key.func, ast.Attribute) and key.func.attr == 'fullname' and src(key.func.value) == fctt.params[0] \
                and len(key.args) == 1 and isinstance(key.args[0], ast.Attribute) and key.args[0].attr == 'config' and subst_single_assign(A, fctt, key.args[0].value) in tcs
        ret_ok = ret_ok and good
    R.check(ok and ret_ok, 'R19.4', 'create_test_task', key_of('create_test_task', ok, ret_ok), 'arguments forwarded, task looked up by full name', 'create_test_task does not forward its arguments unchanged / return the requested task', where=where(fctt))

    # ---- R19.5 / R19.6
    R.rule('R19.5', 'pattern inputs are matched against the registered task names (segment-wise namespace, fullmatch)', floor=1)
    check_expand_tasks(A, R, 'R19.5')
    from .c08 import check_declaration_loop
    check_declaration_loop(A, R, 'R19.5')
    from .c08 import check_bound_input
    R.rule('R19.10', 'a missing input referenced by class is reported at construction: the bound task is the one registered under the class\'s own name', floor=1)
    check_bound_input(A, R, 'R19.10')
    R.rule('R19.6', 'run() arguments are bound by name from input tasks and declared parameters only', floor=1)
    check_run_argument_binding(A, R, 'R19.6')


def _parents(n):
    p = getattr(n, '_parent', None)
    while p is not None and not isinstance(p, (ast.FunctionDef, ast.AsyncFunctionDef)):
        yield p
        p = getattr(p, '_parent', None)
