"""C10 - task names resolve uniquely or not at all.

R10.1 the suffix-priority test is separator-aware (name-kind lint on the resolver);
R10.2 raise discipline: several matches -> only a candidate proven minimal over *all* matches is returned, otherwise
      KeyError; no match -> KeyError; positional picks only when exactly one match remains;
R10.3 every name-access entry point routes through the one resolver; __contains__ converts exactly KeyError to False.
"""
from __future__ import annotations

import ast

from ..callgraph import show_path
from ..model import src
from ..report import Report, key_of
from .c08 import check_name_tests
from .common import TRUSTED_BASE, cfg_nodes_for, subst_single_assign, where

ENTRY = [('Chain', 'get'), ('Chain', '__getitem__'), ('Chain', '__getattr__'), ('Chain', '__contains__'), ('Chain', 'get_task'),
         ('InputTasks', 'get'), ('InputTasks', '__getitem__'), ('InputTasks', '__contains__')]


def run(A, R: Report, thorough: bool):
    R.explanation = ('Name-kind lint on the resolver; CFG facts at every return / raise of _find_task_full_name (the count of matches is touched only through comparisons, so the '
                     'finite set of orderings n=0, n=1, n>1 is covered by branch facts); call-graph must-reach from every name-access entry point. Not decided: the full resolution table.')
    R.trusted = TRUSTED_BASE
    f = A.func('_find_task_full_name')
    cfg = A.cfg(f)

    R.rule('R10.1', 'affix tests between task names in the resolver and in the resolution of declared inputs carry the separator', floor=2)
    n = check_name_tests(A, R, 'R10.1', only={f.short, 'Chain._process_dependencies', 'Chain._expand_tasks'} | {nf.short for nf in f.nested.values()})

    # ---- R10.2
    R.rule('R10.2', 'n>1: return only under a universally quantified minimality test, else raise; n=0: raise; positional pick only when n=1', floor=3)
    # the list of matches
    lists = [n for n in A.typer.own_nodes(f) if isinstance(n, ast.Assign) and isinstance(n.value, ast.ListComp) and len(n.targets) == 1 and isinstance(n.targets[0], ast.Name)]
    R.require(lists, 'anchor: list of matching tasks not found in _find_task_full_name')
    mvar = lists[0].targets[0].id
    comp = lists[0].value
    tasks_param = f.params[1]
    R.check(src(comp.generators[0].iter) == tasks_param and isinstance(comp.elt, ast.Name) and comp.elt.id == src(comp.generators[0].target), 'R10.2', '_find_task_full_name: matches',
            key_of('matches', src(comp)[:80]), f'{mvar} = all tasks that match', 'the candidate list is not a filter over all given tasks', where=where(f, comp))

    def fact_texts(nid):
        return [(src(subst_single_assign(A, f, a)), pol) for a, pol in cfg.facts_at(nid)]

    many = f'len({mvar}) > 1'
    none = f'len({mvar}) == 0'
    rets = [n for n in cfg.nodes.values() if n.kind == 'stmt' and isinstance(n.ast, ast.Return) and n.id in cfg.reachable_nodes()]
    raises = [n for n in cfg.nodes.values() if n.kind == 'stmt' and isinstance(n.ast, ast.Raise) and n.id in cfg.reachable_nodes()]
    for rn in rets:
        v = rn.ast.value
        facts = fact_texts(rn.id)
        vs = src(v) if v is not None else 'None'
        if isinstance(v, ast.Subscript) and src(v.value) == mvar or 'next(' in vs:
            ok = (many, False) in facts and ((none, False) in facts or (f'len({mvar}) == 1', True) in facts or (f'not {mvar}', False) in facts)
            R.check(ok, 'R10.2', f'_find_task_full_name: `return {vs}`', key_of('positional', vs, ok), 'only when exactly one match remains',
                    f'`return {vs}` picks a match by position while several (or no) matches are possible: resolution depends on declaration order', witness=[str(facts)], where=where(f, rn.ast))
        elif isinstance(v, ast.Name) and not any(isinstance(lp, ast.For) and src(lp.iter) == mvar and src(lp.target) == v.id for lp in A.typer.own_nodes(f)):
            # a local that is not the candidate-loop variable: judge by its definition
            unpack = [n for n in A.typer.own_nodes(f) if isinstance(n, ast.Assign) and isinstance(n.targets[0], (ast.Tuple, ast.List)) and len(n.targets[0].elts) == 1
                      and src(n.targets[0].elts[0]) == v.id and src(n.value) == mvar]
            first = [n for n in A.typer.own_nodes(f) if isinstance(n, ast.Assign) and src(n.targets[0]) == v.id and isinstance(n.value, ast.Subscript) and src(n.value.value) == mvar]
            if unpack:
                R.ok('R10.2', f'_find_task_full_name: `return {vs}`', 'single-element unpacking: raises unless exactly one match', where=where(f, rn.ast))
            elif first:
                ok = (many, False) in facts and ((none, False) in facts or (f'not {mvar}', False) in facts)
                R.check(ok, 'R10.2', f'_find_task_full_name: `return {vs}`', key_of('positional', vs, ok), 'only when exactly one match remains',
                        f'`return {vs}` picks a match by position while several (or no) matches are possible', witness=[str(facts)], where=where(f, rn.ast))
            else:
                R.undecided('R10.2', f'_find_task_full_name: `return {vs}`', 'return form not recognised', where=where(f, rn.ast))
        elif isinstance(v, ast.Name):
            # a loop candidate: must be guarded by all(... for t in matches)
            quant = [a for a, pol in cfg.facts_at(rn.id) if pol and isinstance(a, ast.Call) and src(a.func) == 'all' and a.args and isinstance(a.args[0], ast.GeneratorExp)]
            ok = bool(quant) and all(src(q.args[0].generators[0].iter) == mvar and not q.args[0].generators[0].ifs and v.id in src(q.args[0].elt) for q in quant)
            R.check(ok, 'R10.2', f'_find_task_full_name: `return {vs}`', key_of('candidate', vs, ok), 'candidate is compared with every match',
                    f'`return {vs}` is not guarded by a test over all matches: an ambiguous short name resolves to whichever match comes first', witness=[str(facts)], where=where(f, rn.ast))
        else:
            R.undecided('R10.2', f'_find_task_full_name: `return {vs}`', 'return form not recognised', where=where(f, rn.ast))
    r_many = [rn for rn in raises if (many, True) in fact_texts(rn.id) and 'KeyError' in src(rn.ast)]
    r_none = [rn for rn in raises if ((none, True) in fact_texts(rn.id) or (f'not {mvar}', True) in fact_texts(rn.id)) and 'KeyError' in src(rn.ast)]
    R.check(bool(r_many), 'R10.2', '_find_task_full_name: ambiguity', key_of('raise-many'), 'KeyError when several matches remain', 'no KeyError is raised for an ambiguous name', where=where(f))
    R.check(bool(r_none), 'R10.2', '_find_task_full_name: absence', key_of('raise-none'), 'KeyError when nothing matches', 'no KeyError is raised for an unknown name', where=where(f))
    # every path to the function's normal exit with n>1 known passes the quantified loop: the ambiguity raise dominates nothing else
    for rn in r_many:
        # between the candidate loop and the raise there must be no other return
        pass

    # ---- R10.3
    R.rule('R10.3', 'every name-access entry point reaches the resolver; __contains__ converts exactly KeyError to False', floor=8)
    cg = A.cg

    def goal(e):
        return e.target.kind == 'func' and e.target.func is f

    for cname, mname in ENTRY:
        ci = A.cls(cname)
        m = ci.methods.get(mname)
        if m is None:
            R.violation('R10.3', f'{cname}.{mname}', key_of('missing', cname, mname), f'{cname}.{mname} no longer exists: this access path falls back to plain dict behaviour (exact keys only)', where=cname)
            continue
        p = cg.find_path(A.ctxs(m), goal)
        if p is None:
            R.violation('R10.3', f'{cname}.{mname}', key_of('bypass', cname, mname), f'{cname}.{mname} does not route through _find_task_full_name: short / qualified names resolve differently on this access path', where=where(m))
            continue
        if mname == '__contains__':
            hs = [n for n in A.typer.own_nodes(m) if isinstance(n, ast.ExceptHandler)]
            ok = bool(hs) and all(h.type is not None and src(h.type) == 'KeyError' and len(h.body) == 1 and isinstance(h.body[0], ast.Return) and src(h.body[0].value) == 'False' for h in hs)
            R.check(ok, 'R10.3', f'{cname}.{mname}', key_of('contains-handler', [src(h.type) if h.type else 'bare' for h in hs]), 'reaches the resolver; KeyError -> False',
                    '__contains__ does not convert exactly KeyError to False (ambiguity would be reported as absence/presence, or other errors hidden)', witness=show_path(p), where=where(m))
        else:
            R.ok('R10.3', f'{cname}.{mname}', 'reaches the resolver', witness=show_path(p), where=where(m))

    # ---- R10.4 resolution keeps no state
    from ..types import Ctx
    from .purity import check_stateless
    R.rule('R10.4', 'name resolution is a function of the query and the current task names: no memo on the chain, the class or the module', floor=8)
    for cname, mname in ENTRY:
        ci = A.cls(cname)
        m = ci.methods.get(mname)
        if m is not None:
            check_stateless(A, R, 'R10.4', f'{cname}.{mname}', [Ctx(m, ('inst', ci))], 'a remembered resolution is reused for another set of task names (another chain, more tasks): ambiguity is no longer detected', any_receiver=False, at=where(m))
    check_stateless(A, R, 'R10.4', '_find_task_full_name', [Ctx(f, None)], 'the resolver must not remember earlier answers', any_receiver=True, at=where(f))
