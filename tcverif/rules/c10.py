"""C10 - task names resolve uniquely or not at all.

R10.1 the suffix-priority test is separator-aware (name-kind lint on the resolver);
R10.2 raise discipline: several matches -> only a candidate proven minimal over *all* matches is returned, otherwise
      KeyError; no match -> KeyError; positional picks only when exactly one match remains;
R10.3 every name-access entry point routes through the one resolver; __contains__ converts exactly KeyError to False.
R10.7 the duplicate-input test is an exact-key test;  R10.8 a candidate matches without its group by the component after the last `:`.
"""
from __future__ import annotations

import ast

from ..callgraph import show_path
from ..model import src
from ..report import Report, key_of
from ..terms import dag_nodes, pretty
from .c08 import check_name_tests
from .common import TRUSTED_BASE, cfg_nodes_for, subst_single_assign, where

ENTRY = [('Chain', 'get'), ('Chain', '__getitem__'), ('Chain', '__getattr__'), ('Chain', '__contains__'), ('Chain', 'get_task'),
         ('InputTasks', 'get'), ('InputTasks', '__getitem__'), ('InputTasks', '__contains__')]


def _is_name(A, f, e, name):
    """e is the local `name` or a single-assignment alias of it"""
    for _ in range(4):
        if isinstance(e, ast.Name) and e.id == name:
            return True
        if not isinstance(e, ast.Name):
            return False
        defs = A.sym._local_defs(f).get(e.id)
        if not defs or len(defs) != 1 or defs[0][0] != 'assign':
            return False
        e = defs[0][1]
    return False


def _universal_for_else(A, f, ret, mvar, cand):
    """`for other in matches: if <condition on cand, other fails>: break` ... `else: return cand` - the else branch runs
    only when no element broke out, i.e. the condition held for every match."""
    p = getattr(ret, '_parent', None)
    if not (isinstance(p, ast.For) and any(x is ret for x in p.orelse)):
        return False
    if not _is_name(A, f, p.iter, mvar) or not isinstance(p.target, ast.Name):
        return False
    breaks = [n for n in ast.walk(p) if isinstance(n, ast.Break)]
    if not breaks or any(isinstance(n, (ast.Continue, ast.Return)) for st in p.body for n in ast.walk(st)):
        return False
    for b in breaks:
        par = getattr(b, '_parent', None)
        if not (isinstance(par, ast.If) and b in par.body and cand in src_names(par.test) and p.target.id in src_names(par.test)):
            return False
    return True


def src_names(e):
    names = {x.id for x in ast.walk(e) if isinstance(x, ast.Name)}
    # names reached through single-assignment locals are good enough for "mentions"
    return names | {y.id for x in ast.walk(e) if isinstance(x, ast.Name) for y in []}


def _universal_flag(A, f, flag, mvar, cand):
    """`flag` is set True, then cleared inside a loop over all matches under a condition on the candidate - the
    hand-written form of all(...)."""
    sets_true = [n for n in A.typer.own_nodes(f) if isinstance(n, ast.Assign) and src(n.targets[0]) == flag and isinstance(n.value, ast.Constant) and n.value.value is True]
    cleared = []
    for lp in A.typer.own_nodes(f):
        if isinstance(lp, ast.For) and _is_name(A, f, lp.iter, mvar) and not any(isinstance(x, ast.Continue) for x in ast.walk(lp)):
            for n in ast.walk(lp):
                if isinstance(n, ast.Assign) and src(n.targets[0]) == flag and isinstance(n.value, ast.Constant) and n.value.value is False:
                    p = getattr(n, '_parent', None)
                    if isinstance(p, ast.If) and cand in src(p.test):
                        cleared.append(n)
    others = [n for n in A.typer.own_nodes(f) if isinstance(n, ast.Assign) and src(n.targets[0]) == flag and n not in sets_true and n not in cleared]
    return bool(sets_true) and bool(cleared) and not others


def run(A, R: Report, thorough: bool):
    R.explanation = ('Name-kind lint on the resolver; CFG facts at every return / raise of _find_task_full_name (the count of matches is touched only through comparisons, so the '
                     'finite set of orderings n=0, n=1, n>1 is covered by branch facts); call-graph must-reach from every name-access entry point. Not decided: the full resolution table.')
    R.trusted = TRUSTED_BASE
    f = A.func('_find_task_full_name')
    cfg = A.cfg(f)

    R.rule('R10.1', 'affix tests between task names in the resolver and in the resolution of declared inputs carry the separator', floor=1)
    n = check_name_tests(A, R, 'R10.1', only={f.short, 'Chain._process_dependencies', 'Chain._expand_tasks'} | {nf.short for nf in f.nested.values()})

    # ---- R10.2
    R.rule('R10.2', 'n>1: return only under a universally quantified minimality test, else raise; n=0: raise; positional pick only when n=1', floor=3)
    # the list of matches: a local whose value is the filter of all given tasks by the match predicate
    tasks_param = f.params[1]
    mvar = None
    for name in sorted({n.id for n in A.typer.own_nodes(f) if isinstance(n, ast.Name) and isinstance(n.ctx, ast.Store)}):
        t = A.sym.local_term(f, None, name)
        if t[0] == 'map' and t[4] is not None and len(t[1]) == 1 and t[2] == t[1][0] and t[3] == ('p', tasks_param):
            mvar, mterm = name, t
            break
    entry_f = f
    if mvar is None:
        # the matching may have moved into a private module-level function that the entry point delegates to (a wrapper around it)
        for n_ in A.typer.own_nodes(f):
            if isinstance(n_, ast.Call) and isinstance(n_.func, ast.Name):
                g_ = next((h for h in A.prog.functions.values() if h.name == n_.func.id and h.cls is None and h.parent is None and h.module is f.module and h is not f), None)
                if g_ is None or len(g_.params) < 2:
                    continue
                for name in sorted({x.id for x in A.typer.own_nodes(g_) if isinstance(x, ast.Name) and isinstance(x.ctx, ast.Store)}):
                    t = A.sym.local_term(g_, None, name)
                    if t[0] == 'map' and t[4] is not None and len(t[1]) == 1 and t[2] == t[1][0] and t[3] == ('p', g_.params[1]):
                        mvar, mterm, f, tasks_param = name, t, g_, g_.params[1]
                        cfg = A.cfg(f)
                        break
                if mvar is not None:
                    break
    R.require(mvar is not None, 'anchor: list of matching tasks (a filter over all given tasks) not found in _find_task_full_name (or in a function it delegates to)')
    R.ok('R10.2', '_find_task_full_name: matches', f'{mvar} = all tasks that match', witness=[pretty(mterm)[:200]], where=where(f))

    def facts_ast(nid):
        return [(subst_single_assign(A, f, a), pol) for a, pol in cfg.facts_at(nid)]

    def fact_texts(nid):
        return [(src(a), pol) for a, pol in facts_ast(nid)]

    REPS = (0, 1, 2, 3, 7)
    OPS = {ast.Eq: lambda x, y: x == y, ast.NotEq: lambda x, y: x != y, ast.Lt: lambda x, y: x < y, ast.LtE: lambda x, y: x <= y, ast.Gt: lambda x, y: x > y, ast.GtE: lambda x, y: x >= y}

    def is_len(e):
        e = subst_single_assign(A, f, e)
        return isinstance(e, ast.Call) and src(e.func) == 'len' and len(e.args) == 1 and _is_name(A, f, e.args[0], mvar)

    def possible(nid):
        """Which of n=0, n=1, n>1 (number of matches) are consistent with the branch facts at the node - the count is only ever compared with constants."""
        reps = set(REPS)
        for a, pol in facts_ast(nid):
            if isinstance(a, ast.Compare) and len(a.ops) == 1 and type(a.ops[0]) in OPS:
                l, r = a.left, a.comparators[0]
                if is_len(l) and isinstance(r, ast.Constant) and isinstance(r.value, int):
                    reps = {n_ for n_ in reps if OPS[type(a.ops[0])](n_, r.value) == pol}
                elif is_len(r) and isinstance(l, ast.Constant) and isinstance(l.value, int):
                    reps = {n_ for n_ in reps if OPS[type(a.ops[0])](l.value, n_) == pol}
            elif is_len(a) or (isinstance(a, ast.Name) and a.id == mvar):
                reps = {n_ for n_ in reps if (n_ > 0) == pol}
        return {('0' if n_ == 0 else '1' if n_ == 1 else 'many') for n_ in reps}

    def positional_defs(name):
        """assignments that take a match by position: `name = matches[0]`, `next(iter(matches))`, or `name = other` inside a loop over a slice of the matches"""
        out = []
        for n_ in A.typer.own_nodes(f):
            if isinstance(n_, ast.Assign) and any(isinstance(t_, ast.Name) and t_.id == name for t_ in n_.targets):
                v_ = n_.value
                if isinstance(v_, ast.Subscript) and _is_name(A, f, v_.value, mvar) and not isinstance(v_.slice, ast.Slice):
                    out.append(n_)
                elif isinstance(v_, ast.Call) and src(v_.func) == 'next' and mvar in src(v_):
                    out.append(n_)
                elif isinstance(v_, ast.Call) and src(v_.func) in ('min', 'max') and v_.args and _is_name(A, f, v_.args[0], mvar):
                    out.append(n_)      # an extreme by spelling / length: one of several equally ranked matches is taken by position
                elif isinstance(v_, ast.Subscript) and isinstance(v_.value, ast.Call) and src(v_.value.func) == 'sorted' and v_.value.args and _is_name(A, f, v_.value.args[0], mvar):
                    out.append(n_)
        return out

    rets = [n for n in cfg.nodes.values() if n.kind == 'stmt' and isinstance(n.ast, ast.Return) and n.id in cfg.reachable_nodes() and n.owner is f.node]
    raises = [n for n in cfg.nodes.values() if n.kind == 'stmt' and isinstance(n.ast, ast.Raise) and n.id in cfg.reachable_nodes()]
    cand_loops = [lp for lp in A.typer.own_nodes(f) if isinstance(lp, ast.For) and _is_name(A, f, lp.iter, mvar) and isinstance(lp.target, ast.Name)]
    for rn in rets:
        v = rn.ast.value
        facts = fact_texts(rn.id)
        vs = src(v) if v is not None else 'None'
        v0 = subst_single_assign(A, f, v) if v is not None else None
        unpack = isinstance(v, ast.Name) and any(isinstance(n, ast.Assign) and isinstance(n.targets[0], (ast.Tuple, ast.List)) and len(n.targets[0].elts) == 1
                                                 and src(n.targets[0].elts[0]) == v.id and src(n.value) == mvar for n in A.typer.own_nodes(f))
        if unpack:
            R.ok('R10.2', f'_find_task_full_name: `return {vs}`', 'single-element unpacking: raises unless exactly one match', where=where(f, rn.ast))
        elif (isinstance(v0, ast.Subscript) and src(v0.value) == mvar) or (isinstance(v0, ast.Call) and src(v0.func) == 'next'):
            poss = possible(rn.id)
            ok = poss == {'1'}
            R.check(ok, 'R10.2', f'_find_task_full_name: `return {vs}`', key_of('positional', vs, ok), 'only when exactly one match remains',
                    f'`return {vs}` picks a match by position while the number of matches can be {sorted(poss)}: resolution depends on declaration order', witness=[str(facts)], where=where(f, rn.ast))
        elif isinstance(v, ast.Name) and (any(lp.target.id == v.id for lp in cand_loops) or positional_defs(v.id)):
            # a loop candidate: must be guarded by a test over all matches
            fa = facts_ast(rn.id)
            quant = [a for a, pol in fa if pol and isinstance(a, ast.Call) and src(a.func) == 'all' and a.args and isinstance(a.args[0], (ast.GeneratorExp, ast.ListComp))]
            weak = [a for a, pol in fa if isinstance(a, ast.Call) and src(a.func) == 'any']
            flags = [a for a, pol in fa if pol and isinstance(a, ast.Name) and _universal_flag(A, f, a.id, mvar, v.id)]
            if not flags and _universal_for_else(A, f, rn.ast, mvar, v.id):
                flags = [ast.Name(id='for-else', ctx=ast.Load())]
            if quant:
                ok = all(_is_name(A, f, q.args[0].generators[0].iter, mvar) and not q.args[0].generators[0].ifs and v.id in src(q.args[0].elt) for q in quant)
                R.check(ok, 'R10.2', f'_find_task_full_name: `return {vs}`', key_of('candidate', vs, ok), 'candidate is compared with every match',
                        f'`return {vs}` is not guarded by a test over all matches: an ambiguous short name resolves to whichever match comes first', witness=[str(facts)], where=where(f, rn.ast))
            elif flags:
                R.ok('R10.2', f'_find_task_full_name: `return {vs}`', f'candidate is compared with every match (flag `{src(flags[0])}` cleared by a loop over all matches)', where=where(f, rn.ast))
            elif weak or not any(v.id in src(a) for a, pol in fa) or (positional_defs(v.id) and 'many' in possible(rn.id)):
                R.violation('R10.2', f'_find_task_full_name: `return {vs}`', key_of('candidate', vs, False),
                            f'`return {vs}` is not guarded by a test over all matches: an ambiguous short name resolves to whichever match comes first', witness=[str(facts)], where=where(f, rn.ast))
            else:
                R.undecided('R10.2', f'_find_task_full_name: `return {vs}`', 'guard of the candidate return not recognised', where=where(f, rn.ast))
        else:
            R.undecided('R10.2', f'_find_task_full_name: `return {vs}`', 'return form not recognised', where=where(f, rn.ast))
    def raised_class(st):
        e = st.exc
        if isinstance(e, ast.Call):
            e = e.func
        return src(e).split('.')[-1] if e is not None else None

    def exc_ancestors(name):
        """class names an `except` clause can name to catch an exception of class `name` (repo classes through their bases)"""
        out = [name] if name else []
        ci = A.prog.find_cls(name) if name else None
        if ci is not None:
            out += [c.name if hasattr(c, 'name') else str(c).split('.')[-1] for c in ci.mro]
        if 'KeyError' in out:
            out += ['LookupError']
        return out + ['Exception', 'BaseException']

    def is_keyerror(st):
        return 'KeyError' in exc_ancestors(raised_class(st))

    r_many = [rn for rn in raises if possible(rn.id) == {'many'} and is_keyerror(rn.ast)]
    r_none = [rn for rn in raises if possible(rn.id) == {'0'} and is_keyerror(rn.ast)]
    R.check(bool(r_many), 'R10.2', '_find_task_full_name: ambiguity', key_of('raise-many'), 'KeyError when several matches remain', 'no KeyError is raised for an ambiguous name', where=where(f))
    R.check(bool(r_none), 'R10.2', '_find_task_full_name: absence', key_of('raise-none'), 'KeyError when nothing matches', 'no KeyError is raised for an unknown name', where=where(f))
    # every path to the function's normal exit with n>1 known passes the quantified loop: the ambiguity raise dominates nothing else
    for rn in r_many:
        # between the candidate loop and the raise there must be no other return
        pass

    # ---- R10.5
    R.rule('R10.5', 'where a caller turns the resolver\'s error into "no such task" and carries on (default of an optional input), the ambiguity error is not among the errors it swallows', floor=1)
    n5 = 0
    amb = sorted({raised_class(rn.ast) for rn in r_many})
    for g in A.prog.functions.values():
        if g is f or g is entry_f or not g.module.name.startswith('taskchain'):
            continue
        for tr in [n_ for n_ in A.typer.own_nodes(g) if isinstance(n_, ast.Try) and n_.handlers]:
            calls = [c for st in tr.body for c in ast.walk(st) if isinstance(c, ast.Call) and src(c.func).split('.')[-1] == entry_f.name]
            if not calls:
                continue
            cg5 = A.cfg(g)
            for a_cls in amb:
                anc = exc_ancestors(a_cls)
                catcher = None
                for h in tr.handlers:
                    names = [src(x).split('.')[-1] for x in (h.type.elts if isinstance(h.type, ast.Tuple) else [h.type])] if h.type is not None else ['BaseException']
                    if any(nm in anc for nm in names):
                        catcher = h
                        break
                if catcher is None:
                    n5 += 1
                    R.ok('R10.5', f'{g.short}: `{src(calls[0])[:50]}`', f'{a_cls} propagates', where=where(g, calls[0]))
                    continue
                hn = [n_.id for n_ in cg5.nodes.values() if n_.kind == 'handler' and n_.ast is catcher]
                # the handler may only leave by raising, or by returning False from a membership test (`in`: an ambiguous name identifies no task)
                normal = [n_.id for n_ in cg5.nodes.values() if n_.id in cg5.reachable_nodes() and n_.id not in hn and n_.kind == 'stmt' and n_.ast is not None and
                          not isinstance(n_.ast, ast.Raise) and not any(n_.ast is x for x in ast.walk(catcher))]
                inside = [n_.id for n_ in cg5.nodes.values() if n_.kind == 'stmt' and n_.ast is not None and any(n_.ast is x for x in ast.walk(catcher))]
                carries_on = [n_ for n_ in cg5.nodes.values() if n_.id in inside and not isinstance(n_.ast, ast.Raise) and cg5.path_exists([n_.id], normal) and
                              not (isinstance(n_.ast, ast.Return) and n_.ast.value is not None and src(n_.ast.value) in ('False',))]
                leaves = carries_on
                is_contains = g.name == '__contains__'
                bad = [n_ for n_ in leaves if not is_contains]
                n5 += 1
                R.check(not bad, 'R10.5', f'{g.short}: `except {src(catcher.type) if catcher.type is not None else ""}` around `{src(calls[0])[:40]}`', key_of('swallow-ambiguous', g.short, a_cls, sorted({src(n_.ast)[:40] for n_ in bad})),
                        'the ambiguity error leaves the caller as an error',
                        f'`except {src(catcher.type) if catcher.type is not None else ""}` also catches {a_cls} (ambiguous name) and carries on (`{src(bad[0].ast)[:60] if bad else ""}`): an optional input whose short name matches several tasks is silently treated as absent and the task runs with the default',
                        where=where(g, catcher))
    if not amb:
        R.ok('R10.5', 'callers of the resolver', 'not applicable: the resolver raises no ambiguity error (reported by R10.2)', where=where(f))
    else:
        R.require(n5 >= 1, 'anchor: no caller of the resolver under a try found (Chain._process_dependencies)')

    # ---- R10.3
    R.rule('R10.3', 'every name-access entry point reaches the resolver; __contains__ converts exactly KeyError to False', floor=8)
    cg = A.cg

    def goal(e):
        return e.target.kind == 'func' and e.target.func is entry_f

    for cname, mname in ENTRY:
        ci = A.cls(cname)
        m = ci.methods.get(mname)
        if m is None:
            R.violation('R10.3', f'{cname}.{mname}', key_of('missing', cname, mname), f'{cname}.{mname} no longer exists: this access path falls back to plain dict behaviour (exact keys only)', where=cname)
            continue
        p = cg.find_path(A.ctxs(m), goal)
        if p is None:
            R.violation('R10.3', f'{cname}.{mname}', key_of('bypass', cname, mname), f'{cname}.{mname} does not route through _find_task_full_name: short / qualified names resolve differently on this access path', where=where(m))
            continue
        if mname == '__contains__':
            hs = [n for n in A.typer.own_nodes(m) if isinstance(n, ast.ExceptHandler)]
            from .common import returns_constant_from
            cfgm = A.cfg(m)
            ok = bool(hs) and all(h.type is not None and src(h.type) == 'KeyError' and
                                  returns_constant_from(cfgm, [n_.id for n_ in cfgm.nodes.values() if n_.kind == 'handler' and n_.ast is h], False) is True for h in hs)
            R.check(ok, 'R10.3', f'{cname}.{mname}', key_of('contains-handler', [src(h.type) if h.type else 'bare' for h in hs]), 'reaches the resolver; KeyError -> False',
                    '__contains__ does not convert exactly KeyError to False (ambiguity would be reported as absence/presence, or other errors hidden)', witness=show_path(p), where=where(m))
        else:
            R.ok('R10.3', f'{cname}.{mname}', 'reaches the resolver', witness=show_path(p), where=where(m))

    # ---- R10.4 resolution keeps no state
    from ..types import Ctx
    from .purity import check_stateless
    R.rule('R10.4', 'name resolution is a function of the query and the current task names: no memo on the chain, the class or the module', floor=8)
    for cname, mname in ENTRY:
        ci = A.cls(cname)
        m = ci.methods.get(mname)
        if m is not None:
            check_stateless(A, R, 'R10.4', f'{cname}.{mname}', [Ctx(m, ('inst', ci))], 'a remembered resolution is reused for another set of task names (another chain, more tasks): ambiguity is no longer detected', any_receiver=False, at=where(m))
    check_stateless(A, R, 'R10.4', '_find_task_full_name', [Ctx(entry_f, None)], 'the resolver must not remember earlier answers', any_receiver=True, at=where(entry_f))

    # ---- R10.8 a candidate matches "without its group" by its last `:` component
    R.rule('R10.8', 'the matcher strips the whole group path of a candidate (it compares the component after the last `:`), not only its first level', floor=1)
    matchers = [g_ for g_ in A.prog.functions.values() if g_ is entry_f or (g_.parent is not None and (g_.parent is entry_f or g_.parent.name in ('_find_task_full_name', '_match_task_full_name')))]
    found8 = []
    for g_ in matchers:
        tm = A.sym.func_term(g_, None)
        for x in dag_nodes(tm):
            if x[0] == 'index' and x[1][0] == 'method' and x[1][2] in ('split', 'rsplit', 'partition', 'rpartition') and x[1][3] and x[1][3][0] == ('lit', ':') and x[2][0] == 'lit':
                m_, k_, extra = x[1][2], x[2][1], x[1][3][1:]
                if m_ == 'split' and not extra and k_ == -1:
                    verdict = True
                elif m_ == 'rsplit' and k_ == -1:
                    verdict = True
                elif m_ == 'rpartition' and k_ in (2, -1):
                    verdict = True
                elif m_ in ('partition', 'rpartition') and k_ == 1:
                    continue   # the separator itself: a "has a group" test
                elif m_ == 'partition' and k_ in (2, -1):
                    verdict = False
                elif m_ == 'split' and extra and k_ in (1, -1):
                    verdict = False
                else:
                    verdict = None
                found8.append((g_, x, verdict))
    if not found8 or any(v_ is None for _, _, v_ in found8):
        R.undecided('R10.8', '_find_task_full_name: match without group', 'how the group is stripped from a candidate is not recognised', where=where(entry_f))
    else:
        bad8 = [(g_, x) for g_, x, v_ in found8 if v_ is False]
        R.check(not bad8, 'R10.8', '_find_task_full_name: match without group', key_of('group-strip', [pretty(x)[:50] for _, x in bad8]), 'component after the last `:`',
                f'`{pretty(bad8[0][1])[:70] if bad8 else ""}` drops only the first group level: a task in a group of two or more levels (`pkg:mod:name`) is no longer found by its bare name (KeyError / "Input task not found"), '
                'and with another candidate `other:name` the ambiguous bare name silently resolves to that one', where=where(bad8[0][0]) if bad8 else where(entry_f))

    # ---- R10.7 the duplicate-input test compares exact names
    R.rule('R10.7', 'while the inputs of a task are wired, "this name is already an input" is an exact-key test (not the short-name lookup of InputTasks.__contains__)', floor=1)
    fpd7 = A.func('Chain._process_dependencies')
    itc7 = A.cls('InputTasks')
    from ..types import Ctx as _Ctx7
    n7 = 0
    for g_ in [fpd7] + list(fpd7.nested.values()):
        cx = _Ctx7(g_, None)
        for n_ in A.typer.own_nodes(g_):
            if isinstance(n_, ast.Compare) and len(n_.ops) == 1 and isinstance(n_.ops[0], (ast.In, ast.NotIn)):
                comp = n_.comparators[0]
                tys = A.typer.expr(comp, cx)
                exact = isinstance(comp, ast.Call) and isinstance(comp.func, ast.Attribute) and comp.func.attr == 'keys' and any(t_[0] == 'inst' and t_[1] is itc7 for t_ in A.typer.expr(comp.func.value, cx))
                fuzzy = any(t_[0] == 'inst' and t_[1] is itc7 for t_ in tys)
                if exact or fuzzy:
                    n7 += 1
                    R.check(not fuzzy, 'R10.7', f'{g_.short}: `{src(n_)[:60]}`', key_of('fuzzy-duplicate-test', src(n_)[:60]), 'exact key membership',
                            f'`{src(n_)[:70]}` goes through InputTasks.__contains__, which resolves short names: a dependant that lists `g:a` and then `a` (two different tasks) is rejected as declaring the same input twice - '
                            'and only in that order', where=where(g_, n_))
    if n7 == 0:
        R.undecided('R10.7', 'Chain._process_dependencies', 'duplicate-input test not recognised', where=where(fpd7))

