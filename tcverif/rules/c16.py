"""C16 - `cached` keys identify the call, not how it was written.

R16.1 positional-to-keyword normalisation: consistent offsets, defaults filled only when absent, positionals emptied,
      the binding lives in a per-call dict;  R16.2 canonical serialisation (sorted keys, recursively) of the binding
      minus ignored names;  R16.3 sub-cache name = method name [+ .version];  R16.4 control keywords routed;
R16.5 the in-memory cache decides presence by key membership (a stored None is a hit).
R16.9 a test on the kind of a parameter only sets *args / **kwargs aside;  R16.1 also: no binding container from a memoised function;  R16.10 / R16.11 imported from C15 / C14.
"""
from __future__ import annotations

import ast

from ..model import src
from ..report import Report, key_of
from ..terms import assume, dag_nodes, pretty
from ..types import Ctx
from .common import TRUSTED_BASE, bound_args, cfg_nodes_for, inl, where


def _const_offset(expr, var):
    """expr == var - k  ->  k ; expr == var -> 0 ; else None"""
    if isinstance(expr, ast.Name) and expr.id == var:
        return 0
    if isinstance(expr, ast.BinOp) and isinstance(expr.op, ast.Sub) and isinstance(expr.left, ast.Name) and expr.left.id == var and isinstance(expr.right, ast.Constant):
        return expr.right.value
    return None


def run(A, R: Report, thorough: bool):
    R.explanation = ('Idiom rule over the signature loop of cached.__call__.decorated (offsets are small linear expressions in the loop index, compared symbolically), def-use of the '
                     'binding dict, keyword arguments of the serialiser, symbolic term of the sub-cache name, CFG facts for the control keywords. Not decided: JSON distinguishability of '
                     'arbitrary argument values; call counts.')
    R.trusted = TRUSTED_BASE + ['json.dumps(sort_keys=True) sorts mapping keys at every nesting level']
    fcall = A.func('cached.__call__')
    fdec = fcall.nested.get('decorated')
    R.require(fdec is not None, 'anchor: cached.__call__.decorated missing')
    cfg = A.cfg(fdec)

    # ---- R16.1
    R.rule('R16.1', 'every parameter after self is bound by name: positional i -> args[i-1] while i-1 < len(args); defaults only when absent; positionals cleared; binding dict is per call', floor=2)
    # the binding must be built in objects created by this call: `decorated` may not mutate anything it closes over
    bound_names = A.typer._binding_names(fdec)
    aliases = {}
    for n in A.typer.own_nodes(fdec):
        if isinstance(n, ast.Assign) and len(n.targets) == 1 and isinstance(n.targets[0], ast.Name) and isinstance(n.value, ast.Name):
            aliases[n.targets[0].id] = n.value.id
        elif isinstance(n, ast.Assign) and isinstance(n.targets[0], ast.Tuple) and isinstance(n.value, ast.Tuple):
            for te, ve in zip(n.targets[0].elts, n.value.elts):
                if isinstance(te, ast.Name) and isinstance(ve, ast.Name):
                    aliases[te.id] = ve.id

    def origin(nm, depth=0):
        while nm in aliases and depth < 5:
            nm = aliases[nm]
            depth += 1
        return nm

    shared = []
    for n in A.typer.own_nodes(fdec):
        tgt = None
        if isinstance(n, ast.Call) and isinstance(n.func, ast.Attribute) and n.func.attr in ('update', 'setdefault', 'pop', 'clear', 'append', 'extend', '__setitem__') and isinstance(n.func.value, ast.Name):
            tgt = n.func.value.id
        elif isinstance(n, ast.Subscript) and isinstance(n.ctx, ast.Store) and isinstance(n.value, ast.Name):
            tgt = n.value.id
        if tgt is None:
            continue
        o = origin(tgt)
        if o not in bound_names or (o in aliases.values() and o not in fdec.params and o not in bound_names):
            shared.append((n, tgt, o))
        elif o != tgt and o not in fdec.params and not any(isinstance(x, ast.Assign) and any(src(t) == o for t in x.targets) for x in A.typer.own_nodes(fdec)):
            shared.append((n, tgt, o))
    # a container handed out by a memoised function is one object for all calls
    for n in A.typer.own_nodes(fdec):
        if isinstance(n, ast.Assign) and isinstance(n.value, ast.Call):
            tgs_ = [t_.func for t_ in A.typer.call_targets(n.value, Ctx(fdec, None)) if t_.kind == 'func']
            memo = [g_ for g_ in tgs_ if any(src(d_).split('(')[0].split('.')[-1] in ('lru_cache', 'cache', 'cached_property') for d_ in getattr(g_.node, 'decorator_list', []))]
            if memo:
                tnames = {x.id for t_ in n.targets for x in ast.walk(t_) if isinstance(x, ast.Name)}
                for m_ in A.typer.own_nodes(fdec):
                    tgt_ = None
                    if isinstance(m_, ast.Call) and isinstance(m_.func, ast.Attribute) and m_.func.attr in ('update', 'setdefault', 'pop', 'clear', 'append', 'extend', '__setitem__') and isinstance(m_.func.value, ast.Name):
                        tgt_ = m_.func.value.id
                    elif isinstance(m_, ast.Subscript) and isinstance(m_.ctx, ast.Store) and isinstance(m_.value, ast.Name):
                        tgt_ = m_.value.id
                    if tgt_ is not None and origin(tgt_) in tnames:
                        shared.append((m_, tgt_, f'{origin(tgt_)} (returned by the memoised {memo[0].short})'))
    R.check(not shared, 'R16.1', 'cached.decorated: per-call binding', key_of('shared-binding', sorted({o for _, _, o in shared})), 'only per-call objects are mutated',
            f'`{src(shared[0][0])[:60]}` mutates `{shared[0][2]}`, which is created once per decorated method and shared by all calls: arguments of one call become the "defaults" of later calls' if shared else '',
            where=where(fdec, shared[0][0]) if shared else where(fdec))
    loops = [n for n in A.typer.own_nodes(fdec) if isinstance(n, ast.For) and 'signature' in src(n.iter) and 'parameters' in src(n.iter)]
    binds = [n for n in A.typer.own_nodes(fdec) if isinstance(n, ast.Call) and isinstance(n.func, ast.Attribute) and n.func.attr == 'bind']
    if not loops and binds:
        ad = any(isinstance(n, ast.Call) and isinstance(n.func, ast.Attribute) and n.func.attr == 'apply_defaults' for n in A.typer.own_nodes(fdec))
        R.check(ad, 'R16.1', 'cached.decorated: Signature.bind', key_of('bind', ad), 'bind + apply_defaults', 'Signature.bind without apply_defaults: omitted defaults and spelled-out defaults get different keys', where=where(fdec))
    elif not loops:
        R.undecided('R16.1', 'cached.decorated', 'normalisation idiom not recognised', where=where(fdec))
    else:
        lp = loops[0]
        iv = argv = pv = None
        if isinstance(lp.target, ast.Tuple) and len(lp.target.elts) == 2 and isinstance(lp.target.elts[1], ast.Tuple):
            iv, (argv, pv) = src(lp.target.elts[0]), [src(e) for e in lp.target.elts[1].elts]
        R.require(iv is not None, 'anchor: loop target `i, (arg, parameter)` not recognised')
        skips = [n for n in lp.body if isinstance(n, ast.If) and any(isinstance(b, ast.Continue) for b in n.body)]
        k0 = None
        for s in skips:
            t = s.test
            if isinstance(t, ast.Compare) and src(t.left) == iv and isinstance(t.ops[0], ast.Eq) and isinstance(t.comparators[0], ast.Constant):
                k0 = t.comparators[0].value + 1   # indices < k0 skipped (i == 0 -> one skipped)
            if isinstance(t, ast.Compare) and src(t.left) == iv and isinstance(t.ops[0], ast.Lt) and isinstance(t.comparators[0], ast.Constant):
                k0 = t.comparators[0].value
        other_skips = [s_ for s_ in skips if not (isinstance(s_.test, ast.Compare) and src(s_.test.left) == iv and isinstance(s_.test.ops[0], (ast.Eq, ast.Lt)) and isinstance(s_.test.comparators[0], ast.Constant))]
        # a skip by parameter kind is judged by R16.9 (only *args / **kwargs may be set aside)
        other_skips = [s_ for s_ in other_skips if not (isinstance(s_.test, ast.Compare) and len(s_.test.ops) == 1 and src(s_.test.left).endswith('.kind'))]
        pos = [n for n in ast.walk(lp) if isinstance(n, ast.Assign) and isinstance(n.targets[0], ast.Subscript) and src(n.targets[0].slice) == argv and isinstance(n.value, ast.Subscript) and src(n.value.value) == 'args']
        problems = []
        bind_dict = None
        for s_ in other_skips:
            problems.append(f'parameters are skipped under `{src(s_.test)[:60]}`: their defaults / values never reach the binding, so spelling a default out changes the key')
        if not pos:
            problems.append('positional arguments are not moved into the binding')
        for p in pos:
            bind_dict = src(p.targets[0].value)
            k1 = _const_offset(p.value.slice, iv)
            guards = [a for cn in cfg_nodes_for(cfg, p) for a, pol in cfg.facts_at(cn.id) if pol and isinstance(a, ast.Compare) and 'len(args)' in src(a)]
            k2 = None
            for g in guards:
                if isinstance(g.ops[0], ast.Lt) and src(g.comparators[0]) == 'len(args)':
                    k2 = _const_offset(g.left, iv)
            if k0 is None or k1 is None or k2 is None or not (k0 == k1 == k2):
                problems.append(f'offsets disagree: {k0} parameter(s) skipped, positional index {iv}-{k1}, bound {iv}-{k2} < len(args)')
        dflt = [n for n in ast.walk(lp) if isinstance(n, ast.Assign) and isinstance(n.targets[0], ast.Subscript) and src(n.targets[0].slice) == argv and 'default' in src(n.value)]
        if not dflt:
            problems.append('defaults are not filled in')
        for d in dflt:
            facts = [(src(a), pol) for cn in cfg_nodes_for(cfg, d) for a, pol in cfg.facts_at(cn.id)]
            absent = any((f'{argv} not in' in t and pol) or (f'{argv} in ' in t and not pol) for t, pol in facts)
            has_default = any('Parameter.empty' in t or '.empty' in t for t, pol in facts)
            if not (absent and has_default):
                problems.append('a default can overwrite a passed value (or is filled for parameters without default)')
        after = [n for n in A.typer.own_nodes(fdec) if isinstance(n, ast.Assign) and any(src(t) == 'args' for t in n.targets) and isinstance(n.value, (ast.List, ast.Tuple)) and not n.value.elts]
        if not after:
            problems.append('positional arguments are not cleared after being moved to the binding (the method would receive them twice)')
        # binding dict must be created per call
        if bind_dict is not None:
            per_call = bind_dict in fdec.params or any(isinstance(n, ast.Assign) and any(src(t) == bind_dict for t in n.targets) and
                                                       (isinstance(n.value, (ast.Dict, ast.DictComp)) or (isinstance(n.value, ast.Call) and (src(n.value.func) in ('dict', 'copy.copy', 'copy.deepcopy') or src(n.value.func).endswith('.copy'))))
                                                       for n in A.typer.own_nodes(fdec))
            if not per_call:
                problems.append(f'the binding `{bind_dict}` is not a per-call dict (shared across calls: values of one call leak into the next)')
        R.check(not problems, 'R16.1', 'cached.decorated: signature loop', key_of('normalisation', sorted(problems)), f'skip {k0}, index/guard offset consistent, defaults when absent, positionals cleared', '; '.join(problems), where=where(fdec, lp))
        # the loop must see every parameter (no slice / filter on the iteration)
        it_ok = src(lp.iter).replace(' ', '') in ('enumerate(signature(method).parameters.items())',)
        R.check(it_ok, 'R16.1', 'cached.decorated: iteration', key_of('iteration', src(lp.iter)), 'all parameters of the method', f'the loop iterates `{src(lp.iter)}`: not every parameter of the method is normalised', where=where(fdec, lp))

    # ---- R16.2
    R.rule('R16.2', 'the key is json.dumps(<binding minus ignored names>, sort_keys=True)', floor=1)
    dumps = [n for n in inl(A, fdec) if isinstance(n, ast.Call) and src(n.func).endswith('dumps')]
    if not dumps:
        R.undecided('R16.2', 'cached.decorated', 'key serialisation not recognised', where=where(fdec))
    recv16 = ('inst', A.cls('cached'))
    at = A.sym.terms_at(fdec, recv16, [d.args[0] for d in dumps if d.args])
    for d in dumps:
        sk = any(kw.arg == 'sort_keys' and isinstance(kw.value, ast.Constant) and kw.value.value is True for kw in d.keywords)
        ts = at.get(id(d.args[0]), []) if d.args else []
        ign = ('attr', ('self',), 'ignore_params')

        def is_filter(t):
            # {k: v for k, v in <binding>.items() if k not in self.ignore_params}
            if not (t[0] == 'mapdict' and len(t[1]) == 2 and t[2] == t[1][0] and t[3] == t[1][1] and t[4][0] == 'items'):
                return False
            g = t[5]
            return g is not None and (g == ('cmp', 'NotIn', t[1][0], ign) or g == ('not', ('cmp', 'In', t[1][0], ign)))

        filt = bool(ts) and all(is_filter(t) for t in ts)
        R.check(sk and filt, 'R16.2', f'cached.decorated: `{src(d)[:50]}`', key_of('key', sk, filt), 'sorted keys, ignored names removed',
                ('the key is serialised without sort_keys=True: mappings with equal content but different insertion order (also nested ones) give different keys' if not sk else
                 'the serialised dict is not exactly the binding minus the ignored names'), witness=[pretty(t)[:200] for t in ts[:2]], where=where(fdec, d))

    # ---- R16.3
    R.rule('R16.3', 'with the object\'s own cache the sub-cache is named <method name>[.<version>]', floor=1)
    subs = [n for n in inl(A, fdec) if isinstance(n, ast.Call) and isinstance(n.func, ast.Attribute) and n.func.attr == 'subcache']
    if not subs:
        R.undecided('R16.3', 'cached.decorated', 'sub-cache selection not recognised', where=where(fdec))
    at3 = A.sym.terms_at(fdec, recv16, [s_.args[0] for s_ in subs if s_.args])
    for s_ in subs:
        ts = at3.get(id(s_.args[0]), []) if s_.args else []
        name = ('attr', ('p', 'method'), '__name__')
        ver = ('attr', ('self',), 'version')
        good = ('cond', ('cmp', 'Is', ver, ('lit', None)), name, ('cat', (name, ('lit', '.'), ver)))
        ok3 = bool(ts) and all(t == good for t in ts)
        shown = pretty(ts[0])[:160] if ts else None
        R.check(ok3, 'R16.3', 'cached.decorated: sub-cache name', key_of('subcache', shown), 'method.__name__ [+ "." + version]',
                f'sub-cache name is `{shown}`: different methods or versions can share entries', where=where(fdec, s_))

    # ---- R16.4
    R.rule('R16.4', 'only_cache only looks up; force_cache reaches force=; store_cache_value replaces the call of the method', floor=3)
    rets = [n for n in cfg.nodes.values() if n.kind == 'stmt' and isinstance(n.ast, ast.Return) and n.id in cfg.reachable_nodes()]
    oc = [r for r in rets if any(src(a) == 'only_cache' and pol for a, pol in cfg.facts_at(r.id))]
    ok = bool(oc) and all(isinstance(r.ast.value, ast.Call) and src(r.ast.value.func).endswith('.get') and not src(r.ast.value.func).endswith('get_or_compute') for r in oc)
    goc_nodes = [n for n in cfg.nodes.values() if n.kind == 'stmt' and n.ast is not None and 'get_or_compute' in src(n.ast) and n.id in cfg.reachable_nodes()]
    guarded = all(any(src(a) == 'only_cache' and not pol for a, pol in cfg.facts_at(n.id)) for n in goc_nodes)
    R.check(ok and guarded, 'R16.4', 'cached.decorated: only_cache', key_of('only_cache', ok, guarded), 'returns cache.get(key); compute path excluded', 'only_cache can reach the computation (or does not return the looked-up value)', where=where(fdec))
    gocs = [n for n in A.typer.own_nodes(fdec) if isinstance(n, ast.Call) and isinstance(n.func, ast.Attribute) and n.func.attr == 'get_or_compute']
    R.check(bool(gocs) and all(any(kw.arg == 'force' and src(kw.value) == 'force_cache' for kw in c.keywords) or (len(c.args) >= 3 and src(c.args[2]) == 'force_cache') for c in gocs), 'R16.4', 'cached.decorated: force_cache',
            key_of('force_cache'), 'force=force_cache', 'force_cache is not passed to the cache: a forced call returns the stored value', where=where(fdec))
    gfun = A.cls('FileCache').lookup('get_or_compute')
    comp_args = [(bound_args(c, gfun) or {}).get(gfun.params[2]) for c in gocs]
    at4 = A.sym.terms_at(fdec, recv16, [c for c in comp_args if c is not None])
    scv = ('p', 'store_cache_value')
    is_unset = ('cmp', 'Is', scv, ('global', 'NO_VALUE'))
    ok_l = bool(comp_args) and all(c is not None for c in comp_args)
    for c in comp_args:
        ts = at4.get(id(c), []) if c is not None else []
        ok_l = ok_l and bool(ts)
        for t in ts:
            dec = lambda x: True if x == is_unset else (False if x == ('cmp', 'IsNot', scv, ('global', 'NO_VALUE')) else None)
            neg = lambda x: False if x == is_unset else (True if x == ('cmp', 'IsNot', scv, ('global', 'NO_VALUE')) else None)
            compute, stored = assume(t, dec), assume(t, neg)
            calls_method = compute[0] == 'lam' and any(x[0] == 'call' and x[1] == 'apply' and x[2] and x[2][0] == ('p', 'method') for x in dag_nodes(compute[2]))
            ok_l = ok_l and calls_method and stored == ('lam', (), scv)
    R.check(ok_l, 'R16.4', 'cached.decorated: store_cache_value', key_of('store_value'), 'supplied value is stored without calling the method', 'store_cache_value does not replace the call of the method', where=where(fdec))

    # ---- R16.5
    R.rule('R16.5', 'InMemoryCache.get_or_compute computes only when the key is absent (membership test) or forced', floor=1)
    imc = A.cls('InMemoryCache')
    fg = imc.methods.get('get_or_compute')
    cfg2 = A.cfg(fg)
    comp = [n for n in A.typer.own_nodes(fg) if isinstance(n, ast.Call) and isinstance(n.func, ast.Name) and n.func.id == fg.params[2]]
    R.require(comp, 'anchor: computer() call missing in InMemoryCache.get_or_compute')
    for c in comp:
        for cn in cfg_nodes_for(cfg2, c):
            tests = [a for a in _guard_tests(cfg2, cn.id)]
            member = any(isinstance(a, ast.Compare) and isinstance(a.ops[0], (ast.In, ast.NotIn)) and src(a.left) == fg.params[1] for a in tests)
            none_test = any(isinstance(a, ast.Compare) and isinstance(a.ops[0], (ast.Is, ast.IsNot, ast.Eq, ast.NotEq)) and isinstance(a.comparators[0], ast.Constant) and a.comparators[0].value is None for a in tests)
            R.check(member and not none_test, 'R16.5', 'InMemoryCache.get_or_compute', key_of('presence', member, none_test), 'presence = key membership',
                    'presence of an entry is decided by its value (None = missing): a method whose result is None is executed again on every call', where=where(fg, c))

    # ---- R16.6 a stored falsy result is an entry: presence is decided by the key, not by the value
    R.rule('R16.6', 'InMemoryCache.get returns the stored entry whenever the key is present (no `stored or NO_VALUE`)', floor=1)
    fget = imc.methods.get('get')
    R.require(fget is not None, 'anchor: InMemoryCache.get missing')
    tg = A.sym.func_term(fget, ('inst', imc))
    ors = [x for x in dag_nodes(tg) if x[0] == 'or']
    R.check(not ors, 'R16.6', 'InMemoryCache.get', key_of('falsy-missing', pretty(tg)[:100]), 'lookup with NO_VALUE as default / membership test',
            f'`{pretty(tg)[:120]}`: a stored entry whose value is falsy (0, [], "", False, None) is reported as missing, so only_cache look-ups and cached calls of such results miss',
            witness=[pretty(tg)[:200]], where=where(fget))

    R.rule('R16.9', 'no test on the kind of a parameter leaves named parameters (positional-or-keyword, keyword-only) out of the normalisation', floor=1)
    check_kind_filter(A, R, 'R16.9', fdec)

    from .c14 import check_load_handlers
    R.rule('R16.8', 'with a file cache, an entry that cannot be loaded is recomputed and stored again (the same binding keeps returning one value)', floor=2)
    check_load_handlers(A, R, 'R16.8')


KINDS = ('POSITIONAL_ONLY', 'POSITIONAL_OR_KEYWORD', 'VAR_POSITIONAL', 'KEYWORD_ONLY', 'VAR_KEYWORD')


def check_kind_filter(A, R, rid, fdec):
    """The binding code (decorated and the helpers it calls) may tell parameters apart by `.kind` only to set *args / **kwargs aside: a filter
    that drops keyword-only (or ordinary) parameters keeps their defaults out of the key, so `m(1)` and `m(1, flag=True)` get different keys."""
    nodes = [(n, o) for n, o in A.nodes(fdec)]
    tests = [(n, o) for n, o in nodes if isinstance(n, ast.Compare) and len(n.ops) == 1 and (src(n.left).endswith('.kind') or any(src(c_).endswith('.kind') for c_ in n.comparators))]
    if not tests:
        R.ok(rid, 'cached.decorated: parameter kinds', 'the normalisation does not look at parameter kinds: every named parameter is treated alike', where=where(fdec))
        return
    for t, o in tests:
        construct = f'cached.decorated: `{src(t)[:60]}`'
        other = t.comparators[0] if src(t.left).endswith('.kind') else t.left
        vals = [other] if not isinstance(other, (ast.Tuple, ast.List, ast.Set)) else list(other.elts)
        ks = [src(v).split('.')[-1] for v in vals]
        if any(k not in KINDS for k in ks):
            R.undecided(rid, construct, 'kinds compared with are not literal Parameter kinds', where=where(o, t))
            continue
        op = t.ops[0]
        true_set = set(ks) if isinstance(op, (ast.Eq, ast.Is, ast.In)) else (set(KINDS) - set(ks) if isinstance(op, (ast.NotEq, ast.IsNot, ast.NotIn)) else None)
        # where the test stands decides which side is kept: a comprehension filter / an `if` that binds keeps the true side, an `if ..: continue` the false side
        par = getattr(t, '_parent', None)
        neg = False
        top = t
        while (isinstance(par, ast.UnaryOp) and isinstance(par.op, ast.Not)) or (isinstance(par, ast.BoolOp) and isinstance(par.op, ast.And) and not neg):
            # a conjunct of the filter: what passes the whole filter passes this test
            if isinstance(par, ast.UnaryOp):
                neg = not neg
            top = par
            par = getattr(par, '_parent', None)
        kept = None
        if true_set is not None:
            if isinstance(par, ast.comprehension):
                kept = true_set
            elif isinstance(par, ast.If) and par.test is top:
                conj = isinstance(top, ast.BoolOp)
                skips = all(isinstance(b, (ast.Continue, ast.Pass)) for b in par.body) and any(isinstance(b, ast.Continue) for b in par.body)
                if skips and not par.orelse and not conj:
                    kept = set(KINDS) - true_set
                elif not par.orelse and not any(isinstance(b, (ast.Continue, ast.Break, ast.Return)) for b in ast.walk(par)):
                    kept = true_set
            if kept is not None and neg:
                kept = set(KINDS) - kept
        if kept is None:
            R.undecided(rid, construct, 'role of the kind test not recognised', where=where(o, t))
            continue
        lost = [k for k in ('POSITIONAL_OR_KEYWORD', 'KEYWORD_ONLY') if k not in kept]
        R.check(not lost, rid, construct, key_of('kind-filter', sorted(kept)), 'only *args / **kwargs are set aside',
                f'parameters of kind {", ".join(lost)} are left out by `{src(t)[:60]}`: their omitted defaults are not put into the binding, so a call that omits such a default and a call that '
                'spells it out get different keys (the method runs twice, two entries are stored)', where=where(o, t))


def _guard_tests(cfg, nid):
    """Test expressions on the control-dependence chain of a node (either polarity), including disjunctive guards."""
    out = []
    import networkx as nx
    anc = nx.ancestors(cfg.g, nid)
    for a in anc:
        n = cfg.nodes[a]
        if n.kind == 'test':
            out.append(n.ast)
    return out
