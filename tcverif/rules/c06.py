"""C06 - stored values round-trip exactly: the *structural* part (sibling agreement of writers and readers).

R06.1 codec / path / mode agreement per data class and file-cache class;  R06.2 readers are write-free;
R06.3 unset tests are identity tests;  R06.4 writer naming order and reader ordering agree.
Value fidelity inside orjson / numpy / pandas / pickle is not decidable statically and is not claimed.
"""
from __future__ import annotations

import ast

from ..effects import FS_MUTATING, is_under, same_path
from ..model import src
from ..report import Report, key_of
from ..terms import dag_nodes, has_opaque, pretty
from ..types import Ctx
from .c05 import classify, persistent_data_classes
from .common import TRUSTED_BASE, cfg_nodes_for, effects_of, inl, subst_single_assign, where

WRITERS = {'numpy.save': 'npy', 'pickle.dump': 'pickle', 'yaml.dump': 'yaml', 'json.dump': 'stdjson'}
READERS = {'numpy.load': 'npy', 'pickle.load': 'pickle', 'pandas.read_pickle': 'pdpickle', 'yaml.load': 'yaml', 'json.load': 'stdjson'}
PKG_WRITERS = {'taskchain.utils.json.dump': 'tcjson', 'taskchain.utils.io.write_jsons': 'jsonl', 'taskchain.utils.json.dumps': 'tcjson-s'}
PKG_READERS = {'taskchain.utils.json.load': 'tcjson', 'taskchain.utils.io.iter_json_file': 'jsonl', 'taskchain.utils.json.loads': 'tcjson-s'}
METHOD_WRITERS = {'to_pickle': 'pdpickle', 'to_csv': 'csv', 'to_parquet': 'parquet'}


def _canon_codecs(cs):
    return {c[:-2] if c.endswith('-s') else c for c in cs}


def codecs(A, f, ci, depth=2):
    """(writer tokens, reader tokens, open modes) used by method f (own body, plus lambdas/nested and in-class helpers)."""
    T = A.typer
    w, r, modes = set(), set(), []
    todo = [(f, ('inst', ci))]
    seen = set()
    while todo:
        g, recv = todo.pop()
        if g.qualname in seen:
            continue
        seen.add(g.qualname)
        ctx = Ctx(g, recv)
        for n in T.own_nodes(g):
            if not isinstance(n, ast.Call):
                continue
            if isinstance(n.func, ast.Attribute) and n.func.attr in METHOD_WRITERS:
                w.add(METHOD_WRITERS[n.func.attr])
            if isinstance(n.func, ast.Attribute) and n.func.attr == 'open' or (isinstance(n.func, ast.Name) and n.func.id == 'open'):
                pos = 0 if isinstance(n.func, ast.Attribute) else 1
                mode = 'r'
                if len(n.args) > pos and isinstance(n.args[pos], ast.Constant):
                    mode = n.args[pos].value
                enc = None
                for kw in n.keywords:
                    if kw.arg == 'mode' and isinstance(kw.value, ast.Constant):
                        mode = kw.value.value
                    if kw.arg == 'encoding' and isinstance(kw.value, ast.Constant):
                        enc = kw.value.value
                modes.append((mode, enc))
            for tg in T.call_targets(n, ctx):
                if tg.kind == 'ext':
                    if tg.name in WRITERS:
                        w.add(WRITERS[tg.name])
                    if tg.name in READERS:
                        r.add(READERS[tg.name])
                elif tg.kind == 'func':
                    q = tg.func.qualname
                    if q in PKG_WRITERS:
                        w.add(PKG_WRITERS[q])
                    elif q in PKG_READERS:
                        r.add(PKG_READERS[q])
                    elif tg.func.cls is not None and tg.recv is not None and tg.recv[1] is ci and tg.func.name not in ('load', 'save', 'value'):
                        todo.append((tg.func, tg.recv))
        for nf in list(g.nested.values()) + g.lambdas:
            todo.append((nf, recv))
    return w, r, modes


def check_index_order(A, R: Report, rid: str):
    """ListOfNumpyData: items written under their enumerate index are read back in numeric index order."""
    ln = A.cls('ListOfNumpyData')
    fs, fl = ln.lookup('save'), ln.lookup('load')
    # writer: np.save(<dir>/<index>.npy) inside a loop over enumerate(...)
    saves = [n for n in inl(A, fs) if isinstance(n, ast.Call) and src(n.func).split('.')[-1] == 'save' and n.args and not (isinstance(n.func, ast.Attribute) and src(n.func.value) in ('self', 'super()'))]
    enum_loops = [n for n in inl(A, fs) if isinstance(n, ast.For) and isinstance(n.iter, ast.Call) and src(n.iter.func) == 'enumerate']
    by_index = bool(enum_loops) and any(any(x is sv_ for x in ast.walk(lp)) for lp in enum_loops for sv_ in saves)
    padded = any(isinstance(n, ast.FormattedValue) and n.format_spec is not None for n in inl(A, fs))
    lt = A.sym.func_term(fl, ('inst', ln))
    sorts = [x for x in dag_nodes(lt) if x[0] == 'sorted']
    globs = [x for x in dag_nodes(lt) if x[0] == 'method' and x[2] in ('glob', 'iterdir', 'rglob')] + [x for x in dag_nodes(lt) if x[0] == 'call' and x[1].split('.')[-1] in ('listdir', 'scandir', 'glob')]

    def numeric_key(k):
        """the sort key is int(<something derived from the file name>)"""
        body = var = None
        if k[0] == 'lam' and len(k[1]) == 1:
            var, body = k[1][0], k[2]
        elif k[0] in ('attr', 'global') and (ln.lookup(k[-1]) is not None or A.prog.find_func(k[-1]) is not None):
            kf = ln.lookup(k[-1]) or A.prog.find_func(k[-1])
            recv = ('inst', ln) if (kf.cls is not None and not kf.is_static) else None
            ps = [p_ for p_ in kf.params if not (recv and p_ == kf.params[0])]
            if len(ps) == 1:
                var, body = ('p', ps[0]), A.sym.func_term(kf, recv)
        if body is None:
            return None
        return body[0] == 'call' and body[1] == 'int' and any(x[0] == 'attr' and x[1] == var and x[2] in ('name', 'stem') for x in dag_nodes(body))

    verdicts = [numeric_key(s_[2]) if s_[2] != ('lit', None) else False for s_ in sorts]
    numeric = bool(sorts) and all(v is True for v in verdicts)
    unordered_glob = bool(globs) and not all(any(g in dag_nodes(s_[1]) for s_ in sorts) for g in globs)
    if by_index and (has_opaque(lt) or any(v is None for v in verdicts)) and not numeric:
        R.undecided(rid, 'ListOfNumpyData: save/load order', 'reader ordering could not be evaluated symbolically', where=where(fl))
    elif by_index:
        # zero padding only postpones the problem (index 100 with width 2): the reader must order numerically
        ok = numeric and not unordered_glob
        R.check(ok, rid, 'ListOfNumpyData: save/load order', key_of('order', numeric, padded, bool(sorts), unordered_glob), 'numeric sort of index-named files',
                'files are named by unpadded index but not read back in numeric order (10.npy sorts before 2.npy, or directory order is arbitrary)', witness=[pretty(lt)[:300]], where=where(fl))
    else:
        R.undecided(rid, 'ListOfNumpyData: save/load order', 'writer naming idiom not recognised', where=where(fs))


def run(A, R: Report, thorough: bool):
    R.explanation = ('Sibling cross-check: for every concrete data class and file-cache class the serialiser used by the writer and the parser used by the reader must be a pair of '
                     'one codec, on the same path term, with agreeing text/binary mode and encoding; effect summaries show every reader is write-free; AST rules for unset '
                     'tests and item ordering. Value-level fidelity (dtypes, unicode, NaN, 64-bit) lives inside third-party codecs and is NOT decided.')
    R.trusted = TRUSTED_BASE + ['codec pair table of tcverif/rules/c06.py', 'a generator is exhausted by the first full iteration and loses every item taken from it by next()']
    E = effects_of(A)
    classes = persistent_data_classes(A)
    R.rule('R06.1', 'writer and reader of each data / cache class use the same codec, path and mode', floor=12)
    for ci, vis in classes:
        fs, fl = ci.lookup('save'), ci.lookup('load')
        w, _, wm = codecs(A, fs, ci)
        fin = ci.lookup('finished')
        _, r, rm = codecs(A, fl, ci)
        w, r = _canon_codecs(w), _canon_codecs(r)
        construct = f'{ci.short}: save/load'
        # reads of load must target the visible path (or below it)
        reads = [e for e in E.collect(Ctx(fl, ('inst', ci)), kinds={'FS_READ'}) if e.target is not None]
        path_ok = all(classify(e.target, vis) != 'elsewhere' for e in reads) and (not reads or any(classify(e.target, vis) in ('visible', 'inside') for e in reads))
        wb = {('b' in m) for m, _ in wm}
        rb = {('b' in m) for m, _ in rm}
        mode_ok = (not wb or not rb) or wb == rb
        enc_ok = {e for _, e in wm if e} == {e for _, e in rm if e} or not wm or not rm
        if w == r and path_ok and mode_ok and enc_ok:
            R.ok('R06.1', construct, f'codec {sorted(w) or ["path only"]}, {len(reads)} read(s) on the visible path', where=where(fs))
        elif (w - r) | (r - w) and all(x.startswith('unknown') for x in (w ^ r)):
            R.undecided('R06.1', construct, f'unrecognised codec(s) {sorted(w ^ r)}', where=where(fs))
        else:
            why = []
            if w != r:
                why.append(f'writer codec {sorted(w)} vs reader codec {sorted(r)}')
            if not path_ok:
                why.append('load() reads a path other than the one exists() tests: ' + ', '.join(pretty(e.target) for e in reads if classify(e.target, vis) == 'elsewhere'))
            if not mode_ok:
                why.append(f'text/binary mode differs: {wm} vs {rm}')
            if not enc_ok:
                why.append(f'encoding differs: {wm} vs {rm}')
            R.violation('R06.1', construct, key_of('codec', ci.short, sorted(w), sorted(r), path_ok, mode_ok, enc_ok), '; '.join(why), where=where(fl))
    fc = A.cls('FileCache')
    for ci in fc.all_subclasses(include_self=False):
        fs, fl = ci.lookup('save_value'), ci.lookup('load_value')
        w, _, wm = codecs(A, fs, ci)
        _, r, rm = codecs(A, fl, ci)
        pw = {pretty(e.target) for e in E.collect(Ctx(fs, ('inst', ci)), kinds={'FS_WRITE'}) if e.target is not None}
        pr = {pretty(e.target) for e in E.collect(Ctx(fl, ('inst', ci)), kinds={'FS_READ'}) if e.target is not None}
        wb, rb = {('b' in m) for m, _ in wm}, {('b' in m) for m, _ in rm}
        enc_ok = {e for _, e in wm} == {e for _, e in rm}
        w, r = _canon_codecs(w), _canon_codecs(r)      # dumps + write is the codec of dump, loads(read()) that of load
        ok = w == r and pw == pr and len(pw) == 1 and ((not wb and not rb) or wb == rb) and enc_ok
        R.check(ok, 'R06.1', f'{ci.short}: save_value/load_value', key_of('cache-codec', ci.short, sorted(w), sorted(r), sorted(pw), sorted(pr), enc_ok),
                f'codec {sorted(w)} on {sorted(pw)}', f'writer {sorted(w)} on {sorted(pw)} modes {wm} vs reader {sorted(r)} on {sorted(pr)} modes {rm}', where=where(fl))
    # json-lines helper pair
    wj, ij = A.func('write_jsons'), A.func('iter_json_file')
    w1, r1, m1 = codecs(A, wj, None) if False else (set(), set(), [])
    wt = {src(n.func) for n in A.typer.own_nodes(wj) if isinstance(n, ast.Call) and src(n.func).endswith('dumps')}
    rt = {src(n.func) for n in A.typer.own_nodes(ij) if isinstance(n, ast.Call) and src(n.func).endswith('loads')}
    encw = [kw.value.value for n in A.typer.own_nodes(wj) if isinstance(n, ast.Call) for kw in n.keywords if kw.arg == 'encoding' and isinstance(kw.value, ast.Constant)]
    encr = [kw.value.value for n in A.typer.own_nodes(ij) if isinstance(n, ast.Call) for kw in n.keywords if kw.arg == 'encoding' and isinstance(kw.value, ast.Constant)]
    same_mod = {x.rsplit('.', 1)[0] for x in wt} == {x.rsplit('.', 1)[0] for x in rt} and len(wt) == 1 and len(rt) == 1
    writes = [n.args[0] for n in A.typer.own_nodes(wj) if isinstance(n, ast.Call) and isinstance(n.func, ast.Attribute) and n.func.attr == 'write' and n.args]
    wat = A.sym.terms_at(wj, None, writes) if writes else {}
    wterms = [t for n in writes for t in wat.get(id(n), [])]
    # every written record is <json text> followed by exactly one line break
    newline = bool(wterms) and all(t[0] == 'cat' and t[1][-1] == ('lit', '\n') and len(t[1]) == 2 and 'dumps' in pretty(t[1][0]) for t in wterms)
    # the reader cuts records exactly where the writer put its separator: by iterating the file object (universal newlines
    # = \n, \r, \r\n only); str.splitlines() also cuts at \x0b \x0c \x1c-\x1e \x85 \u2028 \u2029, which the writer leaves unescaped inside strings
    handles = {item.optional_vars.id for n in A.typer.own_nodes(ij) if isinstance(n, (ast.With, ast.AsyncWith)) for item in n.items if isinstance(item.optional_vars, ast.Name)}
    rec_src = None
    for lp in [n for n in A.typer.own_nodes(ij) if isinstance(n, ast.For)]:
        it = subst_single_assign(A, ij, lp.iter)
        while isinstance(it, ast.Call) and src(it.func).split('.')[-1] in ('progress_bar', 'tqdm', 'iter', 'enumerate') and it.args:
            it = subst_single_assign(A, ij, it.args[0])
        rec_src = src(it)
        if isinstance(it, ast.Name) and it.id in handles:
            R.ok('R06.1', 'iter_json_file: records', 'one record per line of the file object', where=where(ij, lp))
        elif any(isinstance(x, ast.Call) and isinstance(x.func, ast.Attribute) and x.func.attr in ('splitlines', 'split', 'readlines') and x.func.attr != 'readlines' for x in ast.walk(it)):
            R.violation('R06.1', 'iter_json_file: records', key_of('record-split', rec_src[:60]), f'records are cut with `{rec_src[:60]}`: it also splits at characters the writer leaves unescaped inside strings (\\u2028, \\x85, ...), so such a record is torn in two and cannot be loaded',
                        where=where(ij, lp))
        else:
            R.undecided('R06.1', 'iter_json_file: records', f'how records are separated is not recognised (`{rec_src[:60]}`)', where=where(ij, lp))
    R.check(same_mod and encw == encr and newline, 'R06.1', 'write_jsons / iter_json_file', key_of('jsonl', sorted(wt), sorted(rt), encw, encr, newline),
            'same json module, same encoding, one item per line', f'json-lines writer {sorted(wt)} enc {encw} newline={newline} vs reader {sorted(rt)} enc {encr}', where=where(wj))

    # ---- R06.2
    R.rule('R06.2', 'load / exists / value / load_value / load_run_info / log have no mutating file-system effect', floor=30)
    for ci, vis in classes:
        for m in ('load', 'exists', 'value', 'load_run_info', 'log', 'path', 'run_info_path', 'log_path'):
            f = ci.lookup(m)
            if f is None:
                continue
            evs = E.collect(Ctx(f, ('inst', ci)), kinds=FS_MUTATING)
            R.check(not evs, 'R06.2', f'{ci.short}.{m}', key_of('reader-writes', ci.short, m, [e.kind for e in evs]), 'write-free',
                    f'reading changes stored files: {[e.describe() for e in evs]}', where=where(f))
    for ci in fc.all_subclasses(include_self=False):
        f = ci.lookup('load_value')
        evs = E.collect(Ctx(f, ('inst', ci)), kinds=FS_MUTATING)
        R.check(not evs, 'R06.2', f'{ci.short}.load_value', key_of('reader-writes', ci.short, [e.kind for e in evs]), 'write-free', f'reading changes stored files: {[e.describe() for e in evs]}', where=where(f))
    # positive control: the detector sees writes in save()
    any_w = any(E.collect(Ctx(ci.lookup('save'), ('inst', ci)), kinds=FS_MUTATING) for ci, _ in classes)
    R.require(any_w, 'positive control failed: no mutating effect found in any save() - the effect table is blind')

    # ---- R06.5 the codec path is stateless
    from .purity import check_stateless
    R.rule('R06.5', 'serialisers and parsers keep no state (functools caches, module-level memo, attribute memo): equal-but-differently-typed values and separate loads never share a cached result', floor=3)
    fresh_fields = {'_value', '_dir', '_value[]', '_value.append()', '_value.extend()'}
    for ci, vis in classes:
        ctxs = [Ctx(ci.lookup(m), ('inst', ci)) for m in ('save', 'load', 'set_value', 'value', 'exists') if ci.lookup(m) is not None]
        check_stateless(A, R, 'R06.5', f'{ci.short}: codec path', ctxs, 'a value written or loaded later would be served from the memo instead of being serialised / parsed (type-confused scalars, aliased mutable results)',
                        allow=lambda e: e.kind == 'ATTR_STORE' and e.detail in fresh_fields and e.target == ('self',), at=where(ci.lookup('save')))
    for ci in fc.all_subclasses(include_self=False):
        ctxs = [Ctx(ci.lookup(m), ('inst', ci)) for m in ('save_value', 'load_value')]
        check_stateless(A, R, 'R06.5', f'{ci.short}: codec path', ctxs, 'cached values would be served from a memo instead of the file', at=where(ci.lookup('load_value')))
    jm = A.prog.modules['taskchain.utils.json']
    io = A.prog.modules['taskchain.utils.io']
    ctxs = [Ctx(f, None) for f in list(jm.functions.values()) + [io.functions[n] for n in ('write_jsons', 'iter_json_file') if n in io.functions]]
    check_stateless(A, R, 'R06.5', 'utils.json / utils.io helpers', ctxs, 'the json helpers must map each call\'s argument to its own result', any_receiver=True, at='src/taskchain/utils/json.py')

    # ---- R06.3
    R.rule('R06.3', 'tests on the stored value are identity tests against None / NO_VALUE, never truthiness or ==', floor=2)
    data = A.cls('Data')
    n_tests = 0
    for ci in data.all_subclasses():
        for f in ci.methods.values():
            for n in A.typer.own_nodes(f):
                tests = []
                if isinstance(n, (ast.If, ast.While, ast.IfExp)):
                    tests.append(n.test)
                for t in tests:
                    for leaf in _leaves(t):
                        if src(leaf) in ('self._value', 'self.value', 'value') and src(leaf) != 'value':
                            n_tests += 1
                            R.violation('R06.3', f'{f.short}', key_of('truthiness', src(t)), f'truthiness test `{src(t)}` on the stored value: 0, \'\', [] and {{}} would count as unset', where=where(f, n))
                        if isinstance(leaf, ast.Compare) and src(leaf.left) in ('self._value',) and len(leaf.ops) == 1:
                            n_tests += 1
                            ident = isinstance(leaf.ops[0], (ast.Is, ast.IsNot)) and isinstance(leaf.comparators[0], ast.Constant) and leaf.comparators[0].value is None
                            R.check(ident, 'R06.3', f'{f.short}', key_of('unset-test', src(leaf)), f'`{src(leaf)}`', f'`{src(leaf)}` is not an identity test against None', where=where(f, n))
    cache_mod = A.prog.modules['taskchain.cache']
    for f in [x for x in A.prog.functions.values() if x.module is cache_mod]:
        for n in A.typer.own_nodes(f):
            if isinstance(n, ast.Compare) and len(n.ops) == 1 and 'NO_VALUE' in (src(n.left), src(n.comparators[0])):
                n_tests += 1
                R.check(isinstance(n.ops[0], (ast.Is, ast.IsNot)), 'R06.3', f.short, key_of('no_value-test', src(n)), f'`{src(n)}`', f'`{src(n)}` compares the sentinel with ==, which calls the value\'s __eq__', where=where(f, n))
    R.require(n_tests >= 2, 'anchor: fewer than 2 unset-tests found (Data.value / cached)')

    # ---- R06.6 what is written is the value itself
    R.rule('R06.6', 'save() hands the stored value itself to the serialiser (no conversion in between: a conversion that is not the identity on every value changes what a later chain loads)', floor=4)
    vterm = ('attr', ('self',), '_value')
    for ci, _vis in persistent_data_classes(A):
        fsave = ci.lookup('save')
        if fsave is None:
            continue
        calls = [n for n in inl(A, fsave) if isinstance(n, ast.Call)]
        args = [a_ for c in calls for a_ in list(c.args) + [k.value for k in c.keywords]]
        at6 = A.sym.terms_at(fsave, ('inst', ci), args) if args else {}
        n_pass = 0
        for c in calls:
            for a_ in list(c.args) + [k.value for k in c.keywords]:
                for t in at6.get(id(a_), []):
                    if vterm not in dag_nodes(t):
                        continue
                    n_pass += 1
                    construct = f'{ci.short}.save: `{src(c)[:60]}`'
                    if has_opaque(t):
                        R.undecided('R06.6', construct, 'argument involves a construct the term engine does not interpret', where=where(fsave, c))
                    else:
                        R.check(t == vterm, 'R06.6', construct, key_of('value-converted', ci.short, pretty(t)[:100]), 'the value itself',
                                f'the serialiser receives `{pretty(t)[:120]}` instead of the value: for values on which the conversion is not the identity (e.g. 0-d arrays, subclasses, views) the stored result differs from the computed one',
                                where=where(fsave, c))
        if n_pass == 0:
            R.ok('R06.6', f'{ci.short}.save', 'the value is serialised through its own method / element-wise', where=where(fsave))

    # ---- R06.7 what is stored under a location is the last computed value, nothing of an earlier one
    from .c05 import check_move_replaces
    R.rule('R06.7', 'a directory result is replaced as a whole: the stored directory is removed before the recomputed one is moved into place', floor=1)
    check_move_replaces(A, R, 'R06.7', persistent_data_classes(A))

    # ---- R06.4
    R.rule('R06.4', 'items named by enumerate index are read back in numeric order; generated sequences are materialised as lists on both sides', floor=2)
    check_index_order(A, R, 'R06.4')
    gd = A.cls('GeneratedData')
    sv = gd.lookup('set_value')
    ld = gd.lookup('load')
    w_list = any(isinstance(n, ast.Call) and src(n.func) == 'list' for n in A.typer.own_nodes(sv))
    r_list = any(isinstance(n, ast.Call) and src(n.func) == 'list' for n in A.typer.own_nodes(ld))
    R.check(w_list and r_list, 'R06.4', 'GeneratedData: list on both sides', key_of('gen-list', w_list, r_list), 'computing chain and loading chain both hold a list',
            'the computing chain and a loading chain would hold different sequence types (generator vs list)', where=where(ld))

    # ---- R06.9 a generated sequence is written from a single pass
    from .common import consumed_more_than_once
    R.rule('R06.9', 'the writer of generated sequences goes over the items it is given exactly once (the lazy data class hands it a one-shot generator)', floor=1)
    fw = next((f_ for f_ in A.prog.functions.values() if f_.name == 'write_jsons' and f_.cls is None and f_.parent is None), None)
    R.require(fw is not None and fw.params, 'anchor: utils.io.write_jsons missing')
    twice = consumed_more_than_once(A, fw, fw.params[0])
    R.check(twice is None, 'R06.9', f'write_jsons: `{fw.params[0]}`', key_of('consumed-twice', [src(x)[:40] if not isinstance(x, ast.comprehension) else 'comprehension' for x in (twice or ())]), 'one pass over the items',
            f'`{src(twice[0])[:60] if twice else ""}` takes items from `{fw.params[0]}` before `{src(twice[1])[:60] if twice else ""}` writes them: for a generator (GeneratedDataLazy) the items taken first are missing from the stored file, '
            'so the stored sequence is shorter than the one run produced', where=where(fw, twice[0]) if twice else where(fw))

    # ---- R06.10 after storing a lazily generated sequence the computing chain serves it from the file, whatever kind of iterable run returned
    R.rule('R06.10', 'GeneratedDataLazy.save re-binds the value to the stored file on every path after writing (the written iterable may be exhausted)', floor=1)
    gl = A.prog.find_cls('GeneratedDataLazy')
    fsl = gl.methods.get('save') if gl is not None else None
    R.require(fsl is not None, 'anchor: GeneratedDataLazy.save missing')
    cfgl = A.cfg(fsl)
    writes = [n_ for n_ in inl(A, fsl) if isinstance(n_, ast.Call) and src(n_.func).split('.')[-1] == 'write_jsons']
    loads_ = [n_ for n_ in inl(A, fsl) if isinstance(n_, ast.Call) and src(n_.func) == 'self.load']
    wn = [cn.id for w_ in writes for cn in cfg_nodes_for(cfgl, w_)]
    ln = [cn.id for l_ in loads_ for cn in cfg_nodes_for(cfgl, l_)]
    skip = cfgl.find_path([s_ for x in wn for s_ in cfgl.g.successors(x)], [cfgl.exit.id], avoid=ln, no_exc_from=list(cfgl.nodes)) if wn else None
    R.check(bool(wn) and bool(ln) and skip is None, 'R06.10', 'GeneratedDataLazy.save', key_of('reload-after-write', bool(wn), bool(ln), skip is None), 'value re-bound to the file after writing, unconditionally',
            'after writing, some path keeps the iterable that was just consumed as the value (the reload is missing or conditional): for a map / zip / iter object the computing chain returns an empty sequence while a later chain loads the stored rows',
            witness=cfgl.describe_path(skip) if skip else None, where=where(fsl))


def _leaves(t):
    if isinstance(t, ast.BoolOp):
        for v in t.values:
            yield from _leaves(v)
    elif isinstance(t, ast.UnaryOp) and isinstance(t.op, ast.Not):
        yield from _leaves(t.operand)
    else:
        yield t
