"""C17 - parallel_map equals map, whatever the scheduling; chunked splits exactly.

R17.1 results collected in completion order reach the returned list only through a sort on the submission index, and
      the sort covers exactly the scope in which those indices are unique;
R17.2 `fun` is applied exactly once per element on each of the two paths; no handler swallows its exception;
R17.3 chunked: yield at counter == size, fresh list and counter reset together, one increment per append, non-empty tail.
"""
from __future__ import annotations

import ast

from ..model import src
from ..report import Report, key_of
from .common import TRUSTED_BASE, cfg_nodes_for, subst_single_assign, where


def _index_key(call: ast.Call) -> bool:
    """sorted(..., key=<projection on element 0>)"""
    for kw in call.keywords:
        if kw.arg == 'key':
            v = kw.value
            if isinstance(v, ast.Lambda) and len(v.args.args) == 1 and isinstance(v.body, ast.Subscript) and src(v.body.value) == v.args.args[0].arg \
                    and isinstance(v.body.slice, ast.Constant) and v.body.slice.value == 0:
                return True
            if isinstance(v, ast.Call) and src(v.func).endswith('itemgetter') and v.args and isinstance(v.args[0], ast.Constant) and v.args[0].value == 0:
                return True
    return False


def check_parallel_map(A, R: Report, f):
    name = f'{f.module.name.split(".")[-1]}.parallel_map'
    frun = f.nested.get('_run')
    ffun = f.nested.get('_fun')
    if frun is None or ffun is None:
        # an implementation that never consumes completion order (executor.map) carries no taint
        uses_completion = any(isinstance(n, ast.Call) and src(n.func).endswith('as_completed') for g in [f] + list(f.nested.values()) for n in A.typer.own_nodes(g))
        if uses_completion:
            R.undecided('R17.1', name, 'completion-ordered collection idiom not recognised', where=where(f))
        else:
            R.ok('R17.1', name, 'no completion-ordered collection', where=where(f))
        return
    # --- index tagging
    rets = [n for n in A.typer.own_nodes(ffun) if isinstance(n, ast.Return)]
    tag_ok = len(rets) == 1 and isinstance(rets[0].value, ast.Tuple) and len(rets[0].value.elts) == 2 and src(rets[0].value.elts[0]) == ffun.params[0] \
        and isinstance(rets[0].value.elts[1], ast.Call) and src(rets[0].value.elts[1].func) == f.params[0] and [src(a) for a in rets[0].value.elts[1].args] == [ffun.params[1]]
    n_fun_calls = sum(1 for n in A.typer.own_nodes(ffun) if isinstance(n, ast.Call) and src(n.func) == f.params[0])
    tag_ok = tag_ok and n_fun_calls == 1
    R.check(tag_ok, 'R17.2', f'{name}: _fun', key_of('tag', [src(r) for r in rets]), 'returns (index, fun(arg)); fun called once',
            'the worker does not return (submission index, fun(arg)) with exactly one call of fun', where=where(ffun))
    # --- submission: one future per enumerate item
    subs = [n for n in A.typer.own_nodes(frun) if isinstance(n, (ast.ListComp, ast.GeneratorExp)) and 'run_in_executor' in src(n.elt)]
    sub_ok = False
    seq = None
    for s in subs:
        g = s.generators[0]
        if isinstance(g.iter, ast.Call) and src(g.iter.func) == 'enumerate' and not g.ifs and len(s.generators) == 1:
            seq = src(g.iter.args[0])
            call = s.elt
            args = [src(a) for a in call.args]
            tv = [src(e) for e in g.target.elts] if isinstance(g.target, ast.Tuple) else []
            sub_ok = len(args) >= 4 and args[1] == ffun.name and args[2:4] == tv
    R.check(sub_ok, 'R17.2', f'{name}: submission', key_of('submit', [src(s)[:100] for s in subs]), f'one future per element of enumerate({seq})',
            'elements are not submitted exactly once each with their enumerate index', where=where(frun))
    handlers = [n for g in (f, frun, ffun) for n in A.typer.own_nodes(g) if isinstance(n, ast.ExceptHandler)]
    R.check(not handlers, 'R17.2', f'{name}: exceptions', key_of('handlers', len(handlers)), 'no handler between fun and the caller', 'an exception handler can swallow the exception raised by fun', where=where(f))
    # --- order restoration: a small taint analysis over the two functions
    completes = [n for n in A.typer.own_nodes(frun) if isinstance(n, ast.Call) and src(n.func).endswith('as_completed')]
    if not completes:
        R.ok('R17.1', name, 'results are not collected in completion order', where=where(frun))
    else:
        problems = order_problems(A, f, frun)
        if problems is None:
            R.undecided('R17.1', name, 'order-restoration idiom not recognised', where=where(f))
        else:
            R.check(not problems, 'R17.1', f'{name}: order restoration', key_of('order', sorted(set(problems))), 'completion order is undone by a sort on the submission index within its scope',
                    '; '.join(sorted(set(problems))), where=where(f))
    # sequential shortcut
    seqs = [n for n in A.typer.own_nodes(f) if isinstance(n, ast.Return) and isinstance(n.value, ast.ListComp) and isinstance(n.value.elt, ast.Call) and src(n.value.elt.func) == f.params[0]]
    ok = bool(seqs) and all(len(s.value.generators) == 1 and not s.value.generators[0].ifs and [src(x) for x in s.value.elt.args] == [src(s.value.generators[0].target)] for s in seqs)
    cfg = A.cfg(f)
    guarded = all(any(src(a_) == 'threads == 1' and pol for cn in cfg_nodes_for(cfg, s) for a_, pol in cfg.facts_at(cn.id)) for s in seqs)
    R.check(ok and guarded, 'R17.2', f'{name}: sequential path', key_of('sequential', ok, guarded), '[fun(x) for x in iterable] when threads == 1', 'the sequential shortcut is not a plain map over every element', where=where(f))


def order_problems(A, f, frun):
    """Problems with the way completion-ordered (index, result) pairs reach the returned list; None = idiom unknown.

    Inside _run the awaited items arrive in completion order.  What _run returns is classified as
      'pairs'   - a list of (index, result) pairs in completion order (append / list comprehension),
      'indexed' - results stored at their index in a pre-sized list (order restored by construction),
      'insert'  - results inserted at position i of a partially filled list (NOT an order restoration).
    In the outer function a pair list coming from ONE _run call may be sorted on element 0; once pair lists of several
    calls (a loop over chunks) are merged, element 0 is no longer unique and a sort on it interleaves the chunks."""
    T = A.typer
    problems = []
    sort_param = 'sort' if 'sort' in f.params else None
    # ---- classify _run
    inserts = [n for n in T.own_nodes(frun) if isinstance(n, ast.Call) and isinstance(n.func, ast.Attribute) and n.func.attr == 'insert']
    idx_stores = [n for n in T.own_nodes(frun) if isinstance(n, ast.Assign) and isinstance(n.targets[0], ast.Subscript) and not isinstance(n.targets[0].slice, ast.Slice)]
    run_kind = 'pairs'
    if inserts:
        run_kind = 'insert'
    elif idx_stores:
        run_kind = 'indexed'
    if run_kind == 'insert':
        problems.append(f'`{src(inserts[0])[:50]}` inserts results at their index into a partially filled list: with out-of-order completion the positions shift')
    # ---- outer function
    calls = [n for n in T.own_nodes(f) if isinstance(n, ast.Call) and src(n.func).endswith('run_until_complete') and n.args and isinstance(n.args[0], ast.Call) and src(n.args[0].func) == frun.name]
    if not calls:
        return None
    single = {}   # var -> pairs of one _run call
    merged = set()  # vars holding pairs of several calls
    returned_raw = False
    for c in calls:
        par = getattr(c, '_parent', None)
        in_loop = any(isinstance(p, (ast.For, ast.While)) for p in _parents(c))
        if isinstance(par, ast.Assign) and isinstance(par.targets[0], ast.Name):
            single[par.targets[0].id] = (par, in_loop)
        elif isinstance(par, ast.Call) and isinstance(par.func, ast.Attribute) and par.func.attr in ('extend', 'append') and isinstance(par.func.value, ast.Name):
            if in_loop:
                merged.add(par.func.value.id)
            else:
                single[par.func.value.id] = (par, in_loop)
        elif isinstance(par, ast.AugAssign) and isinstance(par.target, ast.Name):
            if in_loop:
                merged.add(par.target.id)
            else:
                single[par.target.id] = (par, in_loop)
        elif isinstance(par, ast.Return):
            returned_raw = True
        else:
            return None
    # pairs of one call copied into an accumulator inside a loop
    for n in T.own_nodes(f):
        if isinstance(n, ast.Call) and isinstance(n.func, ast.Attribute) and n.func.attr == 'extend' and isinstance(n.func.value, ast.Name) and n.args and isinstance(n.args[0], ast.Name) and n.args[0].id in single:
            if any(isinstance(p, (ast.For, ast.While)) for p in _parents(n)):
                merged.add(n.func.value.id)
    if run_kind == 'pairs':
        if returned_raw:
            problems.append('the completion-ordered (index, result) pairs are returned as they are')
        sorted_ok = False
        for n in T.own_nodes(f):
            tgt = None
            if isinstance(n, ast.Call) and src(n.func) == 'sorted' and n.args and isinstance(n.args[0], ast.Name):
                tgt = n.args[0].id
            elif isinstance(n, ast.Call) and isinstance(n.func, ast.Attribute) and n.func.attr == 'sort' and isinstance(n.func.value, ast.Name):
                tgt = n.func.value.id
            if tgt is None:
                continue
            if tgt in merged:
                problems.append(f'`{src(n)[:60]}` sorts pairs merged from several chunks on their per-chunk index: results of different chunks interleave')
            elif tgt in single:
                if not _index_key(n):
                    problems.append(f'`{src(n)[:60]}` does not sort on the submission index')
                else:
                    sorted_ok = True
        # raw uses of single-call pair lists
        for var, (defn, in_loop) in single.items():
            for u in [x for x in T.own_nodes(f) if isinstance(x, ast.Name) and x.id == var and isinstance(x.ctx, ast.Load)]:
                par = getattr(u, '_parent', None)
                if isinstance(par, ast.Call) and src(par.func) == 'sorted' and par.args and par.args[0] is u:
                    continue
                if isinstance(par, ast.Attribute) and par.attr == 'sort':
                    continue
                if isinstance(par, ast.IfExp) and sort_param and ((par.orelse is u and src(par.test) == sort_param) or (par.body is u and src(par.test) == f'not {sort_param}')):
                    continue
                if isinstance(par, ast.Call) and isinstance(par.func, ast.Attribute) and par.func.attr == 'extend' and var in single and par.func.value is not u:
                    continue  # judged through the accumulator
                problems.append(f'the completion-ordered list `{var}` is used without the index sort in `{src(_stmt_of(u))[:70]}`')
        if not sorted_ok and not problems:
            problems.append('no sort on the submission index restores the input order')
    return problems


def _parents(n):
    p = getattr(n, '_parent', None)
    while p is not None and not isinstance(p, (ast.FunctionDef, ast.AsyncFunctionDef)):
        yield p
        p = getattr(p, '_parent', None)


def _stmt_of(n):
    while n is not None and not isinstance(n, ast.stmt):
        n = getattr(n, '_parent', None)
    return n


def run(A, R: Report, thorough: bool):
    R.explanation = ('Taint-style rule: the list filled while iterating as_completed() is completion-ordered; it may reach the returned list only through sorted(key=index) applied in '
                     'the scope where the indices are unique (sanitiser), or unsorted when sort=False. Structural rules for the worker, the submission comprehension, the sequential shortcut '
                     'and the chunking idiom. Not decided: real schedules; exactly-once under executor semantics.')
    R.trusted = TRUSTED_BASE + ['sorted() with a key on unique integers is a total order', 'asyncio.as_completed yields in completion order']
    R.rule('R17.1', 'completion-ordered results pass a sort on the submission index, inside the scope of those indices, before they are returned (when sorting is requested)', floor=2)
    R.rule('R17.2', 'fun is applied once per element on the sequential and on the pooled path; nothing swallows its exception', floor=6)
    pms = [f for f in A.prog.functions.values() if f.name == 'parallel_map' and f.parent is None]
    R.require(len(pms) >= 2, f'anchor: expected parallel_map in utils.threading and utils.iter, found {len(pms)}')
    for f in pms:
        check_parallel_map(A, R, f)

    # ---- R17.3
    R.rule('R17.3', 'chunked yields a chunk exactly when it holds chunksize items, then starts a NEW list and resets the counter; the tail is yielded iff non-empty', floor=1)
    fc = A.func('chunked')
    size = fc.params[1]
    loops = [n for n in fc.node.body if isinstance(n, ast.For)]
    if not loops:
        R.undecided('R17.3', 'chunked', 'chunking idiom not recognised', where=where(fc))
        return
    lp = loops[0]
    problems = []
    appends = [n for n in lp.body if isinstance(n, ast.Expr) and isinstance(n.value, ast.Call) and isinstance(n.value.func, ast.Attribute) and n.value.func.attr == 'append']
    incs = [n for n in lp.body if isinstance(n, ast.AugAssign) and isinstance(n.op, ast.Add) and isinstance(n.value, ast.Constant) and n.value.value == 1]
    if len(appends) != 1 or [src(a) for a in appends[0].value.args] != [src(lp.target)]:
        problems.append('not exactly one append of the current element per iteration')
    lst = src(appends[0].value.func.value) if appends else None
    use_len = False
    yields = [n for n in lp.body if isinstance(n, ast.If) and any(isinstance(x, ast.Yield) for s in n.body for x in ast.walk(s))]
    if len(yields) != 1:
        problems.append('in-loop yield not found (or more than one)')
    else:
        y = yields[0]
        t = src(y.test)
        cnt = src(incs[0].target) if incs else None
        if cnt and t in (f'{cnt} == {size}', f'{cnt} >= {size}', f'{size} == {cnt}'):
            if len(incs) != 1:
                problems.append('counter is not incremented exactly once per element')
        elif lst and t in (f'len({lst}) == {size}', f'len({lst}) >= {size}'):
            use_len = True
        else:
            problems.append(f'yield condition `{t}` is not "chunk holds chunksize items"')
        yv = [x for s in y.body for x in ast.walk(s) if isinstance(x, ast.Yield)]
        if not (yv and yv[0].value is not None and src(yv[0].value) == lst):
            problems.append('the yielded value is not the collected chunk')
        fresh = [s for s in y.body if isinstance(s, ast.Assign) and src(s.targets[0]) == lst and isinstance(s.value, ast.List) and not s.value.elts]
        if not fresh:
            problems.append('after yielding, the same list object is reused (cleared in place): a consumer still holding the previous chunk sees it emptied / overwritten')
        if not use_len and cnt:
            reset = [s for s in y.body if isinstance(s, ast.Assign) and src(s.targets[0]) == cnt and isinstance(s.value, ast.Constant) and s.value.value == 0]
            if not reset:
                problems.append('counter not reset with the list')
        # the append must precede the test
        if appends and lp.body.index(appends[0]) > lp.body.index(y):
            problems.append('element appended after the size test')
    tail = [n for n in fc.node.body if isinstance(n, ast.If) and any(isinstance(x, ast.Yield) for s in n.body for x in ast.walk(s))]
    if len(tail) != 1:
        problems.append('trailing yield missing')
    else:
        tt = src(tail[0].test)
        cnt = src(incs[0].target) if incs else None
        if tt not in ((f'{cnt} > 0' if cnt else ''), lst, f'len({lst}) > 0', f'{lst} != []', (f'{cnt}' if cnt else '')):
            problems.append(f'trailing yield guarded by `{tt}`, not by "chunk non-empty"')
    R.check(not problems, 'R17.3', 'chunked', key_of('chunked', sorted(problems)), 'counter idiom well-formed', '; '.join(problems), where=where(fc))
