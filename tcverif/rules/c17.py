"""C17 - parallel_map equals map, whatever the scheduling; chunked splits exactly.

R17.1 results collected in completion order reach the returned list only through a sort on the submission index, and
      the sort covers exactly the scope in which those indices are unique;
R17.2 `fun` is applied exactly once per element on each of the two paths; no handler swallows its exception;
R17.3 chunked: yield at counter == size, fresh list and counter reset together, one increment per append, non-empty tail.
R17.8 the display arguments (desc, total, smoothing) reach only the progress bar;  R17.3 also reads `for i, x in enumerate(iterable)`.
"""
from __future__ import annotations

import ast

from ..model import src
from ..report import Report, key_of
from ..terms import assume, dag_nodes, pretty
from .common import TRUSTED_BASE, cfg_nodes_for, expanded_facts, loop_unconditional, subst_single_assign, where


def _index_key(call: ast.Call) -> bool:
    """sorted(..., key=<projection on element 0>)"""
    for kw in call.keywords:
        if kw.arg == 'key':
            v = kw.value
            if isinstance(v, ast.Lambda) and len(v.args.args) == 1 and isinstance(v.body, ast.Subscript) and src(v.body.value) == v.args.args[0].arg \
                    and isinstance(v.body.slice, ast.Constant) and v.body.slice.value == 0:
                return True
            if isinstance(v, ast.Call) and src(v.func).endswith('itemgetter') and v.args and isinstance(v.args[0], ast.Constant) and v.args[0].value == 0:
                return True
    return False


_KEY_FUNCS = {}   # name of a local / module function used as sort key -> its value term with ('p', param)


def _is_index_key(k) -> bool:
    """key term projects element 0 of the pair: lambda p: p[0] / operator.itemgetter(0) / a named function doing that"""
    if k[0] == 'lam' and len(k[1]) == 1 and k[2] == ('index', k[1][0], ('lit', 0)):
        return True
    if k[0] in ('closure', 'global') and isinstance(k[1], str):
        ft = _KEY_FUNCS.get(k[1].split('.')[-1])
        if ft is not None and ft[0] == 'index' and ft[1][0] == 'p' and ft[2] == ('lit', 0):
            return True
    if k[0] == 'call' and k[1].split('.')[-1] == 'itemgetter' and k[2] == (('lit', 0),):
        return True
    return False


def term_order_problems(t, sort_param):
    """Taint analysis on the value term of the pooled path.  Source: asyncio.as_completed(...) (completion order).
    Sanitiser: sorted(<pairs>, key=<element 0>) applied before the pairs of several calls are merged, i.e. with no
    binder body (a loop / comprehension over chunks) between the source and the sort.  Returns (problems, n_sources)."""
    problems = []
    n_src = [0]

    def walk(x, above):
        # `above`: list of (node, child position) from the root down to x
        if not isinstance(x, tuple) or not x:
            return
        if x[0] == 'call' and isinstance(x[1], str) and x[1].endswith('as_completed'):
            n_src[0] += 1
            judge(above)
            return
        if x[0] in ('lit', 'p', 'var', 'global', 'opaque'):
            return
        for i, c in enumerate(x):
            if isinstance(c, tuple):
                if c and isinstance(c[0], str):
                    walk(c, above + [(x, i)])
                else:
                    for j, d in enumerate(c):
                        if isinstance(d, tuple):
                            walk(d, above + [(x, i)]) if d and isinstance(d[0], str) else [walk(e, above + [(x, i)]) for e in d if isinstance(e, tuple)]

    def judge(above):
        crossed_binder = False
        for node, pos in reversed(above):
            if node[0] == 'sorted' and pos == 1:
                if not _is_index_key(node[2]):
                    problems.append('a sort of the completion-ordered pairs does not use the submission index as key')
                elif crossed_binder:
                    problems.append('the index sort is applied to pairs merged from several chunks: results of different chunks interleave')
                return
            if (node[0] == 'map' and pos in (2, 4)) or (node[0] == 'mapdict' and pos in (2, 3, 5)):
                crossed_binder = True
            if node[0] == 'cond' and sort_param is not None:
                test = node[1]
                unsorted_branch = (test == ('p', sort_param) and pos == 3) or (test == ('not', ('p', sort_param)) and pos == 2)
                if unsorted_branch:
                    return  # the caller asked for completion order
        problems.append('completion-ordered results reach the returned list without a sort on the submission index')

    walk(t, [])
    # the index that is sorted on must be the submission index: enumerate(<completion-ordered iterable>) counts completions
    for x in dag_nodes(t):
        if x[0] == 'call' and x[1] in ('enumerate', 'builtins.enumerate') and x[2] and any(y[0] == 'call' and isinstance(y[1], str) and y[1].endswith('as_completed') for y in dag_nodes(x[2][0])):
            problems.append('results are numbered while iterating in completion order (enumerate over as_completed): the index sorted on is the completion rank, not the position of the input')
    return sorted(set(problems)), n_src[0]


def check_parallel_map(A, R: Report, f):
    name = f'{f.module.name.split(".")[-1]}.parallel_map'
    fun_param = f.params[0]
    scope = [f] + list(f.nested.values())
    uses_completion = any(isinstance(n, ast.Call) and src(n.func).endswith('as_completed') for g in scope for n in A.typer.own_nodes(g))
    # --- roles: the coroutine that submits and collects, the worker handed to the executor
    frun = next((g for g in f.nested.values() if any(isinstance(n, ast.Call) and src(n.func).endswith('as_completed') for n in A.typer.own_nodes(g))), None) or \
        next((g for g in f.nested.values() if any(isinstance(n, ast.Call) and src(n.func).endswith('run_in_executor') for n in A.typer.own_nodes(g))), None)
    subs = [n for g in f.nested.values() for n in A.typer.own_nodes(g) if isinstance(n, ast.Call) and src(n.func).endswith('run_in_executor')]
    ffun = None
    for c in subs:
        if len(c.args) >= 2 and isinstance(c.args[1], ast.Name) and c.args[1].id in f.nested:
            ffun = f.nested[c.args[1].id]
    if frun is None or ffun is None:
        # an implementation that never consumes completion order (executor.map) carries no taint
        if uses_completion:
            R.undecided('R17.1', name, 'completion-ordered collection idiom not recognised', where=where(f))
        else:
            R.ok('R17.1', name, 'no completion-ordered collection', where=where(f))
        R.undecided('R17.2', f'{name}: worker', 'pooled submission idiom not recognised', where=where(f))
        R.undecided('R17.2', f'{name}: submission', 'pooled submission idiom not recognised', where=where(f))
    else:
        # --- index tagging: the worker returns (its first argument, fun(its second argument))
        wt = A.sym.func_term(ffun, None)
        tag_ok = len(ffun.params) == 2 and wt == ('tuple', (('p', ffun.params[0]), ('call', fun_param, (('p', ffun.params[1]),))))
        n_fun_calls = sum(1 for n in A.typer.own_nodes(ffun) if isinstance(n, ast.Call) and src(n.func) == fun_param)
        tag_ok = tag_ok and n_fun_calls == 1
        R.check(tag_ok, 'R17.2', f'{name}: worker', key_of('tag', pretty(wt)[:100]), 'returns (index, fun(arg)); fun called once',
                'the worker does not return (submission index, fun(arg)) with exactly one call of fun', witness=[pretty(wt)[:200]], where=where(ffun))
        # --- submission: one future per (index, element) of enumerate(<the input>)
        comp_args = [n.args[0] for n in A.typer.own_nodes(frun) if isinstance(n, ast.Call) and src(n.func).endswith('as_completed') and n.args]
        at = A.sym.terms_at(frun, None, comp_args) if comp_args else {}
        fts = [t for n in comp_args for t in at.get(id(n), [])]
        sub_ok = bool(fts)
        seq = None
        for t in fts:
            good = t[0] == 'map' and len(t[1]) == 2 and t[4] is None and t[3][0] == 'call' and t[3][1] == 'enumerate' and len(t[3][2]) == 1 \
                and t[2][0] == 'method' and t[2][2] == 'run_in_executor' and len(t[2][3]) == 4 and t[2][3][1] == ('global', ffun.name) and t[2][3][2:] == (t[1][0], t[1][1])
            sub_ok = sub_ok and good
            seq = pretty(t[3][2][0]) if good else seq
        if comp_args and not fts:
            R.undecided('R17.2', f'{name}: submission', 'the submitted futures could not be evaluated symbolically', where=where(frun))
        else:
            R.check(sub_ok, 'R17.2', f'{name}: submission', key_of('submit', [pretty(t)[:100] for t in fts]), f'one future per element of enumerate({seq})',
                    'elements are not submitted exactly once each with their enumerate index', witness=[pretty(t)[:200] for t in fts[:1]], where=where(frun))
    handlers = [n for g in scope for n in A.typer.own_nodes(g) if isinstance(n, ast.ExceptHandler)]
    R.check(not handlers, 'R17.2', f'{name}: exceptions', key_of('handlers', len(handlers)), 'no handler between fun and the caller', 'an exception handler can swallow the exception raised by fun', where=where(f))
    # --- value term of the function: sequential shortcut and pooled path
    ft = A.sym.func_term(f, None)
    one = ('cmp', 'Eq', ('p', 'threads'), ('lit', 1))
    seq_t = assume(ft, lambda c: True if c == one else None)
    pooled_t = assume(ft, lambda c: False if c == one else None)
    # sequential path: [fun(x) for x in <the input, possibly wrapped by a progress bar>]
    ok_seq = seq_t != ft and seq_t[0] == 'map' and len(seq_t[1]) == 1 and seq_t[4] is None and seq_t[2] in (('call', 'apply', (('p', fun_param), seq_t[1][0])), ('call', fun_param, (seq_t[1][0],))) \
        and ('p', f.params[1]) in dag_nodes(seq_t[3])
    R.check(ok_seq, 'R17.2', f'{name}: sequential path', key_of('sequential', pretty(seq_t)[:100]), '[fun(x) for x in iterable] when threads == 1', 'the sequential shortcut is not a plain map over every element',
            witness=[pretty(seq_t)[:200]], where=where(f))
    # --- order restoration
    if not uses_completion:
        R.ok('R17.1', name, 'results are not collected in completion order', where=where(f))
        return
    sort_param = 'sort' if 'sort' in f.params else None
    _KEY_FUNCS.clear()
    for g in list(f.nested.values()) + [h for h in A.prog.functions.values() if h.parent is None and h.cls is None and h.module is f.module]:
        if len(g.params) == 1 and not isinstance(g.node, ast.Lambda):
            try:
                _KEY_FUNCS[g.name] = A.sym.func_term(g, None)
            except Exception:
                pass
    problems, n_src = term_order_problems(pooled_t, sort_param)
    if n_src == 0:
        # the term engine lost the flow (uninterpreted construct): fall back to the syntactic taint analysis
        problems = order_problems(A, f, frun) if frun is not None else None
        if problems is None:
            R.undecided('R17.1', name, 'order-restoration idiom not recognised', where=where(f))
            return
    R.check(not problems, 'R17.1', f'{name}: order restoration', key_of('order', sorted(set(problems))), 'completion order is undone by a sort on the submission index within its scope',
            '; '.join(sorted(set(problems))), witness=[pretty(pooled_t)[:400]], where=where(f))


def order_problems(A, f, frun):
    """Problems with the way completion-ordered (index, result) pairs reach the returned list; None = idiom unknown.

    Inside _run the awaited items arrive in completion order.  What _run returns is classified as
      'pairs'   - a list of (index, result) pairs in completion order (append / list comprehension),
      'indexed' - results stored at their index in a pre-sized list (order restored by construction),
      'insert'  - results inserted at position i of a partially filled list (NOT an order restoration).
    In the outer function a pair list coming from ONE _run call may be sorted on element 0; once pair lists of several
    calls (a loop over chunks) are merged, element 0 is no longer unique and a sort on it interleaves the chunks."""
    T = A.typer
    problems = []
    sort_param = 'sort' if 'sort' in f.params else None
    # ---- classify _run
    inserts = [n for n in T.own_nodes(frun) if isinstance(n, ast.Call) and isinstance(n.func, ast.Attribute) and n.func.attr == 'insert']
    idx_stores = [n for n in T.own_nodes(frun) if isinstance(n, ast.Assign) and isinstance(n.targets[0], ast.Subscript) and not isinstance(n.targets[0].slice, ast.Slice)]
    run_kind = 'pairs'
    if inserts:
        run_kind = 'insert'
    elif idx_stores:
        run_kind = 'indexed'
    if run_kind == 'insert':
        problems.append(f'`{src(inserts[0])[:50]}` inserts results at their index into a partially filled list: with out-of-order completion the positions shift')
    # ---- outer function
    calls = [n for n in T.own_nodes(f) if isinstance(n, ast.Call) and src(n.func).endswith('run_until_complete') and n.args and isinstance(n.args[0], ast.Call) and src(n.args[0].func) == frun.name]
    if not calls:
        return None
    single = {}   # var -> pairs of one _run call
    merged = set()  # vars holding pairs of several calls
    returned_raw = False
    for c in calls:
        par = getattr(c, '_parent', None)
        in_loop = any(isinstance(p, (ast.For, ast.While)) for p in _parents(c))
        if isinstance(par, ast.Assign) and isinstance(par.targets[0], ast.Name):
            single[par.targets[0].id] = (par, in_loop)
        elif isinstance(par, ast.Call) and isinstance(par.func, ast.Attribute) and par.func.attr in ('extend', 'append') and isinstance(par.func.value, ast.Name):
            if in_loop:
                merged.add(par.func.value.id)
            else:
                single[par.func.value.id] = (par, in_loop)
        elif isinstance(par, ast.AugAssign) and isinstance(par.target, ast.Name):
            if in_loop:
                merged.add(par.target.id)
            else:
                single[par.target.id] = (par, in_loop)
        elif isinstance(par, ast.Return):
            returned_raw = True
        else:
            return None
    # pairs of one call copied into an accumulator inside a loop
    for n in T.own_nodes(f):
        if isinstance(n, ast.Call) and isinstance(n.func, ast.Attribute) and n.func.attr == 'extend' and isinstance(n.func.value, ast.Name) and n.args and isinstance(n.args[0], ast.Name) and n.args[0].id in single:
            if any(isinstance(p, (ast.For, ast.While)) for p in _parents(n)):
                merged.add(n.func.value.id)
    if run_kind == 'pairs':
        if returned_raw:
            problems.append('the completion-ordered (index, result) pairs are returned as they are')
        sorted_ok = False
        for n in T.own_nodes(f):
            tgt = None
            if isinstance(n, ast.Call) and src(n.func) == 'sorted' and n.args and isinstance(n.args[0], ast.Name):
                tgt = n.args[0].id
            elif isinstance(n, ast.Call) and isinstance(n.func, ast.Attribute) and n.func.attr == 'sort' and isinstance(n.func.value, ast.Name):
                tgt = n.func.value.id
            if tgt is None:
                continue
            if tgt in merged:
                problems.append(f'`{src(n)[:60]}` sorts pairs merged from several chunks on their per-chunk index: results of different chunks interleave')
            elif tgt in single:
                if not _index_key(n):
                    problems.append(f'`{src(n)[:60]}` does not sort on the submission index')
                else:
                    sorted_ok = True
        # raw uses of single-call pair lists
        for var, (defn, in_loop) in single.items():
            for u in [x for x in T.own_nodes(f) if isinstance(x, ast.Name) and x.id == var and isinstance(x.ctx, ast.Load)]:
                par = getattr(u, '_parent', None)
                if isinstance(par, ast.Call) and src(par.func) == 'sorted' and par.args and par.args[0] is u:
                    continue
                if isinstance(par, ast.Attribute) and par.attr == 'sort':
                    continue
                if isinstance(par, ast.IfExp) and sort_param and ((par.orelse is u and src(par.test) == sort_param) or (par.body is u and src(par.test) == f'not {sort_param}')):
                    continue
                if isinstance(par, ast.Call) and isinstance(par.func, ast.Attribute) and par.func.attr == 'extend' and var in single and par.func.value is not u:
                    continue  # judged through the accumulator
                problems.append(f'the completion-ordered list `{var}` is used without the index sort in `{src(_stmt_of(u))[:70]}`')
        if not sorted_ok and not problems:
            problems.append('no sort on the submission index restores the input order')
    return problems


DISPLAY_PARAMS = ('desc', 'total', 'smoothing')
DISPLAY_CALLEES = ('tqdm', 'tqdm_notebook', 'progress_bar', 'trange')


def check_display_only(A, R, rid, f):
    """Non-interference by occurrence: each read of a display parameter is (a) the value of a keyword argument of a progress-bar call,
    (b) part of the `<p> is None` test of an `if` that only gives display parameters their default, or (c) an entry of a dict that is only
    unpacked into a progress-bar call.  `total` is a hint that may be wrong (an estimate for a generator): sizing, slicing or placing results
    by it changes the returned list."""
    names = [p_ for p_ in f.params if p_ in DISPLAY_PARAMS]
    funcs = [f]
    stack = list(f.nested.values())
    while stack:
        g = stack.pop()
        funcs.append(g)
        stack.extend(g.nested.values())
    shadowed = {g.qualname: set(g.params) for g in funcs if g is not f}

    def bar_call(c_):
        return isinstance(c_, ast.Call) and src(c_.func).split('.')[-1] in DISPLAY_CALLEES

    def option_dict_ok(var, g):
        # `opts = dict(desc=desc, total=total)` / `{'total': total}`: every read of opts is `**opts` of a progress-bar call
        uses = [x for h in funcs for x in A.typer.own_nodes(h) if isinstance(x, ast.Name) and x.id == var and isinstance(x.ctx, ast.Load)]
        return bool(uses) and all(isinstance(getattr(u, '_parent', None), ast.keyword) and u._parent.arg is None and bar_call(getattr(u._parent, '_parent', None)) for u in uses)

    n_reads = 0
    for g in funcs:
        for x in A.typer.own_nodes(g):
            if not (isinstance(x, ast.Name) and x.id in names and isinstance(x.ctx, ast.Load)) or x.id in shadowed.get(g.qualname, ()):
                continue
            n_reads += 1
            par = getattr(x, '_parent', None)
            construct = f'{f.qualname.split(".")[-2] if "." in f.qualname else ""}.{f.name}: `{x.id}` in `{src(_stmt_of(x)).splitlines()[0][:50]}`'
            ok = undecided = False
            if isinstance(par, ast.keyword) and bar_call(getattr(par, '_parent', None)):
                ok = True
            elif isinstance(par, ast.Compare) and len(par.ops) == 1 and isinstance(par.ops[0], (ast.Is, ast.IsNot)) and isinstance(par.comparators[0], ast.Constant) and par.comparators[0].value is None:
                st = _stmt_of(x)
                ok = isinstance(st, ast.If) and not st.orelse and all(isinstance(b, ast.Assign) and all(isinstance(t_, ast.Name) and t_.id in names for t_ in b.targets) for b in st.body)
                undecided = not ok
            elif isinstance(par, (ast.keyword, ast.Dict)):
                holder = getattr(par, '_parent', None) if isinstance(par, ast.keyword) else par
                asg = getattr(holder, '_parent', None)
                if (isinstance(holder, ast.Dict) or (isinstance(holder, ast.Call) and src(holder.func) == 'dict')) and isinstance(asg, ast.Assign) and len(asg.targets) == 1 and isinstance(asg.targets[0], ast.Name):
                    ok = option_dict_ok(asg.targets[0].id, g)
                    undecided = not ok
            elif isinstance(par, ast.Assign) and par.value is x:
                undecided = True   # a plain alias: not followed
            if undecided:
                R.undecided(rid, construct, 'use of a display argument not recognised', where=where(g, x))
            else:
                R.check(ok, rid, construct, key_of('display-only', f.qualname, x.id, src(_stmt_of(x)).splitlines()[0][:60]), 'reaches only the progress bar',
                        f'the progress-display argument `{x.id}` is used outside the progress bar (`{src(_stmt_of(x)).splitlines()[0][:70]}`): with a caller-supplied value that differs from the real '
                        'number of elements (an estimate for a generator) the returned list is no longer [f(x) for x in xs]', where=where(g, x))
    return n_reads


def _parents(n):
    p = getattr(n, '_parent', None)
    while p is not None and not isinstance(p, (ast.FunctionDef, ast.AsyncFunctionDef)):
        yield p
        p = getattr(p, '_parent', None)


def _stmt_of(n):
    while n is not None and not isinstance(n, ast.stmt):
        n = getattr(n, '_parent', None)
    return n


def run(A, R: Report, thorough: bool):
    R.explanation = ('Taint-style rule: the list filled while iterating as_completed() is completion-ordered; it may reach the returned list only through sorted(key=index) applied in '
                     'the scope where the indices are unique (sanitiser), or unsorted when sort=False. Structural rules for the worker, the submission comprehension, the sequential shortcut '
                     'and the chunking idiom. Not decided: real schedules; exactly-once under executor semantics.')
    R.trusted = TRUSTED_BASE + ['sorted() with a key on unique integers is a total order', 'asyncio.as_completed yields in completion order', 'asyncio.run() closes the loop it created and leaves the thread without a current event loop; asyncio.get_event_loop() then raises in the main thread']
    R.rule('R17.1', 'completion-ordered results pass a sort on the submission index, inside the scope of those indices, before they are returned (when sorting is requested)', floor=2)
    R.rule('R17.2', 'fun is applied once per element on the sequential and on the pooled path; nothing swallows its exception', floor=6)
    pms = [f for f in A.prog.functions.values() if f.name == 'parallel_map' and f.parent is None]
    R.require(len(pms) >= 2, f'anchor: expected parallel_map in utils.threading and utils.iter, found {len(pms)}')
    for f in pms:
        check_parallel_map(A, R, f)

    # ---- R17.3
    R.rule('R17.3', 'chunked yields a chunk exactly when it holds chunksize items, then starts a NEW list and resets the counter; the tail is yielded iff non-empty', floor=1)
    fc = A.func('chunked')
    size = fc.params[1]
    cfg = A.cfg(fc)
    def elem_of(n):
        """name of the current element when the loop walks the iterable itself (directly, or numbered by enumerate)"""
        if src(n.iter) == fc.params[0] and isinstance(n.target, ast.Name):
            return n.target.id
        if isinstance(n.iter, ast.Call) and src(n.iter.func) == 'enumerate' and n.iter.args and src(n.iter.args[0]) == fc.params[0] and isinstance(n.target, ast.Tuple) \
                and len(n.target.elts) == 2 and all(isinstance(e_, ast.Name) for e_ in n.target.elts):
            # the running index counts consumed elements, not the pending chunk: it is no chunk counter below
            return n.target.elts[1].id
        return None
    loops = [n for n in A.typer.own_nodes(fc) if isinstance(n, ast.For) and elem_of(n) is not None]
    if len(loops) != 1:
        R.undecided('R17.3', 'chunked', 'chunking idiom not recognised', where=where(fc))
        return
    lp = loops[0]
    elem = elem_of(lp)
    problems = []
    inside = {id(x) for x in ast.walk(lp)}
    appends = [n for n in ast.walk(lp) if isinstance(n, ast.Call) and isinstance(n.func, ast.Attribute) and n.func.attr == 'append' and isinstance(n.func.value, ast.Name)]
    lst = appends[0].func.value.id if appends else None
    if len(appends) != 1 or [src(a_) for a_ in appends[0].args] != [elem] or not loop_unconditional(cfg, lp, appends[0]):
        problems.append('not exactly one append of the current element per iteration')
    incs = [n for n in ast.walk(lp) if isinstance(n, ast.AugAssign) and isinstance(n.op, ast.Add) and isinstance(n.value, ast.Constant) and n.value.value == 1 and isinstance(n.target, ast.Name)]
    cnt = incs[0].target.id if incs else None
    yields = [n for n in A.typer.own_nodes(fc) if isinstance(n, ast.Yield)]
    in_loop = [y for y in yields if id(y) in inside]
    tail = [y for y in yields if id(y) not in inside]

    def is_size_test(a_, pol):
        # "<count> == chunksize" (or >=) holds, where <count> is the counter or len(<list>)
        if not (isinstance(a_, ast.Compare) and len(a_.ops) == 1):
            return None
        l, r = subst_single_assign(A, fc, a_.left), subst_single_assign(A, fc, a_.comparators[0])
        op = a_.ops[0]
        if src(r) != size and src(l) == size:
            l, r = r, l
            op = {ast.Lt: ast.Gt(), ast.Gt: ast.Lt(), ast.LtE: ast.GtE(), ast.GtE: ast.LtE()}.get(type(op), op)
        if src(r) != size:
            return None
        good = (isinstance(op, (ast.Eq, ast.GtE)) and pol) or (isinstance(op, (ast.NotEq, ast.Lt)) and not pol)
        if not good:
            return None
        if cnt is not None and src(l) == cnt:
            return 'counter'
        if lst is not None and src(l) == f'len({lst})':
            return 'len'
        return None

    if len(in_loop) != 1:
        problems.append('in-loop yield not found (or more than one)')
    else:
        y = in_loop[0]
        kinds = {is_size_test(a_, pol) for cn in cfg_nodes_for(cfg, y) for a_, pol in expanded_facts(A, fc, cfg, cn.id)} - {None}
        if not kinds:
            facts = [(src(a_), pol) for cn in cfg_nodes_for(cfg, y) for a_, pol in cfg.facts_at(cn.id)]
            problems.append(f'yield condition `{facts}` is not "chunk holds chunksize items"')
        if 'counter' in kinds and 'len' not in kinds:
            if len(incs) != 1 or not loop_unconditional(cfg, lp, incs[0]):
                problems.append('counter is not incremented exactly once per element')
        if not (y.value is not None and src(y.value) == lst):
            problems.append('the yielded value is not the collected chunk')
        ynodes = [cn.id for cn in cfg_nodes_for(cfg, y)]
        heads = [n.id for n in cfg.nodes.values() if n.kind == 'for' and n.ast is lp]
        allnodes = list(cfg.nodes)
        fresh = [n for n in ast.walk(lp) if isinstance(n, ast.Assign) and len(n.targets) == 1 and src(n.targets[0]) == lst and
                 ((isinstance(n.value, ast.List) and not n.value.elts) or (isinstance(n.value, ast.Call) and src(n.value.func) == 'list' and not n.value.args))]
        fnodes = [cn.id for n in fresh for cn in cfg_nodes_for(cfg, n)]
        if not fnodes or cfg.find_path(ynodes, heads, avoid=fnodes, no_exc_from=allnodes) is not None:
            problems.append('after yielding, the same list object is reused (cleared in place): a consumer still holding the previous chunk sees it emptied / overwritten')
        if 'counter' in kinds and 'len' not in kinds:
            resets = [n for n in ast.walk(lp) if isinstance(n, ast.Assign) and len(n.targets) == 1 and src(n.targets[0]) == cnt and isinstance(n.value, ast.Constant) and n.value.value == 0]
            rnodes = [cn.id for n in resets for cn in cfg_nodes_for(cfg, n)]
            if not rnodes or cfg.find_path(ynodes, heads, avoid=rnodes, no_exc_from=allnodes) is not None:
                problems.append('counter not reset with the list')
        # the append must precede the size test: it dominates the yield
        anodes = [cn.id for a_ in appends for cn in cfg_nodes_for(cfg, a_)]
        if anodes and cfg.find_path([h for hd in heads for h in cfg.succ_by_label(hd, 'loop')], ynodes, avoid=anodes, no_exc_from=allnodes) is not None:
            problems.append('element appended after the size test')
    if len(tail) != 1:
        problems.append('trailing yield missing')
    else:
        ty = tail[0]
        nonempty = False
        shown = []
        for cn in cfg_nodes_for(cfg, ty):
            for a_, pol in expanded_facts(A, fc, cfg, cn.id):
                e = subst_single_assign(A, fc, a_)
                t_ = src(e)
                shown.append((t_, pol))
                if pol and t_ in (lst, f'len({lst})', f'len({lst}) > 0', f'{lst} != []', f'len({lst}) != 0', f'len({lst}) >= 1') + ((cnt, f'{cnt} > 0', f'{cnt} != 0', f'{cnt} >= 1') if cnt else ()):
                    nonempty = True
                if not pol and t_ in (f'not {lst}', f'len({lst}) == 0', f'{lst} == []') + ((f'{cnt} == 0',) if cnt else ()):
                    nonempty = True
        if not nonempty:
            problems.append(f'trailing yield guarded by `{shown}`, not by "chunk non-empty"')
        if not (ty.value is not None and src(ty.value) == lst):
            problems.append('the trailing yield does not yield the collected chunk')
    R.check(not problems, 'R17.3', 'chunked', key_of('chunked', sorted(problems)), 'chunking idiom well-formed', '; '.join(problems), where=where(fc))

    # ---- R17.8 the progress-display arguments are display-only
    R.rule('R17.8', 'the progress-display arguments (desc, total, smoothing) reach only the progress bar: the returned list cannot depend on them', floor=2)
    for f in pms:
        check_display_only(A, R, 'R17.8', f)

    # ---- R17.6 the helpers share the thread's event loop: none of them may take it away from the others
    R.rule('R17.6', 'while some helper obtains the loop with asyncio.get_event_loop(), no code closes or unsets the thread\'s current loop (asyncio.run, loop.close, set_event_loop(None))', floor=1)
    users, killers = [], []
    for f_ in A.prog.functions.values():
        for n_ in A.typer.own_nodes(f_):
            if isinstance(n_, ast.Call):
                fn = src(n_.func)
                if fn.endswith('get_event_loop'):
                    users.append((f_, n_))
                elif fn in ('asyncio.run', 'run') and fn == 'asyncio.run':
                    killers.append((f_, n_))
                elif fn.endswith('.close') and 'loop' in fn.lower():
                    killers.append((f_, n_))
                elif fn.endswith('set_event_loop') and n_.args and isinstance(n_.args[0], ast.Constant) and n_.args[0].value is None:
                    killers.append((f_, n_))
    if not users:
        R.ok('R17.6', 'event loop', 'no helper depends on a current event loop', where='-')
    else:
        R.check(not killers, 'R17.6', 'event loop shared by the parallel_map helpers', key_of('loop-killers', sorted({f'{f_.short}:{src(n_)[:30]}' for f_, n_ in killers})),
                f'{len(users)} user(s) of the current loop ({", ".join(sorted({f_.short for f_, _ in users}))}); nobody closes it',
                f'`{src(killers[0][1])[:40] if killers else ""}` in {killers[0][0].short if killers else ""} closes / unsets the thread\'s current event loop, while {", ".join(sorted({f_.short for f_, _ in users}))} '
                'still gets its loop from asyncio.get_event_loop(): after one call of the former, the latter raises "There is no current event loop" instead of returning the mapped list',
                where=where(killers[0][0], killers[0][1]) if killers else where(users[0][0], users[0][1]))

