"""C20 - migration to parameter mode.

R20.1 every mutating file-system effect reachable from migrate_to_parameter_mode targets a path derived from the new
chain / target dir, none derived from the old chain;  R20.2 copies are src=old, dst=new, copies (not moves), and
control-dependent on not dry, old has data, new has no data;  R20.3 the rebuilt config receives path AND part, global
vars and context;  R20.4 pairing by full name, inspection through has_data (nothing runs).
R20.4 pairing by the names the tasks are registered under (not by task.fullname);  R20.9 also: the source size is read only after the presence of the source was established / evaluated.
"""
from __future__ import annotations

import ast

from ..callgraph import show_path
from ..effects import FS_MUTATING
from ..model import src
from ..report import Report, key_of
from ..terms import dag_nodes, has_opaque, pretty
from ..types import Ctx
from .common import TRUSTED_BASE, bound_args, cfg_nodes_for, effects_of, expanded_facts, facts_text, inl, is_run_edge, src_resolved, subst_single_assign, where


def provenance(t, old_names, new_names):
    """'old' | 'new' | 'both' | 'unknown' by the holes a path term mentions."""
    holes = set()
    ns = dag_nodes(t)
    for x in ns:
        if x[0] == 'local' or x[0] == 'p':
            holes.add(x[1])
    # by name of the binding, or by construction: the chain built with parameter_mode=False is the old one
    o = bool(holes & old_names) or any(x[0] == 'kw' and x[1] == 'parameter_mode' and x[2] == ('lit', False) for x in ns)
    n = bool(holes & new_names)
    if o and n:
        return 'both'
    if o:
        return 'old'
    if n:
        return 'new'
    return 'unknown'


def run(A, R: Report, thorough: bool):
    R.explanation = ('Effect summary of migrate_to_parameter_mode with callee holes substituted by the caller\'s receivers, so that `old_task.has_data` yields effects on '
                     'old_task\'s paths and `new_task.has_data` on new_task\'s; CFG branch facts at the copy calls; keyword arguments of the rebuilt Config. '
                     'Not decided: equality of the migrated values.')
    R.trusted = TRUSTED_BASE + ['shutil.copyfile / copytree read src and write dst only', 'shutil.copytree(symlinks=True) recreates links instead of copying what they point to; a pathlib.Path never compares equal to a str']
    f = A.func('migrate_to_parameter_mode')
    ctx = Ctx(f, None)
    E = effects_of(A)
    cfg = A.cfg(f)
    params = f.params
    R.require(len(params) >= 3, 'anchor: migrate_to_parameter_mode(config, target_dir, dry, ...) signature changed')
    cfg_param, target_param, dry_param = params[0], params[1], params[2]
    # names that denote the old / new side: by the value terms of their bindings (assignments, loop iterables)
    binds = {}
    for n, _o in A.nodes(f):
        if _o is not f:
            continue
        if isinstance(n, ast.Assign) and len(n.targets) == 1 and isinstance(n.targets[0], ast.Name):
            binds.setdefault(n.targets[0].id, []).append(n.value)
        elif isinstance(n, ast.For):
            for x in ast.walk(n.target):
                if isinstance(x, ast.Name):
                    binds.setdefault(x.id, []).append(n.iter)
    at = A.sym.terms_at(f, None, [e for es in binds.values() for e in es])
    # a mapping created empty and filled in place by a loop: its value is what the loop built, not the `{}` it started from
    filled = {n_.value.id for n_, _o in A.nodes(f) if _o is f and isinstance(n_, ast.Subscript) and isinstance(n_.ctx, ast.Store) and isinstance(n_.value, ast.Name)}
    for name in sorted(filled & set(binds)):
        if len(binds[name]) == 1 and isinstance(binds[name][0], (ast.Dict, ast.Call)) and not getattr(binds[name][0], 'keys', None) and not getattr(binds[name][0], 'args', None):
            lt = A.sym.local_term(f, None, name)
            if lt[0] != 'opaque':
                at[id(binds[name][0])] = [lt]
    tp, cp = ('p', target_param), ('p', cfg_param)

    def side(t):
        ns = dag_nodes(t)
        if tp in ns:
            return 'new'
        if cp in ns and any(x[0] == 'kw' and x[1] == 'parameter_mode' and x[2] == ('lit', False) for x in ns):
            return 'old'
        return None

    old_names, new_names = set(), {target_param}
    for name, es in binds.items():
        sides = {side(t) for e in es for t in at.get(id(e), [])}
        if sides == {'old'}:
            old_names.add(name)
        elif sides == {'new'}:
            new_names.add(name)
    # the pairing key (loop variable `name`) is shared: it is not evidence of either side
    shared = {src(n.value.slice) for n in A.typer.own_nodes(f) if isinstance(n, ast.Assign) and isinstance(n.value, ast.Subscript)} | \
             {src(n.slice) for n in A.typer.own_nodes(f) if isinstance(n, ast.Subscript) and isinstance(n.slice, ast.Name)}
    old_names -= shared
    new_names -= shared
    R.require(old_names and len(new_names) > 1, f'anchor: could not identify old/new chain bindings (old={sorted(old_names)}, new={sorted(new_names)})')

    # ---- R20.1
    R.rule('R20.1', 'no mutating file-system effect reachable from the migration targets a path of the old chain', floor=3)
    evs = E.collect(ctx, kinds=FS_MUTATING)
    R.require(evs, 'positive control failed: migration has no mutating effect at all')
    seen = set()
    for e in evs:
        prov = provenance(e.target, old_names, new_names) if e.target is not None else 'unknown'
        site_f = e.ctx.func.short if e.ctx is not None else '?'
        construct = f'{site_f}: {e.kind}'
        k = (construct, src(e.site), prov)
        if k in seen:
            continue
        seen.add(k)
        if prov == 'old' or (prov == 'both' and e.kind != 'FS_COPY'):
            R.violation('R20.1', construct, key_of(src(e.site)), f'the migration creates/changes `{pretty(e.target)[:120]}` in the SOURCE tree ({e.kind} reached through {" > ".join(e.chain[:4])})',
                        witness=[e.describe()[:400]], where=where(f, e.root_node))
        elif prov == 'new' or prov == 'both':
            R.ok('R20.1', construct, f'targets the new chain: {pretty(e.target)[:100]}', where=where(f, e.root_node))
        else:
            R.undecided('R20.1', construct, f'target not attributable to either chain: {e.describe()[:200]}', where=where(f, e.root_node))

    # ---- R20.2
    R.rule('R20.2', 'copies read the old task\'s data path, write the new task\'s, and are guarded by not dry, old has data, new has none', floor=2)
    helper_funcs = {o.qualname for _, o in A.nodes(f)}
    copies = [e for e in evs if e.kind in ('FS_COPY', 'FS_RENAME') and e.ctx is not None and e.ctx.func.qualname in helper_funcs]
    R.require(copies, 'anchor: no copy call in migrate_to_parameter_mode')
    loops = [n for n in A.typer.own_nodes(f) if isinstance(n, ast.For) and any(isinstance(x, ast.Name) and x.id in old_names for x in list(ast.walk(n.iter)) + list(ast.walk(n.target)))]
    R.require(loops, 'anchor: loop over the old chain not found in migrate_to_parameter_mode')
    # the migration loop: the one whose body reaches a copy (loops that only build the name -> task maps are not it)
    copy_ids = [cn.id for e in copies for cn in cfg_nodes_for(cfg, e.site)]
    loops = [lp for lp in loops if any(cfg.find_path(cfg.succ_by_label(h.id, 'loop'), copy_ids, avoid=[h.id]) is not None for h in cfg.nodes.values() if h.kind == 'for' and h.ast is lp)] or loops
    heads = [n.id for n in cfg.nodes.values() if n.kind == 'for' and n.ast in loops]
    starts = [v for h in heads for v in cfg.succ_by_label(h, 'loop')]
    allnodes = list(cfg.nodes)

    def has_data_edges(names, label):
        out = []
        for n in cfg.nodes.values():
            if n.kind == 'edge' and n.label == label:
                e = subst_single_assign(A, f, n.ast)
                if isinstance(e, ast.Attribute) and e.attr == 'has_data' and isinstance(e.value, ast.Name) and e.value.id in names:
                    out.append(n.id)
        return out

    g_dry = [n.id for n in cfg.nodes.values() if n.kind == 'edge' and n.label == 'F' and src(n.ast) == dry_param]
    g_old = has_data_edges(old_names, 'T')
    g_new = has_data_edges(new_names, 'F')
    for e in copies:
        construct = f'migrate_to_parameter_mode: `{src(e.site)[:60]}`'
        sp = provenance(e.source, old_names, new_names) if e.source is not None else 'unknown'
        dp = provenance(e.target, old_names, new_names) if e.target is not None else 'unknown'
        problems = []
        if e.kind != 'FS_COPY':
            problems.append('moves instead of copying (the source tree is modified)')
        if sp != 'old':
            problems.append(f'source derives from {sp}')
        if dp != 'new':
            problems.append(f'destination derives from {dp}')
        site_nodes = [cn.id for cn in cfg_nodes_for(cfg, e.site)]
        R.require(site_nodes, f'anchor: copy site `{src(e.site)[:40]}` not found in the control-flow graph of the migration')
        for gates, msg in ((g_dry, f'not guarded by `not {dry_param}`'), (g_old, 'not guarded by the old task having data'),
                           (g_new, 'not guarded by the new task having no data (a second migration would overwrite)')):
            if not gates or cfg.find_path(starts, site_nodes, avoid=gates, no_exc_from=allnodes) is not None:
                problems.append(msg)
        R.check(not problems, 'R20.2', construct, key_of('copy', sorted(set(problems))), 'old -> new copy under all three guards', '; '.join(sorted(set(problems))), where=where(f, e.root_node))

    # ---- R20.2b nothing else skips a task
    R.rule('R20.2b', 'inside the migration loop a task is skipped only because it is in-memory, has no source data, or already has target data', floor=1)
    # a path from the loop body entry back to the loop head that passes no copy must have taken one of the legitimate exits:
    # in-memory data class, no source data, target data already there, dry run
    legit = list(g_dry and [n.id for n in cfg.nodes.values() if n.kind == 'edge' and n.label == 'T' and src(n.ast) == dry_param]) + has_data_edges(old_names, 'F') + has_data_edges(new_names, 'T') + \
        [n.id for n in cfg.nodes.values() if n.kind == 'edge' and n.label == 'T' and isinstance(n.ast, ast.Call) and src(n.ast.func) == 'issubclass' and 'InMemoryData' in src(n.ast)]
    copy_nodes = [cn.id for e in copies for cn in cfg_nodes_for(cfg, e.site)]
    p = cfg.find_path(starts, heads, avoid=legit + copy_nodes, no_exc_from=allnodes)
    R.check(p is None, 'R20.2b', 'migrate_to_parameter_mode: loop', key_of('skip', p is None), 'a task is skipped only for a legitimate reason',
            'a task that has a stored result can be skipped for another reason: its result is not carried over', witness=cfg.describe_path(p) if p else None, where=where(f, loops[0]))

    # ---- R20.9 an existing target is accepted only after comparing it with the source
    R.rule('R20.9', 'every size comparison that accepts an existing target relates the old task\'s data to the new task\'s (never a value to itself)', floor=1)
    n9 = 0
    for n_, o_ in A.nodes(f):
        pairs = []
        if isinstance(n_, ast.Compare) and len(n_.ops) == 1 and isinstance(n_.ops[0], (ast.Eq, ast.NotEq)):
            pairs.append((n_.left, n_.comparators[0]))
        elif isinstance(n_, ast.Call) and src(n_.func).split('.')[-1] == 'isclose' and len(n_.args) >= 2:
            pairs.append((n_.args[0], n_.args[1]))
        for a_, b_ in pairs:
            ta, tb = src_resolved(A, o_, a_), src_resolved(A, o_, b_)
            if 'stat()' not in ta + tb and 'st_size' not in ta + tb and 'getsize' not in ta + tb:
                continue
            n9 += 1

            def sides_of(text):
                import re as _re
                names = set(_re.findall(r'[A-Za-z_][A-Za-z_0-9]*', text))
                return {'old' for x in names if x in old_names} | {'new' for x in names if x in new_names}
            sa, sb = sides_of(src(a_)) | sides_of(src(subst_single_assign(A, o_, a_))), sides_of(src(b_)) | sides_of(src(subst_single_assign(A, o_, b_)))
            if o_ is f:
                # by value: which chain the compared expression is computed from (locals, loop variables and name maps resolved in the term)
                tt = A.sym.terms_at(f, None, [a_, b_])
                va = {side(t_) for t_ in tt.get(id(a_), [])} - {None}
                vb = {side(t_) for t_ in tt.get(id(b_), [])} - {None}
                sa, sb = (va or sa), (vb or sb)
            ok9 = (sa == {'old'} and sb == {'new'}) or (sa == {'new'} and sb == {'old'})
            # the source file is only looked at when it exists: the comparison is reached only with `old_task.has_data` established
            if o_ is f and ok9:
                # path rule: every path from the start of an iteration to the comparison takes an edge on which `<old task>.has_data` holds
                def _establishes(e_):
                    txt = src(e_.ast)
                    if not (txt.endswith('.has_data') and (any(x in txt for x in old_names) or any(side(t_) == 'old' for t_ in A.sym.terms_at(f, None, [e_.ast]).get(id(e_.ast), [])))):
                        return False
                    return (e_.label == 'T' and not txt.startswith('not ')) or (e_.label == 'F' and txt.startswith('not '))
                est = [e_.id for e_ in cfg.nodes.values() if e_.kind == 'edge' and _establishes(e_)]
                # a flag set in an if / elif chain and tested afterwards (`skip_reason`) hides the outcome from a path search: then it is
                # enough that the presence of the source was *evaluated* on the way (what happens on its outcomes is R20.2b), or that the
                # path went through the in-memory branch, which never reaches a comparison in a feasible run
                def _asks(e_):
                    txt = src(e_.ast)
                    return (txt.endswith('.has_data') and any(x in txt for x in old_names)) or (e_.label == 'T' and 'InMemoryData' in txt and txt.startswith('issubclass'))
                if est and cfg.find_path([v for h_ in cfg.nodes.values() if h_.kind == 'for' for v in cfg.succ_by_label(h_.id, 'loop')] or [cfg.entry.id], [cn.id for cn in cfg_nodes_for(cfg, n_)],
                                         avoid=est + [h_.id for h_ in cfg.nodes.values() if h_.kind == 'for']) is not None:
                    est = [e_.id for e_ in cfg.nodes.values() if e_.kind == 'edge' and _asks(e_)]
                heads9 = [h_.id for h_ in cfg.nodes.values() if h_.kind == 'for']
                starts9 = [v for h_ in heads9 for v in cfg.succ_by_label(h_, 'loop')] or [cfg.entry.id]
                targets9 = [cn.id for cn in cfg_nodes_for(cfg, n_)]
                has_src = bool(est) and cfg.find_path(starts9, targets9, avoid=est + heads9) is None
                R.check(has_src, 'R20.9', f'migrate_to_parameter_mode: `{src(n_)[:40]}` (source present)', key_of('stat-without-source', has_src), 'the source is known to have data where its size is read',
                        'the size of the source file is read before it is known that the source task has data: a task that exists only in the target (computed there after an earlier migration) makes a repeated '
                        'migration stop with FileNotFoundError, and the tasks after it are not carried over', where=where(o_, n_))
            R.check(ok9, 'R20.9', f'migrate_to_parameter_mode: `{src(n_)[:50]}`', key_of('size-compare', sorted(sa), sorted(sb)), 'source size against target size',
                    f'`{src(n_)[:80]}` compares `{ta[:60]}` ({sorted(sa)}) with `{tb[:60]}` ({sorted(sb)}): a half-written target left by an interrupted migration is accepted as "already exists", and the chain loads a truncated result',
                    where=where(o_, n_))
    if n9 == 0:
        R.violation('R20.9', 'migrate_to_parameter_mode: existing target', key_of('no-size-compare'), 'an existing target is accepted without comparing it with the source: a half-written target left by an interrupted migration is kept', where=where(f))

    # ---- R20.10 what is copied is the content
    R.rule('R20.10', 'copy calls carry no option that changes what is copied (links are followed, nothing is ignored)', floor=2)
    for e in copies:
        c_ = e.site if isinstance(e.site, ast.Call) else None
        if c_ is None:
            continue
        opts = {kw.arg: kw.value for kw in c_.keywords if kw.arg}
        bad10 = [k_ for k_, v_ in opts.items() if (k_ == 'symlinks' and not (isinstance(v_, ast.Constant) and v_.value is False)) or (k_ == 'follow_symlinks' and not (isinstance(v_, ast.Constant) and v_.value is True))
                 or (k_ in ('ignore', 'copy_function', 'ignore_dangling_symlinks') and not (isinstance(v_, ast.Constant) and v_.value in (None, False)))]
        R.check(not bad10, 'R20.10', f'migrate_to_parameter_mode: `{src(c_)[:60]}`', key_of('copy-options', sorted(bad10)), 'plain content copy',
                f'`{src(c_)[:80]}` passes {sorted(bad10)}: links inside a directory result are recreated as links (relative ones dangle in the target tree, where the inputs are stored under hash names) / parts of the result are left out',
                where=where(f, c_))

    # ---- R20.11 the source != target guard compares like with like
    R.rule('R20.11', 'the guard that the target differs from the source compares two values of the same form (both as given, or both converted to Path)', floor=0)
    cinit20 = A.cls('Config').lookup('__init__')

    def form_of(e, func, depth=0):
        """'path' if the value went through Path(...) / resolve / abspath, 'raw' if it is a parameter as given; through attributes stored by Config.__init__"""
        e = subst_single_assign(A, func, e)
        if isinstance(e, ast.Call):
            fn = src(e.func)
            if fn.split('.')[-1] in ('Path', 'PurePath', 'resolve', 'absolute', 'abspath', 'realpath', 'expanduser'):
                return {'path'}
            if fn == 'str' and e.args:
                return {'str'}
            return {'?'}
        if isinstance(e, ast.IfExp):
            return {x for br in (e.body, e.orelse) if not (isinstance(br, ast.Constant) and br.value is None) for x in form_of(br, func, depth)}
        if isinstance(e, ast.Name):
            return {'raw'} if e.id in func.params else {'?'}
        if isinstance(e, ast.Attribute) and depth < 2:
            stores = [n_.value for n_ in A.typer.own_nodes(cinit20) if isinstance(n_, ast.Assign) and any(src(t_) == f'self.{e.attr}' for t_ in n_.targets)]
            if stores:
                return {x for v_ in stores for x in form_of(v_, cinit20, depth + 1)}
        return {'?'}

    for n_ in A.typer.own_nodes(f):
        if isinstance(n_, ast.Compare) and len(n_.ops) == 1 and isinstance(n_.ops[0], (ast.NotEq, ast.Eq)) and target_param in src(n_) and 'base_dir' in src(n_):
            fa, fb = form_of(n_.left, f), form_of(n_.comparators[0], f)
            if '?' in fa | fb:
                R.undecided('R20.11', f'migrate_to_parameter_mode: `{src(n_)[:50]}`', f'form of the compared values not recognised ({sorted(fa)} vs {sorted(fb)})', where=where(f, n_))
            else:
                R.check(fa == fb, 'R20.11', f'migrate_to_parameter_mode: `{src(n_)[:50]}`', key_of('guard-forms', sorted(fa), sorted(fb)), f'both sides {sorted(fa)}',
                        f'`{src(n_)[:60]}` compares a value of form {sorted(fa)} with one of form {sorted(fb)}: a Path never equals a str, so migrating into the source directory itself passes the guard and writes hash-named copies into the source tree',
                        where=where(f, n_))

    # ---- R20.3
    R.rule('R20.3', 'the config rebuilt for the target dir carries the source config\'s file path, part, global vars and context', floor=1)
    ctors = [n for n in inl(A, f) if isinstance(n, ast.Call) and src(n.func) == 'Config']
    R.require(ctors, 'anchor: no Config(...) construction in migrate_to_parameter_mode')
    cinit = A.cls('Config').lookup('__init__')
    for c in ctors:
        ba = bound_args(c, cinit) or {}
        at3 = A.sym.terms_at(f, None, list(ba.values()))
        got = {k_: at3.get(id(v), []) for k_, v in ba.items()}
        problems = []
        if got.get('base_dir') != [tp]:
            problems.append('base dir is not the target dir')
        uses_path = got.get('filepath') == [('attr', cp, '_filepath')]
        if uses_path and got.get('part') != [('attr', cp, '_part')]:
            problems.append('file path passed without `part`: a multi-config part resolves to the file\'s main part')
        if not uses_path and got.get('filepath'):
            problems.append('the rebuilt config does not use the source config\'s file')
        if got.get('global_vars') != [('attr', cp, 'global_vars')]:
            problems.append('global_vars not propagated')
        if got.get('context') != [('attr', cp, 'context')]:
            problems.append('context not propagated')
        R.check(not problems, 'R20.3', 'migrate_to_parameter_mode: Config(...)', key_of('config-identity', sorted(problems)), 'path, part, global_vars, context propagated', '; '.join(problems), where=where(f, c))

    # ---- R20.6 the name-mode chain the migration reads from keeps the parts of one file apart
    from ..terms import assume
    R.rule('R20.6', 'the identifier under which name-mode tasks are shared (Config.repr_name_without_namespace) distinguishes the parts of a multi-config file', floor=1)
    cfgcls = A.cls('Config')
    frn = cfgcls.lookup('repr_name_without_namespace')
    R.require(frn is not None, 'anchor: Config.repr_name_without_namespace missing')
    rt = A.sym.func_term(frn, ('inst', cfgcls))
    fp_t, part_t = ('attr', ('self',), '_filepath'), ('attr', ('self',), '_part')
    with_part = assume(rt, lambda c: True if c in (fp_t, part_t) else (False if c in (('cmp', 'Is', fp_t, ('lit', None)), ('cmp', 'Is', part_t, ('lit', None))) else None))
    if has_opaque(with_part):
        R.undecided('R20.6', 'Config.repr_name_without_namespace', 'identifier could not be evaluated symbolically', where=where(frn))
    else:
        R.check(part_t in dag_nodes(with_part) and fp_t in dag_nodes(with_part), 'R20.6', 'Config.repr_name_without_namespace', key_of('part-in-identifier', pretty(with_part)[:100]), 'file path and part',
                f'for a config taken from part `p` of a file the identifier is `{pretty(with_part)[:120]}`: two parts of one file used under different namespaces share one name-mode task object, so the results of the second are not migrated',
                witness=[pretty(rt)[:300]], where=where(frn))

    # ---- R20.7 the explicit part survives the rebuild (the migration passes path and part separately)
    R.rule('R20.7', 'Config.__init__ takes the part from the file path only when the path contains `#` (an explicit part= is kept otherwise)', floor=0)
    finit7 = cfgcls.lookup('__init__')
    cfgi7 = A.cfg(finit7)
    from .common import part_stores
    for n, guarded in part_stores(A)[1]:
        R.check(guarded, 'R20.7', f'Config.__init__: `{src(n)[:50]}`', key_of('part-from-path', guarded), 'explicit part kept when the path has no `#`',
                f'`{src(n)[:70]}` overwrites an explicitly given part when the path has no `#`: the config rebuilt by the migration (path + part) resolves to the main part of the file, and results are copied under the wrong keys', where=where(finit7, n))

    # ---- R20.5 key derivation is stateless
    from .purity import check_key_stateless
    check_key_stateless(A, R, 'R20.5')

    # ---- R20.4
    R.rule('R20.4', 'old and new tasks are paired by the names they are registered under in their chains; nothing in the migration can run a task', floor=2)

    def registered(t):
        """the mapping name -> task of a chain as the chain registered it: `chain.tasks`, a copy of it, or a comprehension over its items keyed by the item key"""
        if t[0] == 'call' and t[1] in ('dict', 'copy.copy') and len(t[2]) == 1:
            t = t[2][0]
        if t[0] == 'method' and t[2] == 'copy' and not t[3]:
            t = t[1]
        if t[0] == 'attr' and t[2] == 'tasks':
            return True
        return t[0] == 'mapdict' and len(t[1]) == 2 and t[2] == t[1][0] and t[3] == t[1][1] and t[4][0] == 'items' and t[4][1][0] == 'attr' and t[4][1][2] == 'tasks' and t[5] is None

    maps = []
    for name, es in binds.items():
        for e in es:
            for t in at.get(id(e), []):
                if (t[0] == 'mapdict' or registered(t)) and side(t) in ('old', 'new') and not isinstance(getattr(e, '_parent', None), ast.For):
                    maps.append((name, t))
    sides4 = {side(t) for _, t in maps}
    by_own_name = [t for _, t in maps if t[0] == 'mapdict' and not registered(t) and t[2][0] == 'attr' and t[2][2] == 'fullname' and t[2][1] in t[1] and t[3] == t[2][1]]
    key_ok = sides4 == {'old', 'new'} and all(registered(t) for _, t in maps)
    shown = [pretty(t[2]) if t[0] == 'mapdict' else pretty(t)[:60] for _, t in maps]
    R.check(key_ok, 'R20.4', 'migrate_to_parameter_mode: pairing', key_of('pairing', 'own-fullname' if by_own_name and len(by_own_name) == len(maps) else shown), 'both chains indexed by their registered names',
            ('the chains are indexed by each task object\'s own `fullname`: in parameter mode one object stands for every name with the same parameters (equal tasks under two namespaces), it carries only the first of '
             'them, so the second name is missing from the index - `new_chain[name]` raises KeyError and nothing after it is migrated' if by_own_name and len(by_own_name) == len(maps) else
             f'chains are not both indexed by the names their tasks are registered under: {shown}'), where=where(f))
    p = A.cg.find_path([ctx], is_run_edge(A))
    R.check(p is None, 'R20.4', 'migrate_to_parameter_mode: runs nothing', key_of('run-reachable'), 'run() unreachable', 'the migration can run a task', witness=show_path(p) if p else None, where=where(f))
