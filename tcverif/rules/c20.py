"""C20 - migration to parameter mode.

R20.1 every mutating file-system effect reachable from migrate_to_parameter_mode targets a path derived from the new
chain / target dir, none derived from the old chain;  R20.2 copies are src=old, dst=new, copies (not moves), and
control-dependent on not dry, old has data, new has no data;  R20.3 the rebuilt config receives path AND part, global
vars and context;  R20.4 pairing by full name, inspection through has_data (nothing runs).
"""
from __future__ import annotations

import ast

from ..callgraph import show_path
from ..effects import FS_MUTATING
from ..model import src
from ..report import Report, key_of
from ..terms import dag_nodes, pretty
from ..types import Ctx
from .common import TRUSTED_BASE, cfg_nodes_for, effects_of, is_run_edge, where


def provenance(t, old_names, new_names):
    """'old' | 'new' | 'both' | 'unknown' by the holes a path term mentions."""
    holes = set()
    for x in dag_nodes(t):
        if x[0] == 'local' or x[0] == 'p':
            holes.add(x[1])
    o = bool(holes & old_names)
    n = bool(holes & new_names)
    if o and n:
        return 'both'
    if o:
        return 'old'
    if n:
        return 'new'
    return 'unknown'


def run(A, R: Report, thorough: bool):
    R.explanation = ('Effect summary of migrate_to_parameter_mode with callee holes substituted by the caller\'s receivers, so that `old_task.has_data` yields effects on '
                     'old_task\'s paths and `new_task.has_data` on new_task\'s; CFG branch facts at the copy calls; keyword arguments of the rebuilt Config. '
                     'Not decided: equality of the migrated values.')
    R.trusted = TRUSTED_BASE + ['shutil.copyfile / copytree read src and write dst only']
    f = A.func('migrate_to_parameter_mode')
    ctx = Ctx(f, None)
    E = effects_of(A)
    cfg = A.cfg(f)
    params = f.params
    R.require(len(params) >= 3, 'anchor: migrate_to_parameter_mode(config, target_dir, dry, ...) signature changed')
    cfg_param, target_param, dry_param = params[0], params[1], params[2]
    # names that denote the old / new side, from the function's own bindings
    old_names, new_names = set(), {target_param}
    for n in A.typer.own_nodes(f):
        if isinstance(n, ast.Assign) and len(n.targets) == 1 and isinstance(n.targets[0], ast.Name):
            v = src(n.value)
            name = n.targets[0].id
            if 'parameter_mode=False' in v:
                old_names.add(name)
            elif target_param in v:
                new_names.add(name)
    for n in A.typer.own_nodes(f):
        if isinstance(n, ast.For):
            it = src(n.iter)
            if any(o in it for o in old_names):
                for x in ast.walk(n.target):
                    if isinstance(x, ast.Name):
                        old_names.add(x.id)
        if isinstance(n, ast.Assign) and len(n.targets) == 1 and isinstance(n.targets[0], ast.Name) and isinstance(n.value, ast.Subscript):
            if src(n.value.value) in new_names:
                new_names.add(n.targets[0].id)
            elif src(n.value.value) in old_names:
                old_names.add(n.targets[0].id)
    # the pairing key (loop variable `name`) is shared: it is not evidence of either side
    shared = {x.id for n in A.typer.own_nodes(f) if isinstance(n, ast.For) for x in ast.walk(n.target) if isinstance(x, ast.Name)} & \
             {src(n.value.slice) for n in A.typer.own_nodes(f) if isinstance(n, ast.Assign) and isinstance(n.value, ast.Subscript)}
    old_names -= shared
    R.require(old_names and len(new_names) > 1, f'anchor: could not identify old/new chain bindings (old={sorted(old_names)}, new={sorted(new_names)})')

    # ---- R20.1
    R.rule('R20.1', 'no mutating file-system effect reachable from the migration targets a path of the old chain', floor=3)
    evs = E.collect(ctx, kinds=FS_MUTATING)
    R.require(evs, 'positive control failed: migration has no mutating effect at all')
    seen = set()
    for e in evs:
        prov = provenance(e.target, old_names, new_names) if e.target is not None else 'unknown'
        site_f = e.ctx.func.short if e.ctx is not None else '?'
        construct = f'{site_f}: {e.kind}'
        k = (construct, src(e.site), prov)
        if k in seen:
            continue
        seen.add(k)
        if prov == 'old' or (prov == 'both' and e.kind != 'FS_COPY'):
            R.violation('R20.1', construct, key_of(src(e.site)), f'the migration creates/changes `{pretty(e.target)[:120]}` in the SOURCE tree ({e.kind} reached through {" > ".join(e.chain[:4])})',
                        witness=[e.describe()[:400]], where=where(f, e.root_node))
        elif prov == 'new' or prov == 'both':
            R.ok('R20.1', construct, f'targets the new chain: {pretty(e.target)[:100]}', where=where(f, e.root_node))
        else:
            R.undecided('R20.1', construct, f'target not attributable to either chain: {e.describe()[:200]}', where=where(f, e.root_node))

    # ---- R20.2
    R.rule('R20.2', 'copies read the old task\'s data path, write the new task\'s, and are guarded by not dry, old has data, new has none', floor=2)
    copies = [e for e in evs if e.kind in ('FS_COPY', 'FS_RENAME') and e.ctx is not None and e.ctx.func is f]
    R.require(copies, 'anchor: no copy call in migrate_to_parameter_mode')
    for e in copies:
        construct = f'migrate_to_parameter_mode: `{src(e.site)[:60]}`'
        sp = provenance(e.source, old_names, new_names) if e.source is not None else 'unknown'
        dp = provenance(e.target, old_names, new_names) if e.target is not None else 'unknown'
        problems = []
        if e.kind != 'FS_COPY':
            problems.append('moves instead of copying (the source tree is modified)')
        if sp != 'old':
            problems.append(f'source derives from {sp}')
        if dp != 'new':
            problems.append(f'destination derives from {dp}')
        for cn in cfg_nodes_for(cfg, e.site):
            facts = [(src(a), pol) for a, pol in cfg.facts_at(cn.id)]
            if (dry_param, False) not in facts:
                problems.append(f'not guarded by `not {dry_param}`')
            if not any(t.endswith('.has_data') and any(t.startswith(o + '.') for o in old_names) and pol for t, pol in facts):
                problems.append('not guarded by the old task having data')
            if not any(t.endswith('.has_data') and any(t.startswith(nn + '.') for nn in new_names) and not pol for t, pol in facts):
                problems.append('not guarded by the new task having no data (a second migration would overwrite)')
        R.check(not problems, 'R20.2', construct, key_of('copy', sorted(set(problems))), 'old -> new copy under all three guards', '; '.join(sorted(set(problems))), where=where(f, e.site))

    # ---- R20.2b nothing else skips a task
    R.rule('R20.2b', 'inside the migration loop a task is skipped only because it is in-memory, has no source data, or already has target data', floor=1)
    loops = [n for n in A.typer.own_nodes(f) if isinstance(n, ast.For) and any(o in src(n.iter) for o in old_names)]
    R.require(loops, 'anchor: loop over the old chain not found in migrate_to_parameter_mode')
    n_skip = 0
    for lp in loops:
        for n in ast.walk(lp):
            if isinstance(n, ast.If) and any(isinstance(b, ast.Continue) for b in n.body):
                n_skip += 1
                t = src(n.test)
                ok = ('InMemoryData' in t and 'issubclass' in t) or t.endswith('.has_data') or (t.startswith('not ') and t.endswith('.has_data')) or t == dry_param
                R.check(ok, 'R20.2b', f'migrate_to_parameter_mode: skip `{t[:60]}`', key_of('skip', t), 'legitimate skip',
                        f'a task that has a stored result is skipped under `{t}`: its result is not carried over', where=where(f, n))
    R.require(n_skip >= 2, 'anchor: expected the in-memory / no-data / already-there skips in the migration loop')

    # ---- R20.3
    R.rule('R20.3', 'the config rebuilt for the target dir carries the source config\'s file path, part, global vars and context', floor=1)
    ctors = [n for n in A.typer.own_nodes(f) if isinstance(n, ast.Call) and src(n.func) == 'Config']
    R.require(ctors, 'anchor: no Config(...) construction in migrate_to_parameter_mode')
    for c in ctors:
        kws = {kw.arg: src(kw.value) for kw in c.keywords}
        pos = [src(a) for a in c.args]
        problems = []
        if not (pos and pos[0] == target_param or kws.get('base_dir') == target_param):
            problems.append('base dir is not the target dir')
        uses_path = any('_filepath' in p for p in pos[1:]) or '_filepath' in kws.get('filepath', '')
        if uses_path and '_part' not in kws.get('part', '') and not any('_part' in p for p in pos):
            problems.append('file path passed without `part`: a multi-config part resolves to the file\'s main part')
        if 'global_vars' not in kws.get('global_vars', ''):
            problems.append('global_vars not propagated')
        if 'context' not in kws.get('context', ''):
            problems.append('context not propagated')
        R.check(not problems, 'R20.3', 'migrate_to_parameter_mode: Config(...)', key_of('config-identity', sorted(problems)), 'path, part, global_vars, context propagated', '; '.join(problems), where=where(f, c))

    # ---- R20.5 key derivation is stateless
    from .purity import check_key_stateless
    check_key_stateless(A, R, 'R20.5')

    # ---- R20.4
    R.rule('R20.4', 'old and new tasks are paired by full name; nothing in the migration can run a task', floor=2)
    maps = [n for n in A.typer.own_nodes(f) if isinstance(n, ast.DictComp)]
    key_ok = len(maps) >= 2 and all(src(m.key).endswith('.fullname') for m in maps)
    R.check(key_ok, 'R20.4', 'migrate_to_parameter_mode: pairing', key_of('pairing', [src(m.key) for m in maps]), 'both chains keyed by fullname', f'chains are not both keyed by full name: {[src(m.key) for m in maps]}', where=where(f))
    p = A.cg.find_path([ctx], is_run_edge(A))
    R.check(p is None, 'R20.4', 'migrate_to_parameter_mode: runs nothing', key_of('run-reachable'), 'run() unreachable', 'the migration can run a task', witness=show_path(p) if p else None, where=where(f))
