"""C12 - the storage scheme is stable: symbolic equality of the derivations with frozen reference terms.

The reference (reference/scheme_1_4_0.json) holds, per anchor, the Merkle DAG of the normalised term that the
release-1.4.0 code computes.  A term that differs where both sides are fully interpreted is a VIOLATION; a
difference that touches an `opaque` node is UNDECIDED.

    /venv/bin/python -m tcverif.rules.c12 --generate      (re)generate the reference from /repo - review the diff!
"""
from __future__ import annotations

import ast
import json
import os
import sys

from ..model import AnalysisError, src
from ..report import VERIF, Report, key_of
from ..terms import dag_nodes, has_opaque, merkle, normalise, pretty, pretty_shared, term_hash
from ..types import Ctx
from .common import TRUSTED_BASE, where

REF = os.path.join(VERIF, 'reference', 'scheme_1_4_0.json')


def anchors(A):
    """[(anchor id, term, where)] - every derivation the storage location depends on."""
    S = A.sym
    out = []

    def fn(aid, short, cls=None, kind='inst'):
        f = A.func(short)
        recv = (kind, A.cls(cls)) if cls else None
        out.append((aid, S.func_term(f, recv), where(f)))

    def meth(aid, cls, name, kind='inst'):
        ci = A.cls(cls)
        f = ci.lookup(name) if kind == 'inst' else (ci.metaclass.lookup(name) if ci.metaclass else None)
        if f is None:
            raise AnalysisError(f'anchor {cls}.{name} missing')
        out.append((aid, S.func_term(f, (kind, ci)), where(f)))

    # --- key derivation (parameter mode) and its pieces
    meth('key/parameter-mode', 'TaskParameterConfig', 'get_name_for_persistence')
    meth('key/registry-repr', 'ParameterRegistry', 'repr')
    meth('key/parameter-repr', 'Parameter', 'repr')
    meth('key/parameter-value-repr', 'Parameter', 'value_repr')
    fn('key/value-repr-structural', 'repr_from_instantiation')
    meth('key/auto-parameter-object-repr', 'AutoParameterObject', 'repr')
    meth('key/ignore-for-persistence-remove', 'IgnoreForPersistence', 'remove', kind='inst') if False else None
    # field stores on the key path
    f = A.func('find_and_instantiate_clazz')
    S._field_stores = []
    S.func_term(f, None)
    stores = [(t, v) for c, t, v in S._field_stores if t.attr == '_taskchain_instantiate_repr']
    if not stores:
        raise AnalysisError('anchor: store to _taskchain_instantiate_repr not found in find_and_instantiate_clazz')
    out.append(('key/object-definition-repr', normalise(stores[0][1]), where(f, stores[0][0])))
    tpc = A.cls('TaskParameterConfig')
    init = tpc.methods.get('__init__')
    S._field_stores = []
    S.func_term(init, ('inst', tpc))
    st = [(t, v) for c, t, v in S._field_stores if t.attr == 'input_tasks']
    if not st:
        raise AnalysisError('anchor: store to TaskParameterConfig.input_tasks not found')
    out.append(('key/input-keys-map', normalise(st[-1][1]), where(init, st[-1][0])))
    rs = A.cls('ReprStr')
    new = rs.methods.get('__new__')
    if new is None:
        raise AnalysisError('anchor ReprStr.__new__ missing')
    S._field_stores = []
    S.func_term(new, ('cls', rs))
    st = [(t, v) for c, t, v in S._field_stores if t.attr == 'repr']
    if not st:
        raise AnalysisError('anchor: store to ReprStr.repr not found in __new__')
    out.append(('key/placeholder-string-repr', normalise(st[0][1]), where(new, st[0][0])))
    meth('key/placeholder-string-__repr__', 'ReprStr', '__repr__')
    # --- key in name mode
    meth('key/name-mode', 'Config', 'get_name_for_persistence')
    meth('key/task-name_for_persistence', 'Task', 'name_for_persistence')
    # name-mode identifiers of a config (registry key of name-mode tasks, file names in name mode)
    meth('key/config-name', 'Config', 'name')
    meth('key/config-repr-name', 'Config', 'repr_name')
    meth('key/config-repr-name-without-namespace', 'Config', 'repr_name_without_namespace')
    # --- directory
    meth('dir/task-path', 'Task', 'path')
    meth('dir/slugname', 'Task', 'slugname', kind='cls')
    meth('dir/group', 'Task', 'group', kind='cls')
    meth('dir/group-module-task', 'ModuleTask', 'group', kind='cls')
    meth('dir/group-double-module-task', 'DoubleModuleTask', 'group', kind='cls')
    # what the task hands to the data object
    ip = A.cls('Task').lookup('_init_persistence')
    calls = [n for n in A.typer.own_nodes(ip) if isinstance(n, ast.Call) and isinstance(n.func, ast.Attribute) and n.func.attr == 'init_persistence']
    if not calls:
        raise AnalysisError('anchor: init_persistence call not found in Task._init_persistence')
    ctx = Ctx(ip, ('inst', A.cls('Task')))
    out.append(('file/init-persistence-args', normalise(('tuple', tuple(S.expr_term(a, ctx) for a in calls[0].args))), where(ip, calls[0])))
    # --- per data class: stored base dir / name, path, extension, side files
    data = A.cls('Data')
    for ci in sorted(data.all_subclasses(), key=lambda c: c.short):
        abstract = any(ci.lookup(n) is not None and ci.lookup(n).is_abstract for n in ('_path',))
        if abstract:
            continue
        initp = ci.lookup('init_persistence')
        S._field_stores = []
        S.func_term(initp, ('inst', ci))
        st = sorted(((t.attr, v) for c, t, v in S._field_stores if t.attr in ('_base_dir', '_name')), key=lambda x: x[0])
        out.append((f'file/{ci.short}/stored-location', normalise(('tuple', tuple(('tuple', (('lit', a), v)) for a, v in st))), where(initp)))
        for m in ('_path', 'run_info_path', 'log_path'):
            f = ci.lookup(m)
            out.append((f'file/{ci.short}/{m}', S.func_term(f, ('inst', ci)), where(f)))
        ext = ci.lookup('extension')
        if ext is not None:
            out.append((f'file/{ci.short}/extension', S.func_term(ext, ('inst', ci)), where(ext)))
        owner, dt = ci.lookup_class_attr('DATA_TYPES')
        out.append((f'file/{ci.short}/handled-types', ('lit', src(dt) if dt is not None else None), where(ci.lookup('_path'))))
    return [a for a in out if a is not None]


def generate(A, path=REF):
    ref = {'_comment': 'Frozen storage scheme of taskchain 1.4.0 as symbolic terms (generated from the pinned tree by `python -m tcverif.rules.c12 --generate`, reviewed against the documented '
                       'layout <dir>/<group levels>/<task>/<key>.<ext>, key = sha256(<params>$$$<inputs>)[:32]). Never written by a check.', 'anchors': {}}
    for aid, t, wh in anchors(A):
        top, table = merkle(t)
        ref['anchors'][aid] = {'hash': top, 'pretty': pretty_shared(t), 'nodes': table}
    os.makedirs(os.path.dirname(path), exist_ok=True)
    with open(path, 'w') as f:
        json.dump(ref, f, indent=1, sort_keys=True)
    return ref


def _rebuild(table, h, memo):
    if h in memo:
        return memo[h]
    row = table[h]
    t = tuple(_rebuild(table, c['h'], memo) if isinstance(c, dict) else c for c in row)
    memo[h] = t
    return t


def first_difference(cur, ref):
    """Descend two terms in parallel; returns (path, cur sub-term, ref sub-term) of the first differing node."""
    path = []
    while True:
        if not (isinstance(cur, tuple) and isinstance(ref, tuple)) or len(cur) != len(ref) or (cur and ref and cur[0] != ref[0] and isinstance(cur[0], str)):
            return path, cur, ref
        diffs = [i for i, (a, b) in enumerate(zip(cur, ref)) if (term_hash(a) if isinstance(a, tuple) else a) != (term_hash(b) if isinstance(b, tuple) else b)]
        if not diffs:
            return path, cur, ref
        if len(diffs) > 1 or not isinstance(cur[diffs[0]], tuple) or not isinstance(ref[diffs[0]], tuple):
            return path, cur, ref
        i = diffs[0]
        path.append(f'{cur[0] if cur and isinstance(cur[0], str) else "()"}[{i}]')
        cur, ref = cur[i], ref[i]


def run(A, R: Report, thorough: bool):
    R.explanation = ('Each derivation the storage location depends on (key in both modes and every piece it inlines, directory, file name, extension, side files, handled types) '
                     'is evaluated symbolically to a normalised term and compared, by Merkle hash, with the frozen term of release 1.4.0. The normaliser makes the comparison '
                     'insensitive to f-string/concat/%/format spelling, local variables, helper extraction or inlining, comprehension vs list-builder loop and import spelling.')
    R.trusted = TRUSTED_BASE + ['reference/scheme_1_4_0.json (generated from the pinned tree, reviewed against the documented layout)']
    R.assumptions = ['the pinned tree implements the 1.4.0 scheme (single-commit history; changelog lists only `~~` since 1.4.0)']
    if not os.path.exists(REF):
        raise AnalysisError(f'reference file {REF} missing')
    with open(REF) as f:
        ref = json.load(f)['anchors']
    cur = anchors(A)
    R.rule('C12.term', 'the symbolic term of the derivation equals the frozen 1.4.0 reference term', floor=max(30, len(ref) - 2))
    seen = set()
    for aid, t, wh in cur:
        seen.add(aid)
        if aid not in ref:
            R.undecided('C12.term', aid, 'anchor has no reference term (new data class?) - storage scheme of existing results is unaffected by additions', where=wh)
            continue
        top = term_hash(t)
        if top == ref[aid]['hash']:
            R.ok('C12.term', aid, f'{len(dag_nodes(t))} term nodes equal the reference', witness=[pretty_shared(t)[:300]], where=wh)
            continue
        rt = _rebuild(ref[aid]['nodes'], ref[aid]['hash'], {})
        from ..terms import decision_canon
        if term_hash(decision_canon(t)) == term_hash(decision_canon(rt)):
            # the same case analysis spelled differently (flag updated in steps, merged / split / reordered conditions): same function of the same atoms
            R.ok('C12.term', aid, f'{len(dag_nodes(t))} term nodes; equal to the reference as a decision tree over the same atomic tests', witness=[pretty_shared(t)[:300]], where=wh)
            continue
        path, a, b = first_difference(t, rt)
        if has_opaque(a) or has_opaque(b):
            R.undecided('C12.term', aid, f'term differs from the reference at {"/".join(path) or "root"} but the difference involves a construct the term engine does not interpret', where=wh)
        else:
            R.violation('C12.term', aid, key_of(aid, pretty(a)[:200]),
                        f'the derivation `{aid}` no longer equals the 1.4.0 scheme: results stored by earlier versions/runs would be orphaned (or foreign ones found)',
                        witness=[f'at {"/".join(path) or "root"}', f'now : {pretty(a)[:400]}', f'1.4.0: {pretty(b)[:400]}'], where=wh)
    for aid in ref:
        if aid not in seen:
            R.violation('C12.term', aid, key_of(aid, 'vanished'), f'the derivation `{aid}` of the 1.4.0 scheme no longer exists (data class removed or renamed): its stored results are orphaned', where='?')


if __name__ == '__main__':
    if '--generate' in sys.argv:
        from ..core import Analysis
        A = Analysis()
        r = generate(A)
        print('generated', len(r['anchors']), 'anchors ->', REF)
    elif '--show' in sys.argv:
        from ..core import Analysis
        A = Analysis()
        for aid, t, wh in anchors(A):
            print('==', aid, wh, term_hash(t))
            print('   ' + pretty_shared(t).replace('\n', '\n   '))
