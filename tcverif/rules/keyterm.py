"""Terms of the storage-key derivation and generic walkers over them (shared by C01, C02, C03)."""
from __future__ import annotations

import ast
from typing import Callable, Dict, Iterator, List, Tuple

from ..model import AnalysisError
from ..terms import NONE_T, dag_nodes, normalise, pretty


class KeyTerms:
    def __init__(self, A):
        S = A.sym
        self.A = A

        def meth(cls, name, kind='inst'):
            ci = A.cls(cls)
            f = ci.lookup(name) if kind == 'inst' else ci.metaclass.lookup(name)
            if f is None:
                raise AnalysisError(f'anchor {cls}.{name} missing')
            return S.func_term(f, (kind, ci)), f

        self.KEY, self.f_key = meth('TaskParameterConfig', 'get_name_for_persistence')
        self.REGISTRY, self.f_registry = meth('ParameterRegistry', 'repr')
        self.PARAM_REPR, self.f_param_repr = meth('Parameter', 'repr')
        self.VALUE_REPR, self.f_value_repr = meth('Parameter', 'value_repr')
        self.f_rfi = A.func('repr_from_instantiation')
        self.RFI = S.func_term(self.f_rfi, None)
        self.APO, self.f_apo = meth('AutoParameterObject', 'repr')
        self.f_objdef = A.func('find_and_instantiate_clazz')
        S._field_stores = []
        S.func_term(self.f_objdef, None)
        st = [(t, v) for c, t, v in S._field_stores if t.attr == '_taskchain_instantiate_repr']
        if not st:
            raise AnalysisError('anchor: store to _taskchain_instantiate_repr not found')
        self.OBJDEF = normalise(st[0][1])
        self.objdef_node = st[0][0]
        tpc = A.cls('TaskParameterConfig')
        self.f_tpc_init = tpc.methods.get('__init__')
        S._field_stores = []
        S.func_term(self.f_tpc_init, ('inst', tpc))
        st = [(t, v) for c, t, v in S._field_stores if t.attr == 'input_tasks']
        if not st:
            raise AnalysisError('anchor: store to TaskParameterConfig.input_tasks not found')
        self.INPUT_MAP = normalise(st[-1][1])  # the last recorded store is the final value (a loop-built map supersedes its `{}` initialiser)
        st = [(t, v) for c, t, v in S._field_stores if t.attr == '_data']
        self.TPC_DATA_STORES = [normalise(v) for _, v in st]
        rs = A.cls('ReprStr')
        self.f_reprstr_new = rs.methods.get('__new__')
        if self.f_reprstr_new is None:
            raise AnalysisError('anchor ReprStr.__new__ missing')
        S._field_stores = []
        S.func_term(self.f_reprstr_new, ('cls', rs))
        st = [(t, v) for c, t, v in S._field_stores if t.attr == 'repr']
        if not st:
            raise AnalysisError('anchor: store to ReprStr.repr in __new__ not found')
        self.REPRSTR_NEW = normalise(st[0][1])

    def pieces(self) -> List[Tuple[str, tuple, object]]:
        """(name, term, FuncInfo) of every function on the key path, each evaluated with the *other* key-path functions
        left as references, so that a construct is attributed to the function containing it and reported once."""
        if getattr(self, '_pieces', None) is not None:
            return self._pieces
        A, S = self.A, self.A.sym
        specs = [
            ('TaskParameterConfig.get_name_for_persistence', self.f_key, ('inst', A.cls('TaskParameterConfig'))),
            ('ParameterRegistry.repr', self.f_registry, ('inst', A.cls('ParameterRegistry'))),
            ('AbstractParameter.repr', self.f_param_repr, ('inst', A.cls('Parameter'))),
            ('AbstractParameter.value_repr', self.f_value_repr, ('inst', A.cls('Parameter'))),
            ('repr_from_instantiation', self.f_rfi, None),
            ('AutoParameterObject.repr', self.f_apo, ('inst', A.cls('AutoParameterObject'))),
        ]
        allq = {f.qualname for _, f, _ in specs}
        out = []
        for name, f, recv in specs:
            S.stop_at = allq - {f.qualname}
            try:
                out.append((name, S.func_term(f, recv), f))
            finally:
                S.stop_at = set()
        S.stop_at = allq
        try:
            S._field_stores = []
            S.func_term(self.f_objdef, None)
            st = [(t, v) for c, t, v in S._field_stores if t.attr == '_taskchain_instantiate_repr']
            out.append(('find_and_instantiate_clazz', normalise(st[0][1]), self.f_objdef))
        finally:
            S.stop_at = set()
        out.append(('ReprStr.__new__', self.REPRSTR_NEW, self.f_reprstr_new))
        self._pieces = out
        return out

    def piece(self, name):
        for n, t, f in self.pieces():
            if n == name:
                return t
        raise AnalysisError(f'no key-path piece {name}')

    def PARAM_REPR_OWN(self):
        return self.piece('AbstractParameter.repr')


def replace_subterm(t, sub, by):
    memo = {}

    def go(x):
        if not isinstance(x, tuple):
            return x
        if x is sub or x == sub:
            return by
        i = id(x)
        if i in memo:
            return memo[i]
        r = tuple(go(y) for y in x)
        memo[i] = r
        return r

    return go(t)


def branches(t, guards=()) -> Iterator[Tuple[tuple, tuple]]:
    """Split a term on its top-level cond / dispatch structure: yields (leaf, ((guard term, polarity), ...))."""
    if isinstance(t, tuple) and t and t[0] == 'cond':
        yield from branches(t[2], guards + ((t[1], True),))
        yield from branches(t[3], guards + ((t[1], False),))
    elif isinstance(t, tuple) and t and t[0] == 'dispatch':
        for cs, x in t[2]:
            yield from branches(x, guards + ((('dispatch', t[1], cs), True),))
    else:
        yield t, guards


def walk_guarded(t, visit: Callable, guards=(), ordered=True, parent=None, _seen=None):
    """Depth-first walk carrying path guards (through cond), calling visit(node, guards, parent)."""
    if _seen is None:
        _seen = set()
    if not isinstance(t, tuple) or not t or not isinstance(t[0], str):
        if isinstance(t, tuple):
            for c in t:
                walk_guarded(c, visit, guards, ordered, parent, _seen)
        return
    key = (id(t), guards)
    if key in _seen:
        return
    _seen.add(key)
    visit(t, guards, parent)
    k = t[0]
    if k == 'cond':
        walk_guarded(t[1], visit, guards, ordered, t, _seen)
        walk_guarded(t[2], visit, guards + ((t[1], True),), ordered, t, _seen)
        walk_guarded(t[3], visit, guards + ((t[1], False),), ordered, t, _seen)
        return
    if k in ('map', 'mapdict'):
        g = t[4] if k == 'map' else t[5]
        inner = guards + (((g, True),) if g is not None else ())
        for idx, c in enumerate(t):
            if isinstance(c, tuple):
                body_idx = (2,) if k == 'map' else (2, 3)
                walk_guarded(c, visit, inner if idx in body_idx else guards, ordered, t, _seen)
        return
    for c in t:
        if isinstance(c, tuple):
            walk_guarded(c, visit, guards, ordered, t, _seen)


def guard_has(guards, pred) -> bool:
    return any(pred(g, pol) for g, pol in guards)


def flat_conj(g, pol=True):
    """(leaf, polarity) conjuncts implied by guard g having truth value pol."""
    if g[0] == 'not':
        return flat_conj(g[1], not pol)
    if (g[0] == 'and' and pol) or (g[0] == 'or' and not pol):
        out = []
        for x in g[1]:
            out += flat_conj(x, pol)
        return out
    return [(g, pol)]


def all_conj(guards):
    out = []
    for g, pol in guards:
        out += flat_conj(g, pol)
    return out
