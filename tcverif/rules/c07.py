"""C07 - forcing recomputes exactly what was asked.

R07.1 `not forced` is a conjunct of the load guard;  R07.2 Task.force postcondition on every path;
R07.3 edge orientation x closure direction = downstream;  R07.4 Chain.force covers the whole closure with the flags;
R07.5 delete() removes exactly the visible path (and at most the class's own work directory).
"""
from __future__ import annotations

import ast

from ..effects import FS_MUTATING, same_path
from ..model import src
from ..report import Report, key_of
from ..terms import assume, has_opaque, pretty
from ..types import Ctx
from .c05 import classify, persistent_data_classes
from .common import TRUSTED_BASE, bound_args, cfg_nodes_for, effects_of, expanded_facts, inl, loop_runs_to_end, loop_unconditional, subst_single_assign, where


def load_guard_facts(A):
    """[(load call, cfg node, facts as (text, polarity))] for the `.load(...)` calls in Task.data."""
    f = A.cls('Task').lookup('data')
    cfg = A.cfg(f)
    out = []
    for n in inl(A, f):
        if isinstance(n, ast.Call) and isinstance(n.func, ast.Attribute) and n.func.attr == 'load':
            for cn in cfg_nodes_for(cfg, n):
                fx = expanded_facts(A, f, cfg, cn.id)
                out.append((n, cn, [(src(a), pol) for a, pol in fx], fx))
    return f, out


def graph_orientation(A):
    """[('input->task' | 'task->input' | None, call)] for every construct of Chain._build_graph that adds edges:
    add_edge(a, b) inside loops, or add_edges_from(<comprehension of (a, b) pairs>)."""
    f = A.func('Chain._build_graph')
    binders = {}   # name -> source text of the iterable that binds it (for statements and comprehension generators)
    for st in inl(A, f):
        if isinstance(st, (ast.For, ast.comprehension)):
            for x in ast.walk(st.target):
                if isinstance(x, ast.Name):
                    binders.setdefault(x.id, []).append(src(st.iter))

    pair_lists = {}   # local bound to a comprehension of (a, b) pairs -> the comprehension
    for st in inl(A, f):
        if isinstance(st, ast.Assign) and len(st.targets) == 1 and isinstance(st.targets[0], ast.Name) and isinstance(st.value, (ast.ListComp, ast.GeneratorExp, ast.SetComp)) \
                and isinstance(st.value.elt, ast.Tuple):
            pair_lists[st.targets[0].id] = st.value

    def kind(a, _depth=0):
        if not isinstance(a, ast.Name) or _depth > 3:
            return None
        kinds = set()
        for st in inl(A, f):
            if isinstance(st, (ast.For, ast.comprehension)):
                names = [x for x in ast.walk(st.target) if isinstance(x, ast.Name)]
                if not any(x.id == a.id for x in names):
                    continue
                it = src(st.iter)
                if isinstance(st.iter, ast.Name) and st.iter.id not in pair_lists:
                    # `all_tasks = self.tasks.values()` ... `for t in all_tasks`: what the local was bound to
                    it = src(subst_single_assign(A, f, st.iter))
                if isinstance(st.iter, ast.Name) and st.iter.id in pair_lists and isinstance(st.target, ast.Tuple) and _depth > 0:
                    continue   # resolving an element of the pair list: only its own generators count
                if isinstance(st.iter, ast.Name) and st.iter.id in pair_lists and isinstance(st.target, ast.Tuple):
                    # iterating a list of pairs built before: the kind of the element at the same position
                    pos = next((i for i, e in enumerate(st.target.elts) if isinstance(e, ast.Name) and e.id == a.id), None)
                    comp = pair_lists[st.iter.id]
                    kinds.add(kind(comp.elt.elts[pos], _depth + 1) if pos is not None and pos < len(comp.elt.elts) else None)
                elif 'input_tasks' in it:
                    kinds.add('input')
                elif 'self.tasks' in it:
                    kinds.add('task')
                else:
                    kinds.add(None)
        return next(iter(kinds)) if len(kinds) == 1 else None

    res = []
    for n in inl(A, f):
        pair = None
        if isinstance(n, ast.Call) and isinstance(n.func, ast.Attribute) and n.func.attr == 'add_edge' and len(n.args) >= 2:
            pair = n.args[:2]
        elif isinstance(n, ast.Call) and isinstance(n.func, ast.Attribute) and n.func.attr == 'add_edges_from' and n.args:
            e = subst_single_assign(A, f, n.args[0])
            if isinstance(e, (ast.GeneratorExp, ast.ListComp, ast.SetComp)) and isinstance(e.elt, ast.Tuple) and len(e.elt.elts) >= 2:
                pair = e.elt.elts[:2]
            else:
                res.append((None, n))
                continue
        if pair is None:
            continue
        kinds = [kind(a) for a in pair]
        if kinds == ['input', 'task']:
            res.append(('input->task', n))
        elif kinds == ['task', 'input']:
            res.append(('task->input', n))
        else:
            res.append((None, n))
    return f, res


def run(A, R: Report, thorough: bool):
    R.explanation = ('Branch facts at the load statement; must-pass-through of the state stores in Task.force; orientation of add_edge composed with the networkx closure used by '
                     'dependent_tasks / required_tasks / is_task_dependent_on (API-semantics table); idiom rules on the loops of Chain.force; effect summaries of every delete(). '
                     'Not decided: run counts over request orders.')
    R.trusted = TRUSTED_BASE + ['networkx: descendants = forward reachability, ancestors = backward reachability, has_path(G, a, b) = path a->b']
    task = A.cls('Task')

    # ---- R07.1
    R.rule('R07.1', 'the load in Task.data is control-dependent on the forced flag being false', floor=1)
    fdata, loads = load_guard_facts(A)
    R.require(loads, 'anchor: no load call in Task.data')
    for call, cn, facts, _ in loads:
        R.check(('self._forced', False) in facts or ('self.is_forced', False) in facts, 'R07.1', 'Task.data: load', key_of('forced-guard'), 'guards: ' + str(facts),
                'a forced task would still load its stored result (forced flag is not part of the load guard)', witness=[str(facts)], where=where(fdata, call))

    # ---- R07.2
    fforce = task.lookup('force')
    cfg = A.cfg(fforce)
    R.rule('R07.2', 'every normal exit of Task.force has set the forced flag and dropped the in-memory result; deletion is guarded by delete_data and exists()', floor=3)

    def store_nodes(target, pred):
        return [n.id for n in cfg.nodes.values() if n.kind == 'stmt' and isinstance(n.ast, ast.Assign) and any(src(t) == target for t in n.ast.targets) and pred(n.ast.value)]

    s_forced = store_nodes('self._forced', lambda v: isinstance(v, ast.Constant) and v.value is True)
    s_data = store_nodes('self._data', lambda v: isinstance(v, ast.Constant) and v.value is None)
    for name, nodes in (('self._forced = True', s_forced), ('self._data = None', s_data)):
        p = cfg.find_path([cfg.entry.id], [cfg.exit.id], avoid=nodes)
        R.check(bool(nodes) and p is None, 'R07.2', f'Task.force: {name}', key_of('postcondition', name), 'on every path to return',
                f'Task.force can return without `{name}`: the next request would be served from memory/storage', witness=cfg.describe_path(p) if p else None, where=where(fforce))
    dels = [n for n in inl(A, fforce) if isinstance(n, ast.Call) and isinstance(n.func, ast.Attribute) and n.func.attr == 'delete']
    dparam = [p for p in fforce.params if 'delete' in p]
    R.require(dels and dparam, 'anchor: Task.force has no delete() call or delete_data parameter')
    for d in dels:
        for cn in cfg_nodes_for(cfg, d):
            facts = [(src(a), pol) for a, pol in cfg.facts_at(cn.id)]
            recv = src(d.func.value)
            ok = (dparam[0], True) in facts and ((f'{recv}.exists()', True) in facts)
            R.check(ok, 'R07.2', 'Task.force: delete()', key_of('delete-guard', sorted(facts)), str(facts), f'delete() not guarded by `{dparam[0]}` and `{recv}.exists()`', where=where(fforce, d))

    # ---- R07.3
    R.rule('R07.3', 'graph edge orientation composed with the closure gives: force/dependent_tasks downstream, required_tasks upstream, is_task_dependent_on(t, d) = path d->t', floor=4)
    fb, edges = graph_orientation(A)
    R.require(edges, 'anchor: no add_edge call in Chain._build_graph')
    orient = {o for o, _ in edges}
    if None in orient or len(orient) != 1:
        R.undecided('R07.3', 'Chain._build_graph', f'edge orientation not recognised: {[src(n) for _, n in edges]}', where=where(fb))
        o = None
    else:
        o = orient.pop()
        R.ok('R07.3', 'Chain._build_graph', f'edges are {o}', where=where(fb, edges[0][1]))
    from .c08 import edge_coverage
    ok_e, why_e = edge_coverage(A, fb)
    R.check(ok_e, 'R07.3', 'Chain._build_graph: edges', key_of('edges', why_e), 'the graph the closures are computed on has an edge for every Task-valued input',
            f'the dependency graph lacks declared edges ({why_e}): forcing a task does not reach everything downstream of it', where=where(fb))
    if o is not None:
        fwd = o == 'input->task'
        expect = {'dependent_tasks': 'descendants' if fwd else 'ancestors', 'required_tasks': 'ancestors' if fwd else 'descendants'}
        for mname, want in expect.items():
            f = A.func(f'Chain.{mname}')
            used = [src(n.func).split('.')[-1] for n in A.typer.own_nodes(f) if isinstance(n, ast.Call) and src(n.func).split('.')[-1] in ('descendants', 'ancestors')]
            if not used:
                R.undecided('R07.3', f'Chain.{mname}', 'closure call not recognised', where=where(f))
                continue
            R.check(all(u == want for u in used), 'R07.3', f'Chain.{mname}', key_of('closure', mname, used), f'uses nx.{want} on {o} edges',
                    f'Chain.{mname} uses nx.{used[0]} on {o} edges: it returns the {"upstream" if mname == "dependent_tasks" else "downstream"} side', where=where(f))
        f = A.func('Chain.is_task_dependent_on')
        hp = [n for n in A.typer.own_nodes(f) if isinstance(n, ast.Call) and src(n.func).split('.')[-1] == 'has_path' and len(n.args) >= 3]
        if not hp:
            R.undecided('R07.3', 'Chain.is_task_dependent_on', 'has_path call not recognised', where=where(f))
        for n in hp:
            params = [p for p in f.params if p != 'self']
            a, b = src(n.args[1]), src(n.args[2])
            want = (params[1], params[0]) if fwd else (params[0], params[1])
            R.check((a, b) == want, 'R07.3', 'Chain.is_task_dependent_on', key_of('has_path', a, b), f'has_path({a} -> {b}) on {o} edges',
                    f'has_path({a} -> {b}) on {o} edges answers the converse question', where=where(f, n))

    # ---- R07.4
    cf = A.func('Chain.force')
    R.rule('R07.4', 'Chain.force unions dependent_tasks(.., include_self=True) over all given tasks, forces every member with the delete flag, recomputes every member', floor=3)
    tparam = cf.pos_params[1]
    chain_ci0 = A.cls('Chain')
    cfgf = A.cfg(cf)
    loops = [n for n in inl(A, cf) if isinstance(n, ast.For)]
    stop_old = A.sym.stop_at
    A.sym.stop_at = {fi.qualname for fi in A.prog.functions.values() if fi.name in ('dependent_tasks', 'force', 'value', 'data')}
    try:
        at = A.sym.terms_at(cf, ('inst', chain_ci0), [lp.iter for lp in loops])
    finally:
        A.sym.stop_at = stop_old
    tp = ('p', tparam)

    def core(t):
        """strip order-only wrappers: list / sorted / reversed / [::-1]"""
        while True:
            if t[0] == 'call' and t[1] in ('list', 'reversed', 'tuple') and len(t[2]) == 1:
                t = t[2][0]
            elif t[0] == 'sorted':
                t = t[1]
            elif t[0] == 'call' and t[1] == 'slice3' and t[2][1:] == (('lit', None), ('lit', None), ('lit', -1)):
                t = t[2][0]
            else:
                return t

    def is_closure(t):
        """flatten(dependent_tasks(x, include_self=True) for x in <all given tasks>)"""
        if not (t[0] == 'call' and t[1] == 'flatten' and t[2][0][0] == 'map'):
            return False
        m = t[2][0]
        if len(m[1]) != 1 or m[4] is not None:
            return False
        body, seq = m[2], m[3]
        dep = body[0] == 'ref' and body[1].endswith('dependent_tasks') and body[3][:1] == (m[1][0],) and \
            (('kw', 'include_self', ('lit', True)) in body[3] or body[3][1:2] == (('lit', True),))
        # the sequence is the argument itself, or [argument] for a single task / name
        many = assume(seq, lambda c: False if (c[0] == 'isinst' and c[1] == tp) or (c[0] == 'cmp' and c[1] == 'Is' and c[2] == ('call', 'type', (tp,))) else None)
        single = assume(seq, lambda c: True if (c[0] == 'isinst' and c[1] == tp) or (c[0] == 'cmp' and c[1] == 'Is' and c[2] == ('call', 'type', (tp,))) else None)
        return dep and many == tp and single == ('list', (tp,))

    closure_loops = [lp for lp in loops if any(is_closure(core(t)) for t in at.get(id(lp.iter), []))]
    all_closure = {lp: all(is_closure(core(t)) for t in at.get(id(lp.iter), [])) for lp in closure_loops}
    dflag = [p for p in cf.params if 'delete' in p]
    task_force = task.lookup('force')
    force_loops, value_loops = [], []
    for lp in loops:
        if not isinstance(lp.target, ast.Name):
            continue
        calls = [n for n in ast.walk(lp) if isinstance(n, ast.Call) and isinstance(n.func, ast.Attribute) and n.func.attr == 'force' and src(n.func.value) == lp.target.id]
        vals = [n for n in ast.walk(lp) if isinstance(n, ast.Attribute) and n.attr in ('value', 'data') and src(n.value) == lp.target.id and isinstance(n.ctx, ast.Load)]
        whole = lp in closure_loops and all_closure[lp] and loop_runs_to_end(lp)
        if calls:
            flag_ok = bool(dflag) and all(src((bound_args(c, task_force) or {}).get(dflag[0], ast.Constant(None))) == dflag[0] for c in calls)
            uncond = all(loop_unconditional(cfgf, lp, c) for c in calls)
            force_loops.append((lp, whole and flag_ok and uncond))
        if vals:
            value_loops.append((lp, whole and all(loop_unconditional(cfgf, lp, v) for v in vals)))
    if not closure_loops and any(has_opaque(t) for lp in loops for t in at.get(id(lp.iter), [])):
        R.undecided('R07.4', 'Chain.force: closure loop', 'the forced set could not be evaluated symbolically', where=where(cf))
    else:
        R.check(bool(closure_loops), 'R07.4', 'Chain.force: closure loop', key_of('closure-loop', bool(closure_loops)), 'union of dependent_tasks(task, include_self=True) over all tasks',
                'the forced set is not the union of dependent_tasks(task, include_self=True) over every given task', witness=[pretty(t)[:200] for lp in loops for t in at.get(id(lp.iter), [])][:3], where=where(cf))
    if not force_loops:
        R.violation('R07.4', 'Chain.force: force loop', key_of('no-force-loop'), 'no loop calls task.force(...) on the members of the forced set', where=where(cf))
    for lp, ok in force_loops:
        R.check(ok, 'R07.4', 'Chain.force: force loop', key_of('force-loop', ok), 'every member forced with the delete flag',
                'not every member of the closure is forced, or delete_data is not forwarded', where=where(cf, lp))
    if not value_loops:
        R.violation('R07.4', 'Chain.force: recompute loop', key_of('no-recompute-loop'), 'recompute=True does not request the value of the forced tasks', where=where(cf))
    for lp, ok in value_loops:
        R.check(ok, 'R07.4', 'Chain.force: recompute loop', key_of('recompute-loop', ok), 'every member recomputed', 'recompute does not cover every member of the closure', where=where(cf, lp))
    mc = A.func('MultiChain.force')
    from .c13 import multichain_force_fanout
    ok, why = multichain_force_fanout(A)
    R.check(ok, 'R07.4', 'MultiChain.force', key_of('fanout', why), 'fan-out over all chains with the flags', f'MultiChain.force does not reach every chain with the flags ({why})', where=where(mc))

    # ---- R07.4b the closure does not depend on the state of the tasks
    R.rule('R07.4b', 'which tasks Chain.force marks depends on the graph only, never on task state (forced flag, stored data)', floor=1)
    cg = A.cg
    state_attrs = {'is_forced', '_forced', 'has_data', '_data', 'data_path'}
    chain_ci = A.cls('Chain')
    reach = cg.reachable(A.ctxs(cf), edge_filter=lambda e: e.target.kind == 'func' and e.target.func.cls is not None and e.target.func.cls.is_subclass_of(chain_ci))
    bad = []
    for ctx in reach:
        g = ctx.func
        if g.cls is None or not g.cls.is_subclass_of(chain_ci):
            continue
        for node in A.typer.own_nodes(g):
            if isinstance(node, (ast.If, ast.While, ast.IfExp, ast.comprehension)):
                tests = [node.test] if not isinstance(node, ast.comprehension) else list(node.ifs)
                for t in tests:
                    for x in ast.walk(t):
                        if isinstance(x, ast.Attribute) and x.attr in state_attrs:
                            bad.append((g, node, src(t)))
    seen = set()
    for g, node, t in bad:
        if (g.short, t) in seen:
            continue
        seen.add((g.short, t))
        R.violation('R07.4b', f'{g.short}: `{t[:60]}`', key_of('state-dependent-closure', g.short, t), f'the set of tasks to force is pruned by task state (`{t}`): tasks downstream of an already forced / computed task are not marked', where=where(g, node))
    if not bad:
        R.ok('R07.4b', 'Chain.force call tree', f'{len(reach)} context(s): no condition reads task state', where=where(cf))

    # ---- R07.6 the forced flag is never cleared before the recomputation has succeeded
    R.rule('R07.6', 'the forced flag is cleared (if at all) only after the result of the forced run was processed successfully', floor=1)
    resets = []
    for c in task.all_subclasses():
        for name, f in c.methods.items():
            if name in ('__init__',):
                continue
            for node in A.typer.own_nodes(f):
                if isinstance(node, (ast.Assign, ast.AugAssign)) and any(src(t) == 'self._forced' for t in (node.targets if isinstance(node, ast.Assign) else [node.target])) \
                        and not (isinstance(node.value, ast.Constant) and node.value.value is True):
                    resets.append((f, node))
    for f, node in resets:
        ok = False
        if f.name == 'data':
            cfg2 = A.cfg(f)
            procs = [n.id for c2 in A.typer.own_nodes(f) if isinstance(c2, ast.Call) and isinstance(c2.func, ast.Attribute) and c2.func.attr == '_process_run_result' for n in cfg_nodes_for(cfg2, c2)]
            ok = bool(procs) and all(any(cfg2.dominates(p, cn.id) for p in procs) and cn.id not in cfg2.in_handler for cn in cfg_nodes_for(cfg2, node))
        R.check(ok, 'R07.6', f'{f.short}: `{src(node)}`', key_of('forced-cleared', f.short, src(node)), 'cleared after the forced result was stored',
                f'`{src(node)}` in {f.short} clears the forced flag before the recomputation succeeded: if run fails, the retry loads the stale stored result instead of running', where=where(f, node))
    if not resets:
        R.ok('R07.6', 'Task', 'the forced flag is never cleared', where=where(fforce))

    # ---- R07.5
    E = effects_of(A)
    classes = persistent_data_classes(A)
    R.rule('R07.5', 'delete() of every data class removes its visible path and nothing but its own work directory', floor=9)
    for ci, vis in classes:
        f = ci.lookup('delete')
        evs = E.collect(Ctx(f, ('inst', ci)), kinds=FS_MUTATING)
        tmp = A.sym.func_term(ci.lookup('tmp_path'), ('inst', ci)) if ci.lookup('tmp_path') is not None else None
        hits = [e for e in evs if e.kind == 'FS_DELETE' and classify(e.target, vis) == 'visible']
        other = [e for e in evs if e not in hits and not (e.kind == 'FS_DELETE' and tmp is not None and same_path(e.target, tmp))]
        R.check(bool(hits) and not other, 'R07.5', f'{ci.short}.delete', key_of('delete', ci.short, [e.kind for e in other], bool(hits)), f'deletes {pretty(vis[0])}',
                'delete() does not remove the visible path' if not hits else f'delete() also touches {[e.describe() for e in other]}', witness=[e.describe() for e in evs], where=where(f))

    # ---- R07.7 a recomputed result replaces the stored one as a whole
    R.rule('R07.7', 'publishing a result replaces what was stored under that location entirely: the only effects on the visible path are its removal and the rename of the new result into place', floor=9)
    for ci, vis in classes:
        n_ev = 0
        bad = []
        renames = []
        for mname in ('save', 'finished', 'set_value'):
            f = ci.lookup(mname)
            if f is None:
                continue
            for e in E.collect(Ctx(f, ('inst', ci)), kinds=FS_MUTATING):
                cl = classify(e.target, vis)
                if cl not in ('visible', 'inside'):
                    continue
                n_ev += 1
                if e.kind == 'FS_RENAME' and cl == 'visible':
                    renames.append(e)
                elif e.kind != 'FS_DELETE':
                    bad.append((mname, e))
        where_f = where(ci.lookup('save') or ci.lookup('finished') or ci.lookup('set_value'))
        if bad:
            mname, e = bad[0]
            R.violation('R07.7', f'{ci.short}.{mname}', key_of('merge-into-stored', ci.short, e.kind), f'{e.kind} into the already stored result `{pretty(e.target)[:80]}`: the forced recomputation is merged into the old result instead of replacing it (files the new run does not produce survive)',
                        witness=[e.describe()[:300]], where=where_f)
        else:
            R.ok('R07.7', ci.short, f'{len(renames)} publishing rename(s); no other write reaches the visible path', where=where_f)
    from .c05 import check_move_replaces
    check_move_replaces(A, R, 'R07.7', classes)

