"""C05 - a result is visible only when complete.

R05.1 atomic publish per data class (effect summaries with symbolic path targets);  R05.2 failure path of Task.data
(must-pass-through on exception edges);  R05.3 type check dominates save;  R05.4 work directories set aside / kept.
R05.9 the failure handler also covers a run aborted by a BaseException;  R05.10 a temporary file is closed before it is published.
"""
from __future__ import annotations

import ast

import networkx as nx

from ..effects import FS_MUTATING, is_under, provably_distinct, same_path
from ..model import AnalysisError, ClassInfo, src
from ..report import Report, key_of
from ..terms import has_opaque, pretty
from ..types import Ctx
from .common import TRUSTED_BASE, cfg_nodes_for, effects_of, inl, src_resolved, where


def is_concrete(ci: ClassInfo) -> bool:
    names = set()
    for c in ci.in_pkg_mro():
        names |= set(c.methods)
    for n in names:
        f = ci.lookup(n)
        if f is not None and f.is_abstract:
            return False
    return True


def visible_paths(A, ci: ClassInfo):
    """Path terms tested by ci.exists(); None when exists() is constant."""
    E = effects_of(A)
    f = ci.lookup('exists')
    if f is None:
        return None
    rets = [n for n in A.typer.own_nodes(f) if isinstance(n, ast.Return)]
    if rets and all(isinstance(r.value, ast.Constant) for r in rets):
        return None
    ev = E.collect(Ctx(f, ('inst', ci)), kinds={'FS_READ'})
    return [e.target for e in ev if e.target is not None]


def persistent_data_classes(A):
    data = A.cls('Data')
    out = []
    for c in data.all_subclasses():
        if not is_concrete(c):
            continue
        vis = visible_paths(A, c)
        if vis is None:
            continue
        out.append((c, vis))
    return out


def classify(target, visible):
    """'visible' | 'inside' | 'elsewhere' | 'unknown' for a path term w.r.t. the visible path terms."""
    if target is None or has_opaque(target):
        return 'unknown'
    res = set()
    for v in visible:
        if same_path(target, v):
            res.add('visible')
        elif is_under(target, v):
            res.add('inside')
        elif provably_distinct(target, v):
            res.add('elsewhere')
        else:
            res.add('unknown')
    if 'visible' in res:
        return 'visible'
    if 'inside' in res:
        return 'inside'
    if res == {'elsewhere'}:
        return 'elsewhere'
    return 'unknown'


def check_move_replaces(A, R: Report, rid: str, classes):
    """shutil.move onto an existing directory moves the source INTO it: every publishing shutil.move onto the visible path
    must be preceded (in the same function) by the removal of that path."""
    E = effects_of(A)
    n = 0
    filedata = A.cls('FileData')
    for ci, vis in classes:
        if ci.is_subclass_of(filedata):
            continue   # a single file: rename / move onto an existing file replaces it
        for mname in ('save', 'finished', 'set_value'):
            f = ci.lookup(mname)
            if f is None:
                continue
            evs = E.collect(Ctx(f, ('inst', ci)), kinds=FS_MUTATING)
            moves = [e for e in evs if e.kind == 'FS_RENAME' and classify(e.target, vis) == 'visible' and src(e.site).startswith('shutil.move')]
            dels = [e for e in evs if e.kind == 'FS_DELETE' and classify(e.target, vis) == 'visible']
            cfg = A.cfg(f)
            for m in moves:
                n += 1
                mn = [c.id for c in cfg_nodes_for(cfg, m.root_node)]
                before = any(cfg.path_exists([c.id for c in cfg_nodes_for(cfg, d.root_node)], mn) for d in dels) if mn else False
                same_site = any(d.root_node is m.root_node for d in dels)   # delete and move inside one helper call
                R.check(before or same_site, rid, f'{ci.short}.{mname}: `{src(m.site)[:50]}`', key_of('move-onto-existing', ci.short, mname, before or same_site), 'the visible directory is removed before the new one is moved into place',
                        f'`{src(m.site)[:60]}` moves the new result onto `{pretty(m.target)[:60]}` without removing an existing directory first: on a forced recomputation the new directory lands INSIDE the old result, which stays as it was',
                        witness=[e.describe()[:200] for e in moves + dels], where=where(f, m.root_node))
    return n


def check_atomic_publish(A, R: Report, rid: str, classes):
    E = effects_of(A)
    for ci, vis in classes:
        publishes = 0
        problems = 0
        for mname in ('save', 'finished', 'set_value'):
            f = ci.lookup(mname)
            if f is None:
                continue
            ctx = Ctx(f, ('inst', ci))
            evs = E.collect(ctx, kinds=FS_MUTATING)
            renames = [e for e in evs if e.kind == 'FS_RENAME' and classify(e.target, vis) == 'visible']
            for e in evs:
                cl = classify(e.target, vis)
                construct = f'{ci.short}.{mname}'
                if e.kind == 'FS_RENAME':
                    if cl == 'visible':
                        scl = classify(e.source, vis)
                        if scl == 'elsewhere':
                            publishes += 1
                            R.ok(rid, construct, 'publishes by rename from a distinct temporary', witness=[e.describe()], where=where(f, e.root_node))
                        elif scl == 'unknown':
                            R.undecided(rid, construct, f'rename into the visible path from a source not provably distinct: {e.describe()}', where=where(f, e.root_node))
                        else:
                            problems += 1
                            R.violation(rid, construct, key_of(e.kind, pretty(e.target), pretty(e.source)), 'rename into the visible path from itself / from inside it', witness=[e.describe()], where=where(f, e.root_node))
                    elif cl == 'inside':
                        problems += 1
                        R.violation(rid, construct, key_of(e.kind, pretty(e.target)), 'moves a file into the already visible result directory (visible while incomplete)', witness=[e.describe()], where=where(f, e.root_node))
                    elif cl == 'unknown':
                        R.undecided(rid, construct, f'rename target not comparable with the visible path: {e.describe()}', where=where(f, e.root_node))
                    continue
                if e.kind == 'FS_DELETE':
                    continue  # removing a (stale) result never makes an incomplete one visible
                if cl in ('visible', 'inside'):
                    problems += 1
                    R.violation(rid, construct, key_of(e.kind, pretty(e.target)),
                                f'{e.kind} directly on the visible path `{pretty(e.target)}`: the result is visible (exists() true) before it is complete',
                                witness=[e.describe()], where=where(f, e.root_node))
                elif cl == 'unknown':
                    R.undecided(rid, construct, f'{e.kind} on a path not comparable with the visible path: {e.describe()}', where=where(f, e.root_node))
                else:
                    # a write to a temporary: must not be reachable after the publishing rename in the root function
                    cfg = A.cfg(f)
                    late = False
                    for r in renames:
                        if same_path(r.source, e.target) or is_under(e.target, r.source):
                            rn = [n.id for n in cfg_nodes_for(cfg, r.root_node)]
                            wn = [n.id for n in cfg_nodes_for(cfg, e.root_node)]
                            if rn and wn and cfg.path_exists(rn, wn):
                                late = True
                    if late:
                        problems += 1
                        R.violation(rid, construct, key_of('late-write', pretty(e.target)), 'a write to the temporary can follow the publishing rename', witness=[e.describe()], where=where(f, e.root_node))
                    else:
                        R.ok(rid, construct, f'{e.kind} on a temporary, before the publish', witness=[e.describe()], where=where(f, e.root_node))
        if publishes == 0 and problems == 0:
            R.violation(rid, ci.short, key_of('no-publish', ci.short), f'{ci.short}: exists() tests `{", ".join(pretty(v) for v in vis)}` but neither save() nor finished() publishes by rename', where=where(ci.lookup('save')))


def run(A, R: Report, thorough: bool):
    R.explanation = ('Effect summaries (file-system primitives with symbolic path targets, receiver-specialised, interprocedural) of save()/finished() of every concrete '
                     'data class, compared with the path its exists() tests; CFG must-pass-through over exception edges in Task.data; gate dominance in _process_run_result. '
                     'Holds at every crash point because there is no program point at which the visible path exists and is incomplete. Not decided: torn writes inside serialisers, fsync.')
    R.trusted = TRUSTED_BASE + ['POSIX rename atomicity for os.replace and same-directory shutil.move']
    R.assumptions = ['power-loss durability out of scope', 'third-party writers named in effects.py write only to the path they are given']

    E5 = effects_of(A)
    classes = persistent_data_classes(A)
    R.require(len(classes) >= 9, f'expected >= 9 concrete persistent data classes, found {len(classes)}')
    R.rule('R05.1', 'the visible path is created only by a rename from a distinct temporary that follows every write to it', floor=9)
    check_atomic_publish(A, R, 'R05.1', classes)

    # ---- R05.5 leftovers of an earlier failed attempt never block a new attempt
    R.rule('R05.5', 'no assertion on the save / init path can fail because a temporary or final path already exists', floor=1)
    from ..terms import dag_nodes
    n_assert = 0
    for ci, vis in classes:
        tmp = A.sym.func_term(ci.lookup('tmp_path'), ('inst', ci)) if ci.lookup('tmp_path') is not None else None
        for mname in ('save', 'init_persistence', 'finished'):
            f = ci.lookup(mname)
            if f is None:
                continue
            for e in E5.collect(Ctx(f, ('inst', ci)), kinds={'ASSERT'}):
                n_assert += 1
                cond = e.target
                if cond == ('lit', True):
                    continue
                hits = [x for x in dag_nodes(cond) if x[0] == 'method' and x[2] in ('exists', 'is_file', 'is_dir') and (any(same_path(x[1], v) for v in vis) or (tmp is not None and same_path(x[1], tmp)))]
                if hits:
                    R.violation('R05.5', f'{ci.short}.{mname}', key_of('stale-blocks', ci.short, pretty(cond)[:120]),
                                f'`{src(e.site)}` (reached from {ci.short}.{mname}) fails when `{pretty(hits[0][1])}` is left over from an interrupted attempt: every later request raises instead of recomputing',
                                witness=[e.describe()[:300]], where=where(e.ctx.func, e.site))
    R.ok('R05.5', 'data classes', f'{n_assert} assertion(s) on save/init paths cannot be tripped by leftovers', where='src/taskchain/data.py')

    # ---- R05.2
    task = A.cls('Task')
    fdata = task.lookup('data')
    cfg = A.cfg(fdata)
    R.rule('R05.2', 'every exceptional path from run / result processing reaches on_run_error(), the reset of the data object and a re-raise', floor=2)
    protected = []
    for n in inl(A, fdata):
        if isinstance(n, ast.Call) and isinstance(n.func, ast.Attribute) and isinstance(n.func.value, ast.Name) and n.func.value.id == 'self' \
                and n.func.attr in ('run', '_process_run_result'):
            protected.append(n)
    R.require(len(protected) >= 2, 'anchor: self.run(...) / self._process_run_result(...) not found in Task.data')
    on_err = [n.id for n in cfg.nodes.values() if n.kind == 'stmt' and n.ast is not None and any(
        isinstance(c, ast.Call) and isinstance(c.func, ast.Attribute) and c.func.attr == 'on_run_error' for c in ast.walk(n.ast))]
    resets = [n.id for n in cfg.nodes.values() if n.kind == 'stmt' and isinstance(n.ast, ast.Assign) and any(src(t) == 'self._data' for t in n.ast.targets)
              and isinstance(n.ast.value, ast.Constant) and n.ast.value.value is None]
    falsy = []
    for n in cfg.nodes.values():
        if n.kind == 'edge':
            t_ = src_resolved(A, fdata, n.ast)
            if (t_ == 'self._data' and n.label == 'F') or (t_ == 'self._data is None' and n.label == 'T') or (t_ == 'self._data is not None' and n.label == 'F'):
                falsy.append(n.id)
    for call in protected:
        for cn in cfg_nodes_for(cfg, call):
            exc_succ = cfg.succ_by_label(cn.id, 'exc')
            name = f'Task.data: `{src(call)[:50]}`'
            if not exc_succ:
                R.violation('R05.2', name, key_of('no-exc-edge'), 'statement has no exception edge', where=where(fdata, call))
                continue
            swallow = cfg.find_path(exc_succ, [cfg.exit.id])
            # failures raised by the cleanup code inside the handler itself are out of scope
            p1 = cfg.find_path(exc_succ, [cfg.raise_exit.id], avoid=on_err + falsy, no_exc_from=cfg.in_handler)
            p2 = cfg.find_path(exc_succ, [cfg.raise_exit.id], avoid=resets + falsy, no_exc_from=cfg.in_handler)
            if swallow is not None:
                R.violation('R05.2', name, key_of('swallow', src(call)), 'an exception raised here can end in a normal return (the failure is swallowed)', witness=cfg.describe_path(swallow), where=where(fdata, call))
            elif p1 is not None:
                R.violation('R05.2', name, key_of('no-on_run_error', src(call)), 'an exceptional path leaves Task.data without calling on_run_error() although a data object exists', witness=cfg.describe_path(p1), where=where(fdata, call))
            elif p2 is not None:
                R.violation('R05.2', name, key_of('no-reset', src(call)), 'an exceptional path leaves Task.data without resetting self._data (a later request would return the failed object)', witness=cfg.describe_path(p2), where=where(fdata, call))
            else:
                R.ok('R05.2', name, 'all exceptional paths pass on_run_error(), reset self._data and re-raise', where=where(fdata, call))

    # ---- R05.9 the failure handler also sees aborts that are not `Exception`s
    R.rule('R05.9', 'the handler that resets the data object after a failed run catches BaseException: a run aborted by KeyboardInterrupt / SystemExit must not leave the empty data object on the task', floor=1)
    run_calls = [c for c in protected if c.func.attr == 'run']
    tries = [t for t in inl(A, fdata) if isinstance(t, ast.Try) and any(x is c for c in run_calls for st in t.body for x in ast.walk(st))]
    reset_handlers = []
    in_finally = False
    for t in tries:
        for h in t.handlers:
            if any(isinstance(x, ast.Assign) and any(src(tg) == 'self._data' for tg in x.targets) and isinstance(x.value, ast.Constant) and x.value.value is None for st in h.body for x in ast.walk(st)):
                reset_handlers.append(h)
        if any(isinstance(x, ast.Assign) and any(src(tg) == 'self._data' for tg in x.targets) and isinstance(x.value, ast.Constant) and x.value.value is None for st in t.finalbody for x in ast.walk(st)):
            in_finally = True
    if not reset_handlers and not in_finally:
        R.undecided('R05.9', 'Task.data: failure handler', 'no handler around run() resets self._data (see R05.2)', where=where(fdata))
    else:
        def catches_all(h):
            ts = [h.type] if not isinstance(h.type, ast.Tuple) else list(h.type.elts)
            return h.type is None or any(src(t_) == 'BaseException' for t_ in ts)
        ok9 = in_finally or any(catches_all(h) for h in reset_handlers)
        kinds = sorted({src(h.type) if h.type is not None else 'bare' for h in reset_handlers})
        R.check(ok9, 'R05.9', 'Task.data: failure handler', key_of('handler-kind', kinds, in_finally), f'reset under `except {", ".join(kinds) or "finally"}`',
                f'the data object is reset only under `except {", ".join(kinds)}`: when run() is aborted by KeyboardInterrupt or SystemExit (an interrupted notebook cell), the task keeps an empty data object and every later '
                'request of its value raises `ValueError: Value ... is not set` instead of recomputing (requesting the value again does not recover)', where=where(fdata, reset_handlers[0]) if reset_handlers else where(fdata))

    # ---- R05.3
    fpr = task.lookup('_process_run_result')
    cfg = A.cfg(fpr)
    R.rule('R05.3', 'every path to save() in _process_run_result passes an accepting type test (or the InMemoryData escape)', floor=1)
    saves = [n for n in inl(A, fpr) if isinstance(n, ast.Call) and isinstance(n.func, ast.Attribute) and n.func.attr == 'save']
    R.require(saves, 'anchor: no save() call in Task._process_run_result')
    result_param = [p for p in fpr.params if p != 'self']
    R.require(result_param, 'anchor: _process_run_result has no result parameter')
    rp = result_param[0]

    def accepting(n) -> bool:
        if n.kind != 'edge' or n.label != 'T':
            return False
        a = n.ast
        if isinstance(a, ast.Call) and src(a.func) in ('isinstance', 'custom_isinstance') and a.args and src(a.args[0]) == rp:
            return True
        if isinstance(a, ast.Compare) and 'typing.Generator' in src(a) and 'data_type' in src_resolved(A, fpr, a):
            return True
        if isinstance(a, ast.Call) and src(a.func) == 'issubclass' and len(a.args) == 2 and 'InMemoryData' in src(a.args[1]) and 'data_class' in src_resolved(A, fpr, a.args[0]):
            return True
        return False

    gates = [n.id for n in cfg.nodes.values() if accepting(n)]
    for s in saves:
        for sn in cfg_nodes_for(cfg, s):
            p = cfg.find_path([cfg.entry.id], [sn.id], avoid=gates)
            R.check(p is None, 'R05.3', 'Task._process_run_result: save()', key_of('unchecked-save'), f'{len(gates)} accepting gates cut every path to save()',
                    'a path reaches save() without passing any type test of the run result', witness=cfg.describe_path(p) if p else None, where=where(fpr, s))

    # ---- R05.4
    E = effects_of(A)
    R.rule('R05.4', 'failed work directories are renamed aside (not deleted); resumable work directories are never deleted on init and are published by rename', floor=3)
    dird = A.cls('DirData')
    cont = A.cls('ContinuesData')
    for ci in dird.all_subclasses():
        f = ci.lookup('on_run_error')
        tmp = A.sym.func_term(ci.lookup('tmp_path'), ('inst', ci)) if ci.lookup('tmp_path') else None
        R.require(tmp is not None, f'anchor: {ci.short}.tmp_path missing')
        evs = E.collect(Ctx(f, ('inst', ci)), kinds=FS_MUTATING)
        moved = [e for e in evs if e.kind == 'FS_RENAME' and e.source is not None and same_path(e.source, tmp) and provably_distinct(e.target, tmp)]
        deleted = [e for e in evs if e.kind == 'FS_DELETE' and e.target is not None and (same_path(e.target, tmp) or is_under(e.target, tmp))]
        R.check(bool(moved) and not deleted, 'R05.4', f'{ci.short}.on_run_error', key_of('dir-on-error', bool(moved), bool(deleted)),
                'work directory renamed to the error path', 'failed work directory is not set aside (no rename of tmp_path) or is deleted',
                witness=[e.describe() for e in evs], where=where(f))
    for ci in cont.all_subclasses():
        tmp = A.sym.func_term(ci.lookup('tmp_path'), ('inst', ci))
        for mname in ('init_persistence', 'on_run_error'):
            f = ci.lookup(mname)
            evs = E.collect(Ctx(f, ('inst', ci)), kinds=FS_MUTATING)
            bad = [e for e in evs if e.kind in ('FS_DELETE', 'FS_RENAME') and ((e.kind == 'FS_DELETE' and e.target is not None and (same_path(e.target, tmp) or is_under(e.target, tmp) or has_opaque(e.target)))
                                                                              or (e.kind == 'FS_RENAME' and e.source is not None and same_path(e.source, tmp)))]
            R.check(not bad, 'R05.4', f'{ci.short}.{mname}', key_of('resumable', mname, [e.kind for e in bad]), 'resumable work directory kept',
                    'the resumable work directory is deleted or moved away', witness=[e.describe() for e in bad], where=where(f))

    # ---- R05.6 every attempt starts from an empty temporary
    R.rule('R05.6', 'a new attempt never builds on leftovers of an earlier one: work directories are wiped before use, temporary files are opened truncating (never appended to)', floor=3)
    for ci in dird.all_subclasses():
        if ci in cont.all_subclasses():
            continue   # resumable by design (R05.4)
        f = ci.lookup('init_persistence')
        tmp = A.sym.func_term(ci.lookup('tmp_path'), ('inst', ci))
        evs = E.collect(Ctx(f, ('inst', ci)), kinds=FS_MUTATING)
        mk = [e for e in evs if e.kind == 'FS_MKDIR' and e.target is not None and same_path(e.target, tmp)]
        dl = [e for e in evs if e.kind == 'FS_DELETE' and e.target is not None and same_path(e.target, tmp)]
        if not mk:
            R.undecided('R05.6', f'{ci.short}.init_persistence', 'creation of the work directory not recognised', where=where(f))
            continue
        cfg6 = A.cfg(f)
        ordered = bool(dl) and all(any(cfg6.path_exists([a.id for a in cfg_nodes_for(cfg6, d.root_node)], [b.id for b in cfg_nodes_for(cfg6, m.root_node)]) for d in dl) for m in mk)
        R.check(ordered, 'R05.6', f'{ci.short}.init_persistence', key_of('fresh-workdir', bool(dl), ordered), 'an existing work directory is removed before it is created anew',
                'the work directory of an earlier, killed attempt is reused as it is: files the new run does not overwrite are published with the new result',
                witness=[e.describe() for e in mk + dl], where=where(f))
    # the same for every other data class that builds its result in a temporary directory while saving
    for ci, _ in persistent_data_classes(A):
        if ci in dird.all_subclasses() or ci.lookup('tmp_path') is None or ci.lookup('save') is None:
            continue
        f = ci.lookup('save')
        tmp = A.sym.func_term(ci.lookup('tmp_path'), ('inst', ci))
        evs = E.collect(Ctx(f, ('inst', ci)), kinds=FS_MUTATING)
        mk = [e for e in evs if e.kind == 'FS_MKDIR' and e.target is not None and same_path(e.target, tmp)]
        if not mk:
            continue
        dl = [e for e in evs if e.kind == 'FS_DELETE' and e.target is not None and same_path(e.target, tmp)]
        cfg6 = A.cfg(f)
        ordered = bool(dl) and all(any(cfg6.path_exists([a.id for a in cfg_nodes_for(cfg6, d.root_node)], [b.id for b in cfg_nodes_for(cfg6, m.root_node)]) for d in dl) for m in mk)
        R.check(ordered, 'R05.6', f'{ci.short}.save', key_of('fresh-workdir', bool(dl), ordered), 'an existing temporary directory is removed before it is created anew',
                'the temporary directory of an earlier, aborted save is reused as it is: files the new save does not overwrite (the tail of a longer list) are published with the new result',
                witness=[e.describe() for e in mk + dl], where=where(f))
    n_w = 0
    writers = [(ci, m) for ci, _ in persistent_data_classes(A) for m in ('save', 'set_value', 'finished')] + [(None, 'write_jsons')]
    for ci, mname in writers:
        f = ci.lookup(mname) if ci is not None else A.func(mname)
        if f is None:
            continue
        for e in E.collect(Ctx(f, ('inst', ci) if ci is not None else None), kinds=('FS_WRITE',)):
            if 'mode=' not in e.detail:
                continue
            mode = e.detail.split('mode=')[1].strip()
            n_w += 1
            construct = f'{ci.short + "." if ci is not None else ""}{mname}: `{src(e.site)[:50]}`'
            if mode in ('None',):
                R.undecided('R05.6', construct, 'open mode is not a literal', where=where(f, e.root_node))
            else:
                R.check('a' not in mode and 'x' not in mode and '+' not in mode.replace('w+', ''), 'R05.6', construct, key_of('open-mode', construct.split(':')[0], mode), f'opened with mode {mode} (truncates)',
                        f'the file is opened with mode `{mode}`: the partial file of an earlier failed attempt is extended (or blocks the new attempt) and the mixture is published', where=where(f, e.root_node))
    R.require(n_w >= 2, f'anchor: expected several file-opening writers on the save paths, found {n_w}')

    # ---- R05.10 a temporary file is complete (closed) when it is published
    R.rule('R05.10', 'a temporary file is published only after the handle that wrote it was closed: no publish / rename inside the `with ... open(...)` block that writes it', floor=2)
    n10 = 0
    for ci, _ in persistent_data_classes(A):
        f = ci.lookup('save')
        if f is None:
            continue
        for n, o in A.nodes(f):
            if not isinstance(n, ast.Call):
                continue
            fn_ = src(n.func)
            is_pub = fn_ in ('self._publish', 'os.replace', 'os.rename', 'shutil.move') or fn_.endswith('.replace') and 'tmp' in fn_ or fn_.endswith('.rename') and 'tmp' in fn_
            if not is_pub or (fn_ != 'self._publish' and not any('tmp' in src(a_) for a_ in n.args) and 'tmp' not in fn_):
                continue
            if o is not f and o.name == '_publish':
                continue   # the rename inside _publish itself: judged at the call of _publish
            n10 += 1
            open_withs = [p_ for p_ in _parents10(n) if isinstance(p_, (ast.With, ast.AsyncWith)) and any(
                isinstance(x, ast.Call) and (src(x.func) == 'open' or (isinstance(x.func, ast.Attribute) and x.func.attr == 'open')) for it_ in p_.items for x in ast.walk(it_.context_expr))]
            R.check(not open_withs, 'R05.10', f'{ci.short}.save: `{src(n)[:40]}`', key_of('publish-open-file', ci.short, bool(open_withs)), 'published after the writing handle is closed',
                    'the temporary file is renamed to its final name while the handle that writes it is still open: buffered data reach the file only when the block ends, so for an instant (and for good, if the '
                    'process dies there) the visible result is an empty or truncated file', where=where(o, n))
    R.require(n10 >= 2, f'anchor: expected publish calls on the save paths of the file data classes, found {n10}')

    # ---- R05.7 the directory a run writes into is never the visible one
    R.rule('R05.7', 'the work directory that init_persistence hands to run() (`_dir`) is the temporary path on every path - never the published directory', floor=2)
    datac7 = A.cls('Data')
    n7 = 0
    for ci_ in datac7.all_subclasses(include_self=False):
        ip = ci_.methods.get('init_persistence')
        if ip is None:
            continue
        stores = [n_ for n_ in A.typer.own_nodes(ip) if isinstance(n_, ast.Assign) and any(src(t_) == 'self._dir' for t_ in n_.targets)]
        if not stores:
            continue
        probe = ast.parse('self.tmp_path', mode='eval').body
        for st_ in stores:
            n7 += 1
            got = A.sym.terms_at(ip, ('inst', ci_), [st_.value]).get(id(st_.value), [])
            want = A.sym.expr_term(probe, Ctx(ip, ('inst', ci_)))
            from ..terms import normalise as _norm
            ok7 = bool(got) and all(_norm(t_) == _norm(want) for t_ in got)
            R.check(ok7, 'R05.7', f'{ci_.short}.init_persistence: `{src(st_)[:50]}`', key_of('work-dir', ci_.short, [pretty(t_)[:80] for t_ in got]), 'work directory = temporary path',
                    f'the work directory is `{pretty(got[0])[:120] if got else "?"}`: a (forced) run then writes into the published directory itself - a reader sees a half-written result, and a failed run destroys the stored one',
                    where=where(ip, st_))
    R.require(n7 >= 2, 'anchor: no `self._dir = ...` store found in the init_persistence of directory data classes')



def _parents10(n):
    p = getattr(n, '_parent', None)
    while p is not None and not isinstance(p, (ast.FunctionDef, ast.AsyncFunctionDef)):
        yield p
        p = getattr(p, '_parent', None)
