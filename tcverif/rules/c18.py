"""C18 - run records describe the run that produced the stored result.

R18.1 the run-scoped log handler acquired in Task.data is removed on every exit (normal and exceptional);
R18.2 run info initialised before run, finished only after the result was processed (saved) normally;
R18.3 the log file handler truncates and targets the log path;  R18.4 record fields present, parameters unfiltered.
R18.1 also: a removal in a finally / catch-all handler around run() (abort by BaseException);  R18.2 also: the store of the value lies on every path to _finish_run_info.
"""
from __future__ import annotations

import ast

import networkx as nx

from ..model import src
from ..report import Report, key_of
from ..types import Ctx
from ..terms import dag_nodes, pretty
from .common import TRUSTED_BASE, cfg_nodes_for, inl, normal_succ, owner_of, where, src_resolved


def run(A, R: Report, thorough: bool):
    R.explanation = ('CFG pairing rule (acquire/release on every path incl. exception edges) for the run-scoped log handler in Task.data; dominance for run-info '
                     'initialisation/finish; structural inspection of the handler construction and of the record built by _init_run_info. '
                     'Not decided: message contents over histories.')
    R.trusted = TRUSTED_BASE + ['logging.FileHandler(path, mode="w") truncates the file']
    task = A.cls('Task')
    fdata = task.lookup('data')
    cfg = A.cfg(fdata)

    # ---- R18.1
    R.rule('R18.1', 'a log handler acquired in Task.data and attached with addHandler is detached with removeHandler on every path to any exit', floor=1)
    adds = [n for n in inl(A, fdata) if isinstance(n, ast.Call) and isinstance(n.func, ast.Attribute) and n.func.attr == 'addHandler' and n.args]
    local_adds = []
    for a in adds:
        arg = a.args[0]
        if isinstance(arg, ast.Name):
            defs = A.sym._local_defs(owner_of(A, fdata, a)).get(arg.id, [])
            if any(k == 'assign' and isinstance(v, ast.Call) for k, v in defs):
                local_adds.append((a, arg.id))
        elif isinstance(arg, ast.Call):
            local_adds.append((a, None))
    if not local_adds:
        # the pairing may live in a context manager of the task (`with self._logging_to_data():`): what follows the yield runs on a normal
        # exit of the with-body only - the detach has to sit in a `finally` around the yield
        cms = []
        for w_ in [n for n in inl(A, fdata) if isinstance(n, (ast.With, ast.AsyncWith))]:
            for it_ in w_.items:
                ce = it_.context_expr
                if isinstance(ce, ast.Call) and isinstance(ce.func, ast.Attribute) and src(ce.func.value) == 'self' and ce.func.attr in task.methods:
                    h_ = task.methods[ce.func.attr]
                    if any('contextmanager' in src(d_) for d_ in h_.node.decorator_list) and any(isinstance(x, ast.Call) and isinstance(x.func, ast.Attribute) and x.func.attr == 'addHandler' for x in A.typer.own_nodes(h_)):
                        cms.append(h_)
        for h_ in cms:
            adds_h = [x for x in A.typer.own_nodes(h_) if isinstance(x, ast.Call) and isinstance(x.func, ast.Attribute) and x.func.attr == 'addHandler' and x.args]
            for a in adds_h:
                var = src(a.args[0])
                yields = [y for y in A.typer.own_nodes(h_) if isinstance(y, (ast.Yield, ast.YieldFrom)) and y.lineno > a.lineno]
                protected = True
                for y in yields:
                    ok_y = False
                    p_ = getattr(y, '_parent', None)
                    while p_ is not None and not isinstance(p_, (ast.FunctionDef, ast.AsyncFunctionDef)):
                        if isinstance(p_, ast.Try) and any(isinstance(c, ast.Call) and isinstance(c.func, ast.Attribute) and c.func.attr == 'removeHandler' and c.args and src(c.args[0]) == var
                                                           for st in p_.finalbody for c in ast.walk(st)):
                            ok_y = True
                        p_ = getattr(p_, '_parent', None)
                    protected = protected and ok_y
                R.check(bool(yields) and protected, 'R18.1', f'{h_.short}: `{src(a)}`', key_of('leak-contextmanager', protected), 'detached in a finally around the yield',
                        f'the context manager detaches the handler after its `yield` without try / finally: when the with-body raises (the run fails), the code after the yield never runs and the handler stays on the '
                        'process-global task logger - a retry writes into the same log file through two handlers', where=where(h_, a))
        R.require(cms, 'anchor: Task.data no longer attaches a locally acquired log handler (addHandler), neither directly nor through a context manager of the task')
    for a, var in local_adds:
        name = f'Task.data: `{src(a)}`'
        if var is None:
            R.violation('R18.1', name, key_of('anonymous-handler', src(a)), 'handler attached without keeping a reference: it can never be removed', where=where(fdata, a))
            continue
        # names that hold the handler: the local itself and, when the add sits in an inlined helper that returns it,
        # the caller's local that receives the helper's result
        names = {var}
        own = owner_of(A, fdata, a)
        if own is not fdata and any(isinstance(r, ast.Return) and isinstance(r.value, ast.Name) and r.value.id == var for r in A.typer.own_nodes(own)):
            for n_, o_, sites in A.nodes_with_sites(fdata):
                if n_ is a and sites:
                    par = getattr(sites[-1], '_parent', None)
                    if isinstance(par, ast.Assign) and len(par.targets) == 1 and isinstance(par.targets[0], ast.Name):
                        names.add(par.targets[0].id)
        removes = [n.id for n in cfg.nodes.values() if n.kind == 'stmt' and n.ast is not None and any(
            isinstance(c, ast.Call) and isinstance(c.func, ast.Attribute) and c.func.attr == 'removeHandler' and c.args and src(c.args[0]) in names
            and src(c.func.value) == src(a.func.value) for c in ast.walk(n.ast))]
        # branch outcomes that are infeasible once the name holds the acquired handler
        infeasible = [n.id for n in cfg.nodes.values() if n.kind == 'edge' and any(
            (src(n.ast) == f'{v_} is not None' and n.label == 'F') or (src(n.ast) == f'{v_} is None' and n.label == 'T') or (src(n.ast) == v_ and n.label == 'F') for v_ in names)]
        for an in cfg_nodes_for(cfg, a):
            starts = normal_succ(cfg, an.id)
            reassigned = any(isinstance(cfg.nodes[d].ast, ast.Assign) and any(src(t) == var for t in cfg.nodes[d].ast.targets)
                             for s in starts for d in (nx.descendants(cfg.g, s) | {s}) if cfg.nodes[d].kind == 'stmt' and cfg.nodes[d].ast is not None)
            if reassigned:
                R.undecided('R18.1', name, f'`{var}` is reassigned after addHandler; pairing not tracked', where=where(fdata, a))
                continue
            # the call statement of an inlined helper only passes plain names: what can fail is in the helper's body, which follows in the graph
            quiet = [n.id for n in cfg.nodes.values() if n.kind == 'stmt' and isinstance(n.ast, (ast.Expr, ast.Assign)) and isinstance(n.ast.value, ast.Call)
                     and all(isinstance(x, (ast.Name, ast.Constant)) for x in list(n.ast.value.args) + [k_.value for k_ in n.ast.value.keywords])
                     and (not isinstance(n.ast, ast.Assign) or all(isinstance(t_, ast.Name) for t_ in n.ast.targets))
                     and any(cfg.nodes[v].label == 'inline-entry' for v in normal_succ(cfg, n.id))]
            p = cfg.find_path(starts, [cfg.exit.id, cfg.raise_exit.id], avoid=removes + infeasible, no_exc_from=quiet)
            if p is None:
                R.ok('R18.1', name, f'{len(removes)} removeHandler site(s) cut every path to the exits', where=where(fdata, a))
                # the graph treats `except Exception` as catching everything; an abort of run() by KeyboardInterrupt / SystemExit is only covered by
                # a removal in a `finally` (or bare / BaseException handler) of a try that encloses the run call
                run_calls1 = [n_ for n_ in A.typer.own_nodes(fdata) if isinstance(n_, ast.Call) and src(n_.func) == 'self.run']
                anchors = []
                for n_, o_, sites_ in A.nodes_with_sites(fdata):
                    if isinstance(n_, ast.Call) and isinstance(n_.func, ast.Attribute) and n_.func.attr == 'removeHandler' and n_.args and (src(n_.args[0]) in names or o_ is not fdata):
                        anchors.append(n_ if o_ is fdata else sites_[0])
                covered = False
                for an_ in anchors:
                    child = an_
                    par_ = getattr(an_, '_parent', None)
                    while par_ is not None and not isinstance(par_, (ast.FunctionDef, ast.AsyncFunctionDef)):
                        if isinstance(par_, ast.Try) and any(x is rc for rc in run_calls1 for st_ in par_.body for x in ast.walk(st_)):
                            in_final = any(child is st_ or any(x is child for x in ast.walk(st_)) for st_ in par_.finalbody)
                            in_all = any((h_.type is None or 'BaseException' in src(h_.type)) and any(x is an_ for st_ in h_.body for x in ast.walk(st_)) for h_ in par_.handlers)
                            covered = covered or in_final or in_all
                        child = par_
                        par_ = getattr(par_, '_parent', None)
                if run_calls1:
                    R.check(covered, 'R18.1', name + ' (abort of run)', key_of('leak', 'abort'), 'a finally (or catch-all handler) around run() detaches the handler',
                            'the log handler is detached on the normal path and for `Exception`s only: when run() is aborted by KeyboardInterrupt / SystemExit the FileHandler stays on the process-global task logger, '
                            'and the next run of this task writes through two handlers into the log', where=where(fdata, a))
            else:
                end = cfg.nodes[p[-1]].kind
                R.violation('R18.1', name, key_of('leak', 'exceptional' if end == 'raise' else 'normal'),
                            f'the log handler stays attached on {"an exceptional" if end == "raise" else "a normal"} exit of Task.data: later runs of this task (the logger is process-global by name) write into this run\'s log',
                            witness=cfg.describe_path(p), where=where(fdata, a))

    # ---- R18.2
    R.rule('R18.2', '_init_run_info() dominates run(); _finish_run_info() is dominated by result processing and unreachable from its exception edges', floor=2)

    def self_calls(name):
        return [n for n in inl(A, fdata) if isinstance(n, ast.Call) and isinstance(n.func, ast.Attribute) and n.func.attr == name
                and isinstance(n.func.value, ast.Name) and n.func.value.id == 'self']

    inits, runs, procs, fins = self_calls('_init_run_info'), self_calls('run'), self_calls('_process_run_result'), self_calls('_finish_run_info')
    R.require(inits and runs and procs and fins, 'anchor: _init_run_info / run / _process_run_result / _finish_run_info calls not all found in Task.data')
    init_nodes = [n.id for c in inits for n in cfg_nodes_for(cfg, c)]
    ok = all(any(cfg.dominates(i, rn.id) for i in init_nodes) for c in runs for rn in cfg_nodes_for(cfg, c))
    R.check(ok, 'R18.2', 'Task.data: _init_run_info before run', key_of('init-dominates-run'), 'fresh record before every run', 'run() can start without a fresh run-info record', where=where(fdata, runs[0]))
    proc_nodes = [n.id for c in procs for n in cfg_nodes_for(cfg, c)]
    fin_nodes = [n.id for c in fins for n in cfg_nodes_for(cfg, c)]
    dom = all(any(cfg.dominates(p, f) for p in proc_nodes) for f in fin_nodes)
    exc_starts = [v for p in proc_nodes + [n.id for c in runs for n in cfg_nodes_for(cfg, c)] for v in cfg.succ_by_label(p, 'exc')]
    after_fail = cfg.find_path(exc_starts, fin_nodes) if exc_starts else None
    R.check(dom and after_fail is None, 'R18.2', 'Task.data: _finish_run_info after successful save', key_of('finish', dom, after_fail is None),
            'run info written only after the result was processed normally', 'run info can be written although run/result processing failed, or before the result is saved',
            witness=cfg.describe_path(after_fail) if after_fail else None, where=where(fdata, fins[0]))

    # the record is closed only after the value itself was stored: the store (`self._data.save()`, inlined from _process_run_result) lies on every
    # path to _finish_run_info on which the data object persists, and a failing store cannot reach it
    saves = [n for n in inl(A, fdata) if isinstance(n, ast.Call) and isinstance(n.func, ast.Attribute) and n.func.attr == 'save' and src(n.func.value) == 'self._data']
    if not saves:
        R.undecided('R18.2', 'Task.data: store before the run record', 'the store of the value (`self._data.save()`) was not found on the run path of Task.data', where=where(fdata))
    else:
        save_nodes = [n.id for c in saves for n in cfg_nodes_for(cfg, c)]
        not_persisting = [n.id for n in cfg.nodes.values() if n.kind == 'edge' and src(n.ast).endswith('is_persisting') and n.label == 'F']
        run_nodes = [n.id for c in runs for n in cfg_nodes_for(cfg, c)]
        early = cfg.find_path([v for r_ in run_nodes for v in normal_succ(cfg, r_)], fin_nodes, avoid=save_nodes + not_persisting)
        late_exc = [v for s_ in save_nodes for v in cfg.succ_by_label(s_, 'exc')]
        after_failed_store = cfg.find_path(late_exc, fin_nodes) if late_exc else None
        R.check(early is None and after_failed_store is None, 'R18.2', 'Task.data: store before the run record', key_of('store-first', early is None, after_failed_store is None),
                'the run record is finished only after the value was stored',
                'the run record can be written before the value is stored (or although storing failed): when `save()` raises - an unserialisable value, a full disk - the run info on disk already describes this run, '
                'while the stored result is still the one of an earlier run', witness=cfg.describe_path(early or after_failed_store) if (early or after_failed_store) else None, where=where(fdata, fins[0]))

    # ---- R18.3
    R.rule('R18.3', 'the run log handler is a FileHandler on the log path opened in truncating mode', floor=1)
    data = A.cls('Data')
    n_h = 0
    for ci in data.all_subclasses():
        f = ci.methods.get('get_log_handler')
        if f is None:
            continue
        n_h += 1
        calls = [n for n in A.typer.own_nodes(f) if isinstance(n, ast.Call) and (src(n.func).endswith('FileHandler'))]
        if not calls:
            R.undecided('R18.3', f'{ci.short}.get_log_handler', 'no FileHandler construction recognised', where=where(f))
            continue
        for c in calls:
            mode = None
            for kw in c.keywords:
                if kw.arg == 'mode' and isinstance(kw.value, ast.Constant):
                    mode = kw.value.value
            if len(c.args) > 1 and isinstance(c.args[1], ast.Constant):
                mode = c.args[1].value
            path_arg = c.args[0] if c.args else next((kw.value for kw in c.keywords if kw.arg == 'filename'), None)
            path_ok = path_arg is not None and A.sym.expr_term(path_arg, Ctx(f, ('inst', ci))) == A.sym.func_term(ci.lookup('log_path'), ('inst', ci))
            delayed = any(kw.arg == 'delay' and not (isinstance(kw.value, ast.Constant) and kw.value.value in (False, None, 0)) for kw in c.keywords) or (len(c.args) > 3)
            R.check(not delayed, 'R18.3', f'{ci.short}.get_log_handler: opened at once', key_of('delay', delayed), 'the file is opened (truncated) when the handler is created',
                    'FileHandler(delay=True) opens - and truncates - the file only when the first record is emitted: a run that logs nothing to this handler (raised log level, logging.disable) leaves the previous run\'s log in place next to the new run info',
                    where=where(f, c))
            R.check(mode == 'w' and path_ok, 'R18.3', f'{ci.short}.get_log_handler', key_of('mode', mode, path_ok), "mode='w' on log_path",
                    f'log handler mode is {mode!r} (default is append) or does not target log_path: the log would keep messages of earlier runs', where=where(f, c))
    R.require(n_h >= 1, 'anchor: no get_log_handler implementation found')

    # ---- R18.4
    R.rule('R18.4', 'the run-info record names task, every parameter (value_repr), config, input keys; save_to_run_info appends', floor=2)
    finit = task.lookup('_init_run_info')
    dicts = [n for n in A.typer.own_nodes(finit) if isinstance(n, ast.Assign) and any(src(t) == 'self._run_info' for t in n.targets) and isinstance(n.value, ast.Dict)]
    if not dicts:
        # symbolic value of the record: it must be built afresh on every call; a copy of something kept on the task shares the nested `log` list between runs
        A.sym._field_stores = []
        A.sym.func_term(finit, ('inst', task))
        from ..terms import normalise
        st = [normalise(v) for c, t, v in A.sym._field_stores if t.attr == '_run_info' and isinstance(t.value, ast.Name) and t.value.id == 'self']
        kept = [x for v in st for x in dag_nodes(v) if x[0] == 'attr' and x[1] == ('self',) and x[2] not in ('slugname', 'parameters', 'params', '_config', '__class__')]
        if st and kept:
            R.violation('R18.4', 'Task._init_run_info', key_of('record-from-state', sorted({k[2] for k in kept})), f'the run record is derived from state kept on the task (`self.{kept[0][2]}`): nested parts such as the `log` list are shared '
                        'between runs of the same object, so records of a failed or earlier run reappear in the next run\'s run info', witness=[pretty(st[0])[:200]], where=where(finit))
        else:
            R.undecided('R18.4', 'Task._init_run_info', 'record is not built as a dict literal assigned to self._run_info', where=where(finit))
    else:
        d = dicts[0].value
        keys = {k.value: v for k, v in zip(d.keys, d.values) if isinstance(k, ast.Constant)}
        missing = [k for k in ('task', 'parameters', 'log') if k not in keys]
        problems = list(missing)
        if 'task' in keys and isinstance(keys['task'], ast.Dict):
            tk = {k.value for k in keys['task'].keys if isinstance(k, ast.Constant)}
            problems += [f'task.{k}' for k in ('name', 'class', 'module') if k not in tk]
        if 'parameters' in keys:
            pv = keys['parameters']
            if isinstance(pv, ast.DictComp):
                g = pv.generators[0]
                if g.ifs:
                    problems.append('parameters filtered')
                if not (src(g.iter).startswith('self.parameters.') or src(g.iter).startswith('self.params.')):
                    problems.append('parameters not iterated from the registry')
                if 'value_repr' not in src(pv.value):
                    problems.append('parameters not rendered by value_repr')
            else:
                problems.append('parameters not a comprehension over the registry')
        if 'log' in keys and not (isinstance(keys['log'], ast.List) and not keys['log'].elts):
            problems.append('log not a fresh empty list')
        text = src(finit.node)
        for needle, label in (("'config'", 'config'), ("'namespace'", 'config.namespace'), ("'context'", 'config.context'), ("'input_tasks'", 'input_tasks')):
            if needle not in text:
                problems.append(label)
        it = [n for n in A.typer.own_nodes(finit) if isinstance(n, ast.Assign) and "['input_tasks']" in src(n.targets[0])]
        if it:
            # the recorded input keys are the map that went into this task's own key: full input name -> storage key
            vt = A.sym.terms_at(finit, ('inst', task), [n.value for n in it])
            want = ('attr', ('attr', ('self',), '_config'), 'input_tasks')
            for n in it:
                for t_ in vt.get(id(n.value), []):
                    if t_ == want or (t_[0] == 'call' and t_[1] in ('dict', 'copy.copy', 'copy.deepcopy') and t_[2] == (want,)):
                        continue
                    if t_[0] == 'mapdict' and not any(x[0] == 'attr' and x[2] in ('fullname',) for x in dag_nodes(t_[2])) and t_[2] != t_[1][0]:
                        problems.append('input_tasks re-keyed (not by the full input names): inputs of the same class from different namespaces collapse to one entry')
                    elif 'input_tasks' not in src(n.value):
                        problems.append('input_tasks not the config key map')
        R.check(not problems, 'R18.4', 'Task._init_run_info', key_of('record', sorted(problems)), 'all record fields present', f'run-info record lacks / filters: {sorted(problems)}', where=where(finit))
    fsave = task.lookup('save_to_run_info')
    R.require(fsave is not None, 'anchor: Task.save_to_run_info missing')
    appends = [n for n in A.typer.own_nodes(fsave) if isinstance(n, ast.Call) and isinstance(n.func, ast.Attribute) and n.func.attr == 'append' and "_run_info['log']" in src_resolved(A, fsave, n.func.value)]
    R.check(bool(appends), 'R18.4', 'Task.save_to_run_info', key_of('append'), 'records appended in order', 'save_to_run_info does not append to the run-info log', where=where(fsave))
    if appends:
        cfgs_ = A.cfg(fsave)
        an = [cn.id for a_ in appends for cn in cfg_nodes_for(cfgs_, a_)]
        skip = cfgs_.find_path([cfgs_.entry.id], [cfgs_.exit.id], avoid=an, no_exc_from=list(cfgs_.nodes))
        R.check(skip is None, 'R18.4', 'Task.save_to_run_info: every record', key_of('append-unconditional', skip is None), 'every call appends its record',
                'some records are dropped before they reach the run info (a path returns without appending): falsy records such as 0, {} or an empty statistics dict are missing from the record of the run',
                witness=cfgs_.describe_path(skip) if skip else None, where=where(fsave))
    # the logger a task writes to (and attaches its run handler to) belongs to that task alone: named by the full name
    tinit = task.lookup('__init__')
    gl = [n for n in A.typer.own_nodes(tinit) if isinstance(n, ast.Call) and src(n.func).endswith('getLogger') and n.args]
    for c in gl:
        tt = A.sym.terms_at(tinit, ('inst', task), [c.args[0]]).get(id(c.args[0]), [])
        txt = ' '.join(pretty(t_) for t_ in tt)
        by_full = 'fullname' in txt or 'id(self)' in txt
        R.check(by_full, 'R18.3', 'Task.__init__: logger name', key_of('logger-name', by_full), 'logger named by the task\'s full name (namespace included)',
                f'the task logger is named `{txt[:80]}`: tasks with the same group and name in different namespaces share one logger, so the run handler of one also receives the messages of the other while both run (a task that pulls its input inside run())',
                where=where(tinit, c))


    # ---- R18.6 every data class that keeps a log also gets its run record written
    R.rule('R18.6', 'save_run_info writes the record on every path (the only gate, is_logging, is applied by the caller)', floor=1)
    for ci in A.cls('Data').all_subclasses():
        fsr = ci.methods.get('save_run_info')
        if fsr is None:
            continue
        cfg6 = A.cfg(fsr)
        writes = [n for n in inl(A, fsr) if isinstance(n, ast.Call) and (src(n.func).endswith('dump') or (isinstance(n.func, ast.Attribute) and n.func.attr in ('write', 'write_text')))]
        if not writes:
            R.undecided('R18.6', f'{ci.short}.save_run_info', 'how the record is written is not recognised', where=where(fsr))
            continue
        wn = [cn.id for w in writes for cn in cfg_nodes_for(cfg6, w)]
        skip = cfg6.find_path([cfg6.entry.id], [cfg6.exit.id], avoid=wn, no_exc_from=list(cfg6.nodes))
        R.check(skip is None, 'R18.6', f'{ci.short}.save_run_info', key_of('run-info-skipped', ci.short, skip is None), 'the record is written unconditionally',
                'a path through save_run_info writes nothing: data classes that keep a log but take that path (e.g. in-memory data) get no run record for a successful run',
                witness=cfg6.describe_path(skip) if skip else None, where=where(fsr))

    # ---- R18.5 run info and log are read from storage on every request
    from .purity import check_stateless
    R.rule('R18.5', 'run_info / log readers keep no per-object copy: every request reads what the latest run stored', floor=2)
    for ci in data.all_subclasses():
        for m in ('load_run_info', 'log'):
            fm = ci.methods.get(m)
            if fm is not None:
                check_stateless(A, R, 'R18.5', fm.short, [Ctx(fm, ('inst', k)) for k in ci.all_subclasses() if k.lookup(m) is fm],
                                'a record cached on one data object keeps describing an old run after another task object (other chain, same location) recomputed the result', at=where(fm))
    for m in ('run_info', 'log'):
        fm = task.lookup(m)
        check_stateless(A, R, 'R18.5', fm.short, [Ctx(fm, ('inst', task))], 'run records must be read from storage, not from the task object', at=where(fm))

    # ---- R18.7 one result, one run-info file, one log file
    from ..terms import dag_nodes as _dag, pretty as _pretty
    R.rule('R18.7', 'run-info and log file names are a one-to-one function of the result\'s file name (stem / name / with_suffix - never a truncated name)', floor=2)
    datac = A.cls('Data')
    for prop_ in ('run_info_path', 'log_path'):
        fp_ = datac.lookup(prop_)
        R.require(fp_ is not None, f'anchor: Data.{prop_} missing')
        t_ = A.sym.func_term(fp_, ('inst', datac))
        nodes_ = _dag(t_)
        lossy = [x for x in nodes_ if (x[0] == 'index' and x[1][0] == 'method' and x[1][2] in ('split', 'rsplit', 'partition', 'rpartition') and x[2] == ('lit', 0) and x[1][2] in ('split', 'partition'))
                 or x[0] == 'slice']
        keeps = [x for x in nodes_ if (x[0] == 'attr' and x[2] in ('stem', 'name')) or (x[0] == 'method' and x[2] in ('with_suffix', 'with_name'))]
        if not lossy and not keeps:
            R.undecided('R18.7', f'Data.{prop_}', f'how the side file is named is not recognised: {_pretty(t_)[:120]}', where=where(fp_))
        else:
            R.check(not lossy, 'R18.7', f'Data.{prop_}', key_of('sidecar-name', prop_, [_pretty(x)[:60] for x in lossy]), 'named by the whole result name',
                    f'the side file is named by `{_pretty(lossy[0])[:80] if lossy else ""}`: results whose names share the part before the first dot (config names model.v1 / model.v2 in name mode) share one run-info / log file, '
                    'so the record of one run is overwritten by another task\'s run', where=where(fp_))

