"""C03 - different computations get different storage locations (injectivity of the hashed text, as a grammar property).

R03.1 every user string that reaches the hashed text raw (not through repr / a recursive renderer) is a finding:
      an unescaped string can imitate the delimiters of its container;
R03.2 list and mapping branches traverse the whole container, mapping pairs render key and value;
R03.3 digest function is cryptographic and at least 32 hex digits are kept;
R03.4 scalar leaves are rendered by repr (type-tagged), not str;
R03.5 parameters bind as name=value, inputs as name=key, the two sections are separated by a literal.
"""
from __future__ import annotations

import ast

from ..model import src

from ..report import Report, key_of
from ..terms import NONE_T, dag_nodes, factor_cond, has_opaque, is_stringy, pretty
from .common import TRUSTED_BASE, where
from .keyterm import KeyTerms, all_conj, branches, walk_guarded

STRONG = ('sha256', 'sha512', 'sha384', 'sha3_256', 'sha3_512', 'blake2b', 'blake2s')


def is_identifier_like(p, binders) -> bool:
    """Frozen provenance table: holes that are identifiers by construction (assumed free of quotes / separators)."""
    k = p[0]
    if k == 'attr':
        if p[2] in ('_name', 'name', '__name__', '__module__', 'slugname', 'fullname'):
            return True
        return False
    if k == 'index' and p[2] == ('lit', 'class'):
        return True  # import string of an object definition: must be importable, hence an identifier path
    if k == 'var':
        b = binders.get(p)
        if b is not None:
            seq, pos = b
            s = seq
            while s[0] in ('sorted',) or (s[0] == 'call' and s[1] in ('enumerate', 'list', 'reversed')):
                s = s[1] if s[0] == 'sorted' else s[2][0]
            if s[0] in ('items', 'keys') and pos == 0:
                return True  # mapping key of a registry / kwargs / signature / input map
            if s[0] == 'items' and pos == 1 and s[1][0] == 'attr' and s[1][2] == 'input_tasks':
                return True  # stored storage keys (hex digests)
        return False
    if k == 'slice':
        return is_identifier_like(p[1], binders)
    if k == 'cond':
        return is_identifier_like(p[2], binders) and is_identifier_like(p[3], binders)
    return False


_TEXT_CALLS = ('encode', 'sha', 'blake', 'md5', 'hashlib.', 'str', 'format')
_TEXT_METHODS = ('hexdigest', 'lower', 'upper', 'replace', 'strip', 'lstrip', 'rstrip', 'encode', 'format', 'removeprefix', 'removesuffix')


def text_nodes(term):
    """Sub-terms whose value becomes part of the rendered text (as opposed to conditions, attribute names, lookups)."""
    out = []
    seen = set()

    def go(t):
        if not isinstance(t, tuple) or not t or id(t) in seen:
            return
        seen.add(id(t))
        out.append(t)
        k = t[0]
        if k == 'cat':
            for p in t[1]:
                go(p)
        elif k == 'join':
            go(t[2])
        elif k == 'map':
            go(t[2])
        elif k == 'mapdict':
            go(t[2])
            go(t[3])
        elif k in ('sorted', 'items', 'keys', 'values', 'str'):
            go(t[1])
        elif k == 'slice':
            go(t[1])
        elif k == 'cond':
            go(t[2])
            go(t[3])
        elif k == 'dispatch':
            for _, x in t[2]:
                go(x)
        elif k == 'union':
            for x in t[1]:
                go(x)
        elif k == 'call' and isinstance(t[1], str) and any(t[1].split('.')[-1].startswith(p) or t[1].startswith(p) for p in _TEXT_CALLS):
            for a in t[2]:
                go(a)
        elif k == 'method' and t[2] in _TEXT_METHODS:
            go(t[1])
        elif k in ('tuple', 'list'):
            for x in t[1]:
                go(x)

    go(term)
    return out


def raw_user_parts(term):
    """(cat pretty, part pretty, guards) for cat parts that splice a possibly-user-controlled string without escaping."""
    binders = {}
    for x in dag_nodes(term):
        if x[0] == 'map':
            for i, v in enumerate(x[1]):
                binders[v] = (x[3], i)
        elif x[0] == 'mapdict':
            for i, v in enumerate(x[1]):
                binders[v] = (x[4], i)
    out = []
    seen = set()
    text = {id(x) for x in text_nodes(term)}

    def visit(t, guards, parent):
        if t[0] != 'cat' or id(t) in seen or id(t) not in text:
            return
        seen.add(id(t))
        for p in t[1]:
            k = p[0]
            if k in ('lit', 'repr', 'rec', 'ref', 'user', 'join', 'cat', 'dispatch'):
                continue
            if k == 'method' and p[2] in ('hexdigest',):
                continue
            if k == 'call' and p[1] in ('len',):
                continue
            if k == 'cond':
                # both arms must be fine; arms are visited on their own when they are cats; holes are judged here
                arms = [p[2], p[3]]
                if all(a[0] in ('lit', 'repr', 'rec', 'ref', 'user', 'join', 'cat') or is_identifier_like(a, binders) for a in arms):
                    continue
            if is_identifier_like(p, binders):
                continue
            out.append((pretty(t)[:160], pretty(p)[:100], guards))

    walk_guarded(term, visit)
    return out


def check_lossless_encoding(A, R, rid, K):
    """The bytes that are hashed are a lossless (strict) encoding of the key text (shared with C01 / C13)."""
    t = K.KEY
    if t[0] == 'slice':
        t = t[1]
    if not (t[0] == 'method' and t[2] == 'hexdigest' and t[1][0] == 'call'):
        R.undecided(rid, 'TaskParameterConfig.get_name_for_persistence: encoding', 'digest construction not recognised', where=where(K.f_key))
        return
    # what is hashed is the text itself: a lossless encoding (the default, strict utf-8) - `errors='replace' / 'ignore'` maps different texts to the same bytes
    encs = [x for x in dag_nodes(t[1]) if x[0] == 'call' and x[1] == 'encode']
    lossy = [x for x in encs if len(x[2]) != 1]
    R.check(bool(encs) and not lossy, rid, 'TaskParameterConfig.get_name_for_persistence: encoding', key_of('encode', [pretty(x)[-60:] for x in lossy] or len(encs)), 'text encoded losslessly (strict utf-8)',
            f'the hashed bytes are `{pretty(lossy[0])[-80:] if lossy else "not an encoding of the text"}`: characters that cannot be encoded are replaced / dropped, so parameter values differing only there share a key', where=where(K.f_key))


def run(A, R: Report, thorough: bool):
    R.explanation = ('Injection-style lint over the symbolic term of the hashed text: which holes are spliced between literal delimiters without an injective escaper, whether '
                     'containers are traversed completely, which digest and how many digits. Injectivity of a text format is a property of its grammar and holds for all values at once. '
                     'Not decided: injectivity of user-written repr(); SHA-256 collisions.')
    R.trusted = TRUSTED_BASE + ['builtin repr() is injective on JSON scalars and escapes quotes in strings', "str.encode with errors='replace' / 'ignore' is not injective; the default (strict) and surrogatepass are"]
    R.assumptions = ['identifier-like holes (parameter names, class names, __init__ argument names, kwargs names, task names, stored digests) contain no quote, `=`, `#`, `$`, `,`']
    K = KeyTerms(A)

    # ---- R03.1
    R.rule('R03.1', 'no user-controlled string is spliced into the hashed text without an injective escaper (repr) or a recursive renderer', floor=6)
    for name, term, f in K.pieces():
        bad = raw_user_parts(term)
        if has_opaque(term):
            R.undecided('R03.1', name, 'term contains a construct the engine does not interpret', where=where(f))
        for cat, part, guards in bad:
            R.violation('R03.1', name, key_of(cat, part), f'{name} splices `{part}` raw into `{cat}`: a string containing the delimiter renders like a different value (e.g. [\'a\', \'b\'] and ["a\', \'b"])',
                        witness=[cat], where=where(f))
        if not bad:
            n = sum(1 for x in dag_nodes(term) if x[0] == 'cat')
            R.ok('R03.1', name, f'{n} concatenation(s): every non-literal part is escaped, recursive or identifier-like', where=where(f))

    # ---- R03.1b the known non-injective renderer must not spread to further value kinds
    rfi_flawed = any(True for _ in raw_user_parts(K.piece('repr_from_instantiation')))
    R.rule('R03.1b', 'while the structural renderer splices strings unescaped, it is used only for plain config values (parameter values, object-definition arguments), never where builtin repr() was the renderer', floor=1)
    legit = {'AbstractParameter.value_repr', 'find_and_instantiate_clazz', 'repr_from_instantiation'}
    for name, term, f in K.pieces():
        uses = [x for x in dag_nodes(term) if x[0] in ('ref', 'rec') and 'repr_from_instantiation' in str(x[1])]
        if not uses:
            continue
        if name in legit or not rfi_flawed:
            R.ok('R03.1b', name, f'{len(uses)} use(s) of the structural renderer', where=where(f))
        else:
            R.violation('R03.1b', name, key_of('renderer-spread', name), f'{name} now renders values with repr_from_instantiation, whose string branch does not escape quotes: '
                        'string arguments containing a quote and a separator make different objects render alike (before, builtin repr() escaped them)', witness=[pretty(uses[0])[:200]], where=where(f))

    # ---- R03.2
    R.rule('R03.2', 'list and mapping branches render every element (no slice, no filter); mapping pairs render key and value', floor=2)
    rfi = K.piece('repr_from_instantiation')
    obj = ('p', K.f_rfi.params[0])
    found = {'list': False, 'dict': False}
    for leaf, guards in branches(rfi):
        conj = all_conj(guards)
        for kind in ('list', 'dict'):
            if any(g[0] == 'isinst' and g[1] == obj and g[2] == ('global', kind) and pol for g, pol in conj):
                found[kind] = True
                maps = [x for x in dag_nodes(leaf) if x[0] == 'map']
                ok = False
                for m in maps:
                    seq = m[3]
                    while seq[0] == 'sorted':
                        seq = seq[1]
                    full = (seq == obj) if kind == 'list' else (seq == ('items', obj))
                    recs = [x for x in dag_nodes(m[2]) if x[0] in ('rec', 'ref')]
                    covered = all(any(v in dag_nodes(r) for r in recs) for v in m[1])
                    if full and m[4] is None and covered:
                        ok = True
                R.check(ok, 'R03.2', f'repr_from_instantiation: {kind} branch', key_of(kind, pretty(leaf)[:120]), 'whole container rendered recursively',
                        f'the {kind} branch does not render every element{" and both key and value" if kind == "dict" else ""}: values differing elsewhere share a key', witness=[pretty(leaf)[:200]], where=where(K.f_rfi))
    for kind, f in found.items():
        if not f:
            R.violation('R03.2', f'repr_from_instantiation: {kind} branch', key_of(kind, 'missing'), f'no branch for {kind} values: they fall through to builtin repr', where=where(K.f_rfi))
    value_branch = [leaf for leaf, g in branches(K.piece('AbstractParameter.value_repr'))]
    delegates = any(x[0] in ('ref', 'rec') and 'repr_from_instantiation' in str(x[1]) for leaf in value_branch for x in dag_nodes(leaf))
    R.check(delegates, 'R03.2', 'AbstractParameter.value_repr', key_of('delegates'), 'plain values rendered by the structural renderer', 'parameter values are not rendered by the structural renderer', where=where(K.f_value_repr))

    # ---- R03.3
    R.rule('R03.3', 'digest is a cryptographic hash of the whole text and at least 32 hex digits are kept', floor=1)
    t = K.KEY
    n = None
    if t[0] == 'slice' and t[2] == NONE_T and t[3][0] == 'lit':
        n = t[3][1]
        t = t[1]
    algo = None
    if t[0] == 'method' and t[2] == 'hexdigest' and t[1][0] == 'call':
        algo = t[1][1].split('.')[-1]
        check_lossless_encoding(A, R, 'R03.3', K)
    if algo is None:
        R.undecided('R03.3', 'TaskParameterConfig.get_name_for_persistence', f'digest construction not recognised: {pretty(t)[:80]}', where=where(K.f_key))
    else:
        R.check(algo in STRONG and (n is None or n >= 32), 'R03.3', 'TaskParameterConfig.get_name_for_persistence', key_of('digest', algo, n), f'{algo}, {n or "all"} hex digits',
                f'digest {algo} truncated to {n} hex digits: distinct computations collide with non-negligible probability', where=where(K.f_key))

    # ---- R03.4
    R.rule('R03.4', 'scalar leaves are rendered with repr (1, 1.0, True, None and \'1\' differ)', floor=1)
    last = [leaf for leaf, g in branches(rfi)][-1]
    R.check(last[0] == 'repr' and last[1] == obj, 'R03.4', 'repr_from_instantiation: scalar leaf', key_of('scalar', pretty(last)), 'repr(obj)', f'scalars rendered as `{pretty(last)}`: values of different type share a text', where=where(K.f_rfi))

    # ---- R03.5
    R.rule('R03.5', 'name=value binding for parameters, name=key for inputs, literal separator between the sections', floor=2)
    texts = [leaf for leaf, g in branches(K.piece('AbstractParameter.repr')) if leaf != NONE_T]
    ok = bool(texts) and all(leaf[0] == 'cat' and len(leaf[1]) == 3 and leaf[1][1][0] == 'lit' and leaf[1][1][1] and leaf[1][0][0] == 'attr' and leaf[1][2][0] in ('ref', 'rec', 'cond', 'dispatch') for leaf in texts)
    R.check(ok, 'R03.5', 'AbstractParameter.repr', key_of('binding', [pretty(x)[:60] for x in texts]), 'name <literal> value', 'parameter text is not `name <separator> value`: values of different parameters can trade places', where=where(K.f_param_repr))
    own = K.piece('TaskParameterConfig.get_name_for_persistence')
    digest_arg = None
    for x in dag_nodes(own):
        if x[0] == 'call' and x[1] == 'encode':
            digest_arg = x[2][0]
    if digest_arg is None or digest_arg[0] != 'cat':
        R.undecided('R03.5', 'TaskParameterConfig.get_name_for_persistence', 'hashed text not recognised as a concatenation', where=where(K.f_key))
    else:
        parts = digest_arg[1]
        has_params = any(p[0] == 'ref' and 'ParameterRegistry.repr' in p[1] for p in parts) or any(x[0] == 'ref' and 'ParameterRegistry.repr' in x[1] for p in parts for x in dag_nodes(p))
        joins = [p for p in parts if p[0] == 'join']
        sep = [p for p in parts if p[0] == 'lit' and p[1]]
        idx_ok = False
        if has_params and joins and sep:
            names = [('params' if any(x[0] == 'ref' for x in dag_nodes(p)) and p[0] != 'join' else 'inputs' if p[0] == 'join' else 'lit' if p[0] == 'lit' else 'other') for p in parts]
            idx_ok = 'lit' in names[names.index('params') + 1: names.index('inputs')] if 'params' in names and 'inputs' in names and names.index('params') < names.index('inputs') else \
                ('lit' in names[names.index('inputs') + 1: names.index('params')] if 'params' in names and 'inputs' in names else False)
        R.check(has_params and bool(joins) and idx_ok, 'R03.5', 'TaskParameterConfig.get_name_for_persistence: sections', key_of('sections', has_params, bool(joins), idx_ok),
                'parameters <literal> inputs', 'the hashed text does not contain both sections separated by a literal', witness=[pretty(digest_arg)[:200]], where=where(K.f_key))
        for j in joins:
            m = j[2]
            if m[0] == 'map':
                m = m[:2] + (factor_cond(m[2]),) + m[3:]
            body_ok = m[0] == 'map' and m[2][0] == 'cat' and any(p[0] == 'lit' and p[1] for p in m[2][1]) and all(any(v in dag_nodes(p) for p in m[2][1]) for v in m[1])
            R.check(body_ok, 'R03.5', 'TaskParameterConfig.get_name_for_persistence: input binding', key_of('input-binding', pretty(m)[:120]), 'name <literal> key for every input',
                    'inputs are not rendered as `name <separator> key` (an input wiring change can keep the key)', witness=[pretty(m)[:200]], where=where(K.f_key))

    # ---- R03.6 the display repr of a parameter object is its persistence repr (containers render their elements with it)
    po = A.cls('ParameterObject')
    R.rule('R03.6', 'ParameterObject.__repr__ returns self.repr() unchanged', floor=1)
    for ci in po.all_subclasses():
        fr_ = ci.methods.get('__repr__')
        if fr_ is None:
            continue
        t = A.sym.func_term(fr_, ('inst', ci))
        rep = ci.lookup('repr')
        want = A.sym.func_term(rep, ('inst', ci)) if rep is not None and not rep.is_abstract else None
        same = (t[0] == 'user' and str(t[1]).endswith('.repr') and t[2] == ('self',)) or (t[0] in ('dispatch', 'rec', 'ref') and str(t[1]).endswith('repr')) or (want is not None and t == want)
        R.check(same, 'R03.6', f'{ci.short}.__repr__', key_of('display-repr', pretty(t)[:100]), '__repr__ == repr()',
                f'`{ci.short}.__repr__` is `{pretty(t)[:160]}`, not the persistence repr: builtin repr() of a container argument renders nested parameter objects through __repr__, so objects that differ where the display form is shortened / decorated share one key',
                where=where(fr_))
    # ---- R03.9 every constructor argument is part of the rendering unless it is excluded by one of the three documented ways
    R.rule('R03.9', 'AutoParameterObject.repr leaves out an __init__ argument only when it is listed as ignored, marked IgnoreForPersistence, or equals its default and is listed as dont-persist-default', floor=1)
    apo_maps = [x for x in dag_nodes(K.APO) if x[0] == 'mapdict' and x[4][0] in ('items', 'call', 'method') and 'parameters' in str(x[4])]
    if not apo_maps:
        R.undecided('R03.9', 'AutoParameterObject.repr', 'argument-collection idiom not recognised', where=where(K.f_apo))
    for m_ in apo_maps[:1]:
        g_ = m_[5]
        conj_ = list(g_[1]) if g_ is not None and g_[0] == 'and' else ([g_] if g_ is not None else [])
        other = []
        for c_ in conj_:
            txt = pretty(c_)
            legit = 'IgnoreForPersistence' in txt or '.default' in txt or (c_[0] == 'cmp' and c_[1] in ('NotIn', 'In') and c_[2] == m_[1][0]) or 'ignore_persistence_args' in txt
            if not legit:
                other.append(txt[:100])
        R.check(not other, 'R03.9', 'AutoParameterObject.repr: skipped arguments', key_of('apo-other-skip', other), f'{len(conj_)} skip condition(s), all documented',
                f'an __init__ argument is also left out of the rendering when `{other[0] if other else ""}` fails: objects differing only in such an argument (e.g. values passed through **kwargs) get one repr and share storage',
                where=where(K.f_apo))

    # ---- R03.13 IgnoreForPersistence.remove drops marker objects only
    R.rule('R03.13', 'IgnoreForPersistence.remove (and its helpers) leaves out exactly the IgnoreForPersistence instances: no value is dropped because it is None / falsy', floor=1)
    ifp = A.prog.find_cls('IgnoreForPersistence')
    R.require(ifp is not None and 'remove' in ifp.methods, 'anchor: IgnoreForPersistence.remove missing')
    bad13 = []
    for m_ in ifp.methods.values():
        for n_ in A.typer.own_nodes(m_):
            tests = []
            if isinstance(n_, ast.comprehension):
                tests += n_.ifs
            elif isinstance(n_, (ast.If, ast.IfExp)):
                tests.append(n_.test)
            for t_ in tests:
                for x in ast.walk(t_):
                    if isinstance(x, ast.Compare) and len(x.ops) == 1 and isinstance(x.ops[0], (ast.Is, ast.IsNot, ast.Eq, ast.NotEq)) and isinstance(x.comparators[0], ast.Constant) and x.comparators[0].value is None:
                        bad13.append((m_, x))
                if isinstance(t_, ast.Name) and not isinstance(n_, ast.IfExp):
                    bad13.append((m_, t_))
    R.check(not bad13, 'R03.13', 'IgnoreForPersistence.remove', key_of('none-as-marker', sorted({src(x) for _, x in bad13})), 'filters test isinstance(v, IgnoreForPersistence) only',
            f'`{src(bad13[0][1]) if bad13 else ""}` filters cleaned values by None / truthiness: a genuine None (or falsy) element of a list / set / dict argument disappears from the repr, so '
            'Schedule([0.1, None, 0.01]) and Schedule([0.1, 0.01]) share one key', where=where(bad13[0][0], bad13[0][1]) if bad13 else where(ifp.methods['remove']))

    # ---- R03.10 / R03.11 shared structural conditions of the key
    from .c02 import check_default_exemption
    R.rule('R03.10', 'a parameter is left out of the key for its default only when its typed value equals the declared default (never by comparing renderings)', floor=1)
    check_default_exemption(A, R, 'R03.10', K)
    from .c01 import check_input_map
    R.rule('R03.11', 'every Task-valued input of a task contributes its own key to the task\'s key (also inputs that are not persisted themselves)', floor=1)
    check_input_map(A, R, 'R03.11', K)

    from .purity import check_key_stateless
    check_key_stateless(A, R, 'R03.7')

