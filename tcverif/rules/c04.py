"""C04 - each computation runs at most once, and only on demand.

Decided: R04.1 `run` unreachable from construction / inspection entry points (call graph with property reads and
receiver-class specialisation); R04.2 every path through the load statement of Task.data is free of RUN and of
upstream pulls; R04.3 the in-memory memo test dominates load and run; R04.4 registry hit returns the registry entry.
Not decided: "at most once per location across processes" as a count over histories.
"""
from __future__ import annotations

import ast

from ..callgraph import show_path
from ..model import AnalysisError, src
from ..report import Report, key_of
from ..terms import has_opaque, pretty
from ..types import Ctx
from .common import TRUSTED_BASE, cfg_nodes_for, inl, is_run_edge, subst_single_assign, where
from .purity import check_stateless

CONSTRUCTION = ['Chain.__init__', 'Chain._prepare', 'MultiChain.__init__', 'MultiChain._prepare', 'Config.chain']
CHAIN_INSPECTION = ['tasks_df', '__str__', '__repr__', '_repr_markdown_', 'get', '__getitem__', '__getattr__', '__contains__', 'get_task',
                    'is_task_dependent_on', 'dependent_tasks', 'required_tasks', 'draw', 'create_readable_filenames', 'fullname']
TASK_INSPECTION = ['has_data', 'data_path', 'path', 'run_info', 'log', 'name_for_persistence', 'is_forced', '_data_without_value',
                   '__repr__', '__str__', '_repr_markdown_', 'get_config', 'input_tasks', 'force', 'reset_data', '__init__']
OTHER = ['migrate_to_parameter_mode', 'MultiChain.from_dir', 'MultiChain.latest', 'MultiChain.__getitem__']


def entry_points(A):
    eps = []
    for s in CONSTRUCTION + OTHER:
        f = A.prog.find_func(s)
        if f is not None:
            eps.append(f)
    chain = A.cls('Chain')
    for c in chain.all_subclasses():
        for n in CHAIN_INSPECTION + ['_prepare', '__init__']:
            f = c.methods.get(n)
            if f is not None and f not in eps:
                eps.append(f)
    task = A.cls('Task')
    for c in task.all_subclasses():
        for n in TASK_INSPECTION:
            f = c.methods.get(n)
            if f is not None and f not in eps:
                eps.append(f)
    return eps


def run(A, R: Report, thorough: bool):
    R.explanation = ('Call-graph reachability (calls, property reads, protocol methods; self-calls resolved per concrete receiver class) from every '
                     'construction/inspection entry point named by the property to a call of Task.run; CFG dominance in Task.data for the load branch and the memo. '
                     'Decides the structural clauses R04.1-R04.4 for all executions; does not decide run counts over histories.')
    R.trusted = TRUSTED_BASE
    R.assumptions = ['user task classes override only run(); user subclasses of Data/Chain outside the package are not analysed',
                     'receiver hint table of tcverif/types.py (each entry confirmed by reading)']
    cg = A.cg
    goal = is_run_edge(A)
    task = A.cls('Task')

    # ---- positive controls: the detector can fire
    for name in ('value', 'data'):
        f = task.lookup(name)
        R.require(f is not None, f'anchor Task.{name} missing')
        p = cg.find_path(A.ctxs(f), goal)
        R.require(p is not None, f'positive control failed: Task.{name} does not reach Task.run in the call graph - RUN detection is blind')

    # ---- R04.1
    eps = entry_points(A)
    R.rule('R04.1', 'no call path from a construction / inspection entry point to Task.run', floor=30)
    for f in eps:
        if f.short in ('Chain.force',) or (f.cls is not None and f.name == 'force' and f.cls.is_subclass_of(A.cls('Chain'))):
            continue
        path = cg.find_path(A.ctxs(f), goal)
        if path is None:
            R.ok('R04.1', f.short, 'RUN not reachable', where=where(f))
        else:
            chain = ' > '.join([path[0].src.func.short] + [e.target.func.short for e in path if e.target.func is not None])
            R.violation('R04.1', f.short, key_of(chain), f'`{f.short}` can reach a task\'s run(): building or inspecting must run nothing',
                        witness=show_path(path), where=where(f, path[0].node))

    # Chain.force: RUN only under `recompute`
    R.rule('R04.1b', 'in Chain.force every construct that can reach run() is control-dependent on `recompute`', floor=1)
    cforce = A.func('Chain.force')
    cfg = A.cfg(cforce)
    n_sites = 0
    for ctx in A.ctxs(cforce):
        for e in cg.succ(ctx):
            if not (goal(e) or (e.dst is not None and cg.find_path([e.dst], goal) is not None)):
                continue
            n_sites += 1
            nodes = cfg_nodes_for(cfg, e.node)
            ok = bool(nodes) and all(any(src(a) == 'recompute' and pol for a, pol in cfg.facts_at(n.id)) for n in nodes)
            R.check(ok, 'R04.1b', f'Chain.force: `{src(e.node)[:60]}`', key_of(src(e.node)),
                    'guarded by recompute', 'a construct reaching run() in Chain.force is not guarded by `recompute`', where=where(cforce, e.node))
    if n_sites == 0:
        R.ok('R04.1b', 'Chain.force', 'no construct in Chain.force reaches run()', where=where(cforce))

    # ---- R04.2 / R04.3 on Task.data
    fdata = task.lookup('data')
    cfg = A.cfg(fdata)
    loads = [n for n in inl(A, fdata) if isinstance(n, ast.Call) and isinstance(n.func, ast.Attribute) and n.func.attr == 'load']
    runs = [n for n in inl(A, fdata) if isinstance(n, ast.Call) and isinstance(n.func, ast.Attribute) and n.func.attr == 'run'
            and isinstance(n.func.value, ast.Name) and n.func.value.id == 'self']
    R.require(loads, 'anchor: no `.load(...)` call in Task.data')
    R.require(runs, 'anchor: no `self.run(...)` call in Task.data')
    R.rule('R04.2', 'every CFG path of Task.data through the load statement has no construct reaching run() / input values', floor=1)
    import networkx as nx
    ctxs = [c for f2 in {o.qualname: o for _, o in A.nodes(fdata)}.values() for c in A.typer.contexts_of(f2)] or A.ctxs(fdata)
    for ld in loads:
        for ln in cfg_nodes_for(cfg, ld):
            through = (set(nx.ancestors(cfg.g, ln.id)) | set(nx.descendants(cfg.g, ln.id)) | {ln.id})
            # nodes that are on some entry->load->exit path and are not exceptional-only continuations
            bad = []
            for ctx in ctxs:
                for e in cg.succ(ctx):
                    reaches = goal(e) or (e.dst is not None and cg.find_path([e.dst], goal) is not None) or \
                        (e.target.kind == 'func' and e.target.func.name == '_get_run_arguments')
                    if not reaches:
                        continue
                    for cn in cfg_nodes_for(cfg, e.node):
                        if cn.id in through:
                            bad.append((e, cn))
            if bad:
                e, cn = bad[0]
                R.violation('R04.2', 'Task.data', key_of(src(e.node)), f'a path through the load statement also evaluates `{src(e.node)[:70]}`, which can run a task',
                            witness=[f'L{cn.lineno}: {src(cn.ast)[:90]}'] + show_path(cg.find_path([e.dst], goal) or []) if e.dst else None, where=where(fdata, e.node))
            else:
                R.ok('R04.2', 'Task.data', 'paths through load are RUN-free', witness=[f'load at L{ln.lineno}', f'{len(through)} CFG nodes on paths through it'], where=where(fdata, ld))

    R.rule('R04.3', 'memo test on the stored data object dominates load and run, and its true branch only returns the stored object', floor=1)
    def memo_expr(e):
        """the stored data object: self._data, getattr(self, '_data', None), or a single-assignment local holding one of them"""
        e = subst_single_assign(A, fdata, e)
        if src(e) == 'self._data':
            return 'attr'
        if isinstance(e, ast.Call) and src(e.func) == 'getattr' and len(e.args) == 3 and src(e.args[0]) == 'self' and src(e.args[1]) == "'_data'" \
                and isinstance(e.args[2], ast.Constant) and e.args[2].value is None:
            return 'getattr'
        return None

    memo_tests = []
    for n in cfg.nodes.values():
        if n.kind == 'test' and n.owner is fdata.node and isinstance(n.ast, ast.Compare) and len(n.ast.ops) == 1 and isinstance(n.ast.ops[0], (ast.IsNot, ast.Is)) \
                and isinstance(n.ast.comparators[0], ast.Constant) and n.ast.comparators[0].value is None and memo_expr(n.ast.left):
            memo_tests.append(n)
    if not memo_tests:
        for n in cfg.nodes.values():
            if n.kind == 'test' and n.owner is fdata.node and memo_expr(n.ast):
                memo_tests.append(n)
                # "is there a data object" asked by truthiness: a data object may be a container (user data classes with __len__, a falsy value object)
                R.violation('R04.3', 'Task.data: memo test', key_of('memo-truthiness', src(n.ast)), f'`{src(n.ast)}` tests the stored data object for truth, not for `is not None`: a data object that is an (empty) container '
                            'counts as "nothing computed yet", so every further request of the value - by this task\'s dependants in the same chain - runs the task again', where=where(fdata, n.ast))
                break
    memo_tests.sort(key=lambda n: n.id)
    if not memo_tests:
        R.undecided('R04.3', 'Task.data', 'memo test idiom not recognised', where=where(fdata))
    else:
        m = memo_tests[0]
        pos_label = 'F' if isinstance(m.ast, ast.Compare) and isinstance(m.ast.ops[0], ast.Is) else 'T'
        safe_missing = isinstance(m.ast, ast.Compare) and memo_expr(m.ast.left) == 'getattr'
        targets = [cn for c in loads + runs for cn in cfg_nodes_for(cfg, c)]
        # every path from entry to load / run takes the "nothing memoised" outcome of the memo test, or the
        # negative outcome of a defensive hasattr(self, '_data') test (the attribute does not exist yet)
        neg_label = 'T' if pos_label == 'F' else 'F'
        gates = [n.id for n in cfg.nodes.values() if n.kind == 'edge' and (
            (n.ast is m.ast and n.label == neg_label)
            or (isinstance(n.ast, ast.Call) and src(n.ast.func) == 'hasattr' and len(n.ast.args) == 2 and src(n.ast.args[1]) == "'_data'" and n.label == 'F'))]
        dom_ok = not cfg.path_exists([cfg.entry.id], [t.id for t in targets], avoid=gates)
        # true branch: everything reachable from the T edge before exit is `return <the stored object>`
        t_edges = [v for v in cfg.g.successors(m.id) if cfg.nodes[v].kind == 'edge' and cfg.nodes[v].label == pos_label]
        branch_ok = bool(t_edges)
        for te in t_edges:
            for d in nx.descendants(cfg.g, te):
                nd = cfg.nodes[d]
                if nd.kind in ('exit',):
                    continue
                if not (nd.kind == 'stmt' and isinstance(nd.ast, ast.Return) and nd.ast.value is not None and memo_expr(nd.ast.value)):
                    branch_ok = False
        # returns of Task.data itself (returns inside inlined helpers only continue after the call statement)
        own_rets = [n for n in cfg.nodes.values() if n.kind == 'stmt' and isinstance(n.ast, ast.Return) and n.owner is fdata.node]
        rets_ok = bool(own_rets) and all(n.ast.value is not None and src(subst_single_assign(A, fdata, n.ast.value)) == 'self._data' or
                                         (n.ast.value is not None and memo_expr(n.ast.value) and any(d == n.id for te in t_edges for d in nx.descendants(cfg.g, te)))
                                         for n in own_rets)
        R.check(dom_ok and branch_ok and rets_ok, 'R04.3', 'Task.data', key_of('memo', dom_ok, branch_ok, rets_ok),
                'memo short-circuit dominates load and run; all exits return the stored object',
                f'memo broken: dominates={dom_ok} true-branch-only-returns={branch_ok} all-returns-stored-object={rets_ok}',
                witness=[f'memo test L{m.lineno}: {src(m.ast)}'], where=where(fdata, m.ast))

    # ---- R04.4 registry hit returns the registry entry
    check_registry_reuse(A, R, 'R04.4')

    # ---- R04.5 exists() is a pure existence test of the visible path (with atomic publish: exists == complete)
    from .c05 import persistent_data_classes
    R.rule('R04.5', 'exists() of every data class is exactly an existence test of its visible path (no content / age / size condition that could make a stored result look missing)', floor=9)
    for ci, vis in persistent_data_classes(A):
        f = ci.lookup('exists')
        t = A.sym.func_term(f, ('inst', ci))
        ok = t[0] == 'method' and t[2] in ('exists', 'is_file', 'is_dir') and any(t[1] == v for v in vis)
        R.check(ok, 'R04.5', f'{ci.short}.exists', key_of('exists-term', pretty(t)[:160]), f'exists() = {pretty(t)[:80]}',
                f'{ci.short}.exists() is `{pretty(t)[:200]}`: a stored result can be reported missing, so its task runs again although the location is filled', where=where(f))

    # ---- R04.6 inspection does not change the task / chain / config objects
    R.rule('R04.6', 'inspection entry points store nothing on pre-existing objects (no cached answers that could go stale, no dropped results)', floor=10)
    pure_names = ['has_data', 'data_path', 'path', 'run_info', 'log', 'name_for_persistence', 'is_forced', '_data_without_value', '__repr__', '__str__', '_repr_markdown_', 'get_config', 'input_tasks']
    for c in task.all_subclasses():
        for n in pure_names:
            f = c.methods.get(n)
            if f is None:
                continue
            check_stateless(A, R, 'R04.6', f.short, [Ctx(f, ('inst', k)) for k in c.all_subclasses() if k.lookup(n) is f],
                            'an answer cached on the object outlives the state of the store (another chain or process may fill or clear the location), so a later request runs or skips wrongly', at=where(f))
    chain = A.cls('Chain')
    for n in ['tasks_df', '__str__', '__repr__', '_repr_markdown_', 'get', '__getitem__', '__getattr__', '__contains__', 'get_task', 'is_task_dependent_on', 'dependent_tasks', 'required_tasks']:
        f = chain.methods.get(n)
        if f is not None:
            check_stateless(A, R, 'R04.6', f.short, [Ctx(f, ('inst', chain))], 'inspecting a chain must not change it', at=where(f))

    # ---- R04.7 the in-memory result is dropped only by force(), reset_data() and the failure handler
    R.rule('R04.7', 'self._data is reset to None only in __init__, force, reset_data and the failure handler of data', floor=3)
    allowed = {'__init__', 'force', 'reset_data', 'data'} | {o.name for _, o in A.nodes(fdata)}
    for c in task.all_subclasses():
        for name, f in c.methods.items():
            for node in A.typer.own_nodes(f):
                if isinstance(node, ast.Assign) and any(src(t) == 'self._data' for t in node.targets) and isinstance(node.value, ast.Constant) and node.value.value is None:
                    ok = name in allowed
                    if ok and name not in ('__init__', 'force', 'reset_data'):
                        cfg2 = A.cfg(f)
                        ok = all(cn.id in cfg2.in_handler for cn in cfg_nodes_for(cfg2, node))
                    R.check(ok, 'R04.7', f'{f.short}: `self._data = None`', key_of('memo-dropped', f.short), 'legitimate reset site',
                            f'`{f.short}` drops the in-memory result: a later request from the same object runs the task again (in-memory tasks) or reloads needlessly', where=where(f, node))

    # ---- R04.8 the readable-name helper removes symbolic links only (never a stored result, which would be computed again)
    # ---- R04.9 the decision "a data object is there" is an identity question
    R.rule('R04.9', 'data objects that Task code tests for truth (`if self._data and ...`) have plain object truthiness: no data class defines __len__ / __bool__', floor=1)
    datac = A.cls('Data')
    taskc9 = A.cls('Task')
    tests9 = []
    for m_ in taskc9.methods.values():
        cx = Ctx(m_, ('inst', taskc9))
        for n_ in A.typer.own_nodes(m_):
            cand = []
            if isinstance(n_, (ast.If, ast.While, ast.IfExp)):
                cand.append(n_.test)
            elif isinstance(n_, ast.BoolOp):
                cand += n_.values
            elif isinstance(n_, ast.UnaryOp) and isinstance(n_.op, ast.Not):
                cand.append(n_.operand)
            elif isinstance(n_, ast.Assert):
                cand.append(n_.test)
            for e_ in cand:
                if isinstance(e_, (ast.Name, ast.Attribute)):
                    tys = [t_ for t_ in A.typer.expr(e_, cx) if t_[0] == 'inst' and hasattr(t_[1], 'is_subclass_of') and t_[1].is_subclass_of(datac)]
                    if tys:
                        tests9.append((m_, e_))
    R.require(tests9, 'anchor: no truth test of a data object found in Task (the load guard `self._data and ...`)')
    sized = [(ci_, nm) for ci_ in datac.all_subclasses(include_self=True) for nm in ('__bool__', '__len__') if nm in ci_.methods]
    R.check(not sized, 'R04.9', 'Data classes: truthiness', key_of('data-truthiness', sorted(f'{c_.short}.{nm}' for c_, nm in sized)), f'{len(tests9)} truth test(s) of data objects in Task; no data class overrides truthiness',
            f'{", ".join(f"{c_.short}.{nm}" for c_, nm in sized)} makes a data object without a loaded value falsy, but Task tests data objects for truth (`{src(tests9[0][1])}` in {tests9[0][0].short}): '
            'the load branch is skipped and a task whose result is stored is run again', where=where(sized[0][0].methods[sized[0][1]]) if sized else where(tests9[0][0], tests9[0][1]))

    R.rule('R04.8', 'create_readable_filenames / _create_softlink_to_task_data unlink a path only after is_symlink() of that very path', floor=1)
    n8 = 0
    for fname in ('Chain.create_readable_filenames', 'Chain._create_softlink_to_task_data'):
        f8 = A.prog.find_func(fname)
        if f8 is None:
            continue
        cfg8 = A.cfg(f8, inline=False)
        for n in A.typer.own_nodes(f8):
            if isinstance(n, ast.Call) and isinstance(n.func, ast.Attribute) and n.func.attr in ('unlink', 'rmdir') or (isinstance(n, ast.Call) and src(n.func) in ('os.remove', 'os.unlink', 'shutil.rmtree')):
                n8 += 1
                victim = src(n.func.value) if isinstance(n.func, ast.Attribute) and n.func.attr in ('unlink', 'rmdir') else (src(n.args[0]) if n.args else '?')
                gates = [e.id for e in cfg8.nodes.values() if e.kind == 'edge' and e.label == 'T' and isinstance(e.ast, ast.Call) and isinstance(e.ast.func, ast.Attribute) and e.ast.func.attr == 'is_symlink' and src(e.ast.func.value) == victim]
                targets = [cn.id for cn in cfg_nodes_for(cfg8, n)]
                p8 = cfg8.find_path([cfg8.entry.id], targets, avoid=gates, no_exc_from=list(cfg8.nodes)) if targets else None
                R.check(bool(gates) and p8 is None, 'R04.8', f'{f8.short}: `{src(n)[:50]}`', key_of('unlink-guard', f8.short, victim, bool(gates) and p8 is None), f'`{victim}` is removed only when it is a symbolic link',
                        f'`{src(n)[:60]}` can remove a path that is not a symbolic link: when the readable name coincides with the data file name the stored result is deleted and the next request runs the task again',
                        witness=cfg8.describe_path(p8) if p8 else None, where=where(f8, n))
    if n8 == 0:
        R.ok('R04.8', 'Chain.create_readable_filenames', 'nothing is removed', where='src/taskchain/chain.py')


def check_registry_reuse(A, R: Report, rid: str):
    """Value term of Chain._create_task by cases: registry given and key present -> the registered object; key absent
    -> the new task, which is stored under the same key on every such path; no registry -> the new task."""
    from ..terms import assume
    R.rule(rid, 'Chain._create_task returns the registry entry whenever the key is present; otherwise stores the new task under the same key and returns it', floor=2)
    f = A.func('Chain._create_task')
    cfg = A.cfg(f)
    regs = [p for p in f.params if 'registry' in p]
    R.require(regs, 'anchor: Chain._create_task has no *registry* parameter')
    reg = regs[0]
    regp = ('p', reg)
    stop_old = A.sym.stop_at
    A.sym.stop_at = {fi.qualname for fi in A.prog.functions.values() if fi.name in ('slugname', 'name_for_persistence', 'repr_name_without_namespace', 'get_name_for_persistence', 'get_config')}
    try:
        t = A.sym.func_term(f, ('inst', A.cls('Chain')))
        tests = [n.left for n in inl(A, f) if isinstance(n, ast.Compare) and len(n.ops) == 1 and isinstance(n.ops[0], (ast.In, ast.NotIn)) and src(n.comparators[0]) == reg]
        stores = [n for n in inl(A, f) if isinstance(n, ast.Assign) and isinstance(n.targets[0], ast.Subscript) and src(n.targets[0].value) == reg]
        at = A.sym.terms_at(f, ('inst', A.cls('Chain')), tests + [s_.targets[0].slice for s_ in stores] + [s_.value for s_ in stores])
    finally:
        A.sym.stop_at = stop_old
    if not tests:
        if has_opaque(t):
            R.undecided(rid, 'Chain._create_task', 'registry lookup idiom not recognised', where=where(f))
            R.undecided(rid, 'Chain._create_task: registry miss', 'registry lookup idiom not recognised', where=where(f))
        else:
            R.violation(rid, 'Chain._create_task: registry hit', key_of('hit', 'no-membership-test'), 'no `key in registry` test: an existing task object for the same computation is not found (or found by something else than its key)',
                        witness=[pretty(t)[:300]], where=where(f))
            R.ok(rid, 'Chain._create_task: registry miss', 'not applicable', where=where(f))
        return
    new_task = ('call', 'apply', (('p', f.params[0]), ('p', f.params[1])))
    is_tpc = ('isinst', ('p', f.params[1]), ('global', 'TaskParameterConfig'))
    hit_ok, miss_ok, none_ok, store_ok = True, True, True, bool(stores)
    shown = []
    for mode in (True, False):
        dm = (lambda c, mode=mode: mode if c == is_tpc else None)
        keys = {assume(k, dm) for n in tests for k in at.get(id(n), [])}
        if len(keys) != 1:
            hit_ok = False
            shown.append(f'{len(keys)} different keys tested')
            continue
        km = next(iter(keys))
        tm = assume(t, dm)

        def dec(hit, present=True, km=km):
            def d(c):
                if c == regp or c == ('call', 'bool', (regp,)):
                    return present
                if c[0] == 'cmp' and c[1] in ('Is', 'IsNot') and c[2] == regp and c[3] == ('lit', None):
                    return (not present) if c[1] == 'Is' else present
                if c[0] == 'cmp' and c[1] in ('In', 'NotIn') and c[2] == km and c[3] == regp:
                    return hit if c[1] == 'In' else (not hit)
                if c[0] == 'cmp' and c[1] in ('Gt', 'NotEq') and c[2] == ('call', 'len', (regp,)) and c[3] == ('lit', 0):
                    return present
                return None
            return d

        h, m, n_ = assume(tm, dec(True)), assume(tm, dec(False)), assume(tm, dec(False, present=False))
        shown.append(f'hit -> {pretty(h)[:120]}')
        hit_ok = hit_ok and h == ('index', regp, km)
        miss_ok = miss_ok and m == new_task
        none_ok = none_ok and n_ == new_task
        for s_ in stores:
            ks = {assume(k, dm) for k in at.get(id(s_.targets[0].slice), [])}
            vs = {assume(v, dm) for v in at.get(id(s_.value), [])}
            store_ok = store_ok and ks == {km} and vs == {new_task}
    if has_opaque(t) and not (hit_ok and miss_ok and none_ok):
        R.undecided(rid, 'Chain._create_task: registry hit', 'the value of _create_task involves a construct the term engine does not interpret', where=where(f))
        R.undecided(rid, 'Chain._create_task: registry miss', 'the value of _create_task involves a construct the term engine does not interpret', where=where(f))
        return
    R.check(hit_ok, rid, 'Chain._create_task: registry hit', key_of('hit', hit_ok), 'a hit returns the registered task',
            'with the key present in the registry, _create_task does not (only) return the registered task: identical computations get separate objects, or another object is handed out',
            witness=shown, where=where(f, tests[0]))
    # every path on which the registry is given and a new task is returned stores it first
    rets_new = [n.id for n in cfg.nodes.values() if n.kind == 'stmt' and isinstance(n.ast, ast.Return) and n.ast.value is not None and n.owner is f.node
                and not (isinstance(subst_single_assign(A, f, n.ast.value), ast.Subscript))]
    gates = [cn.id for s_ in stores for cn in cfg_nodes_for(cfg, s_)]
    for n in cfg.nodes.values():
        if n.kind == 'edge' and isinstance(n.ast, ast.Compare) and len(n.ast.ops) == 1 and src(n.ast.left) == reg and isinstance(n.ast.comparators[0], ast.Constant) and n.ast.comparators[0].value is None:
            if (isinstance(n.ast.ops[0], ast.Is) and n.label == 'T') or (isinstance(n.ast.ops[0], ast.IsNot) and n.label == 'F'):
                gates.append(n.id)
    unstored = cfg.find_path([cfg.entry.id], rets_new, avoid=gates, no_exc_from=list(cfg.nodes)) if rets_new else None
    R.check(miss_ok and none_ok and store_ok and unstored is None, rid, 'Chain._create_task: registry miss', key_of('miss', miss_ok, none_ok, store_ok, unstored is None),
            'a miss stores the new task under the tested key and returns it', 'registry miss path stores under a different key, stores another object, or returns without storing: the next identical computation gets a separate object',
            witness=cfg.describe_path(unstored) if unstored else shown, where=where(f))
