"""C15 - file caches stay consistent under concurrent use (lockset discipline).

R15.1 every cache-file write (save_value call) happens inside a `with <key lock>` region;
R15.2 the existence test that guards a load and that load share one critical section;
R15.3 the lock identity is the same function of the cache file path in all entry points.
R15.8 whether an entry is stored is decided while holding the key lock;  R15.9 (from C14 R14.11) a refused value does not truncate the entry.
"""
from __future__ import annotations

import ast

from ..model import src
from ..report import Report, key_of
from ..terms import pretty
from ..types import Ctx
from .common import TRUSTED_BASE, cfg_nodes_for, subst_single_assign, where


def enclosing_withs(node):
    out = []
    p = getattr(node, '_parent', None)
    child = node
    while p is not None and not isinstance(p, (ast.FunctionDef, ast.AsyncFunctionDef, ast.Lambda)):
        if isinstance(p, (ast.With, ast.AsyncWith)) and any(child is b for b in p.body):
            out.append(p)
        child = p
        p = getattr(p, '_parent', None)
    return out


def lock_withs(A, func, ctx):
    """With statements of func (and of the private helpers it calls) whose context manager evaluates to the key's
    FileLock; returns {with node: term of the lock file}."""
    withs = [n for n, o, s_ in A.nodes_with_sites(func) if isinstance(n, (ast.With, ast.AsyncWith))]
    exprs = [item.context_expr for w in withs for item in w.items]
    at = A.sym.terms_at(func, ctx.recv, exprs) if exprs else {}
    out = {}
    LOCK_INFO.clear()
    for w in withs:
        for item in w.items:
            for t in at.get(id(item.context_expr), []):
                acquire = None
                if t[0] == 'method' and t[2] == 'acquire':
                    acquire, t = t[3], t[1]   # `with lock.acquire(...)`: the lock is held inside the block as well
                if t[0] == 'call' and t[1].split('.')[-1] in ('FileLock', 'SoftFileLock') and t[2]:
                    out[w] = t[2][0]
                    LOCK_INFO[id(w)] = {'with': w, 'ctor_kwargs': {x[1]: x[2] for x in t[2] if x[0] == 'kw'}, 'acquire_args': acquire, 'class': t[1].split('.')[-1]}
    return out


LOCK_INFO = {}


def held_withs(node, sites):
    """with-statements lexically enclosing the node, continued through the call sites of the helpers it sits in"""
    out = enclosing_withs(node)
    for s_ in sites:
        out += enclosing_withs(s_)
    return out


def cache_entry_points(A):
    fc = A.cls('FileCache')
    eps = []
    for c in fc.all_subclasses():
        for name, f in c.methods.items():
            if name.startswith('_'):
                continue
            calls = [n for n, o, s_ in A.nodes_with_sites(f) if isinstance(n, ast.Call) and isinstance(n.func, ast.Attribute) and n.func.attr in ('load_value', 'save_value')
                     and isinstance(n.func.value, ast.Name) and n.func.value.id == 'self']
            if calls and f not in [e[0] for e in eps]:
                eps.append((f, c))
    return eps


def run(A, R: Report, thorough: bool):
    R.explanation = ('Lockset analysis over FileCache entry points: `with FileLock(<file>.lock)` regions are structured, so "lock held at a call site" is decided from the '
                     'enclosing with-statements; the existence test guarding a load is found through CFG branch facts and must sit in the same critical section as the load. '
                     'Not decided: real interleavings, OS lock semantics.')
    R.trusted = TRUSTED_BASE + ['filelock.FileLock is mutually exclusive between instances on one lock file, across threads and processes', 'numpy.load(mmap_mode=...) returns a view of the file, not a copy']
    R.assumptions = ['locks are taken with `with`; explicit acquire()/release() is reported as UNDECIDED']
    eps = cache_entry_points(A)
    R.require(len(eps) >= 2, f'anchor: expected FileCache.get and get_or_compute to call load_value/save_value, found {len(eps)} entry point(s)')
    R.rule('R15.1', 'every save_value call is inside a `with <FileLock of the cache file>` region', floor=1)
    R.rule('R15.2', 'a load_value guarded by an existence test holds the key lock (writers truncate in place under that lock)', floor=2)
    R.rule('R15.3', 'all entry points lock the same function of the cache file path', floor=2)
    R.rule('R15.8', 'whether an entry is stored is decided while holding the key lock (the answer of an earlier moment is not used after waiting for the lock)', floor=0)
    R.rule('R15.4', 'the key lock is a blocking, per-thread, OS-level FileLock (no shared re-entrant instance, no bounded or non-blocking acquisition)', floor=0)
    lock_terms = {}
    for f, ci in eps:
        ctx = Ctx(f, ('inst', ci))
        lw = lock_withs(A, f, ctx)
        with_items = {id(item.context_expr) for n, _o, _s in A.nodes_with_sites(f) if isinstance(n, (ast.With, ast.AsyncWith)) for item in n.items}
        if any(isinstance(n, ast.Call) and isinstance(n.func, ast.Attribute) and n.func.attr in ('acquire', 'release') and id(n) not in with_items for n, _o, _s in A.nodes_with_sites(f)):
            R.undecided('R15.1', f.short, 'explicit acquire()/release(): lock regions not tracked', where=where(f))
            continue
        cfg = A.cfg(f)
        for n, _owner, sites in A.nodes_with_sites(f):
            if not (isinstance(n, ast.Call) and isinstance(n.func, ast.Attribute) and isinstance(n.func.value, ast.Name) and n.func.value.id == 'self'):
                continue
            held = [w for w in held_withs(n, sites) if w in lw]
            pass
        for n, _owner, sites in A.nodes_with_sites(f):
            # R15.8: the presence test of the entry is made under the lock
            if isinstance(n, ast.Call) and isinstance(n.func, ast.Attribute) and n.func.attr in ('exists', 'is_file') and not n.args:
                recv = subst_single_assign(A, _owner, n.func.value)
                if isinstance(recv, ast.Call) and src(recv.func) == 'self.filepath':
                    held8 = [w for w in held_withs(n, sites) if w in lw]
                    R.check(bool(held8), 'R15.8', f'{f.short}: `{src(n)[:40]}`', key_of('presence-outside-lock', f.short), 'presence of the entry is tested while holding the key lock',
                            'whether the entry is stored is decided before the key lock is taken: a caller that waits for the lock while another caller computes and stores the value still believes the entry is missing - '
                            'it computes again and overwrites an intact entry (or reports NO_VALUE for an entry that is complete by the time it holds the lock)', where=where(f, n))
        for n, _owner, sites in A.nodes_with_sites(f):
            if not (isinstance(n, ast.Call) and isinstance(n.func, ast.Attribute) and isinstance(n.func.value, ast.Name) and n.func.value.id == 'self'):
                continue
            held = [w for w in held_withs(n, sites) if w in lw]
            if n.func.attr == 'save_value':
                R.check(bool(held), 'R15.1', f'{f.short}: `{src(n)[:50]}`', key_of('unlocked-write', f.short), 'write under the key lock',
                        'the cache file is written without holding the key\'s lock', where=where(f, n))
            elif n.func.attr == 'load_value':
                # find the existence test among the branch facts of the load
                ex_calls = []
                for cn in cfg_nodes_for(cfg, n):
                    for a, pol in cfg.facts_at(cn.id):
                        e = subst_single_assign(A, f, a)
                        if pol and isinstance(e, ast.Call) and isinstance(e.func, ast.Attribute) and e.func.attr in ('exists', 'is_file'):
                            ex_calls.append(e)
                construct = f'{f.short}: `{src(n)[:50]}`'
                if not ex_calls:
                    # a load that is not guarded by an existence test still reads a file a writer may be truncating
                    R.check(bool(held), 'R15.2', construct, key_of('unlocked-load', f.short), 'the load holds the key lock',
                            'the cache file is read without holding the key\'s lock: a concurrent (forced) writer truncating the file makes this call fail or return a partial value', where=where(f, n))
                    continue
                for e in ex_calls:
                    ew = [w for w in held_withs(e, sites) if w in lw]
                    # necessary and sufficient against truncating writers: the load itself holds the key lock
                    # (writers write completely under that lock); the test may sit in the same or an earlier region
                    same = bool(held)
                    R.check(same, 'R15.2', construct, key_of('check-then-act', f.short),
                            'the load holds the key lock',
                            'the lock is released between the existence test and the load: a writer truncating the file in between makes the reader fail / recompute',
                            witness=[f'exists at L{e.lineno} locks={[w.lineno for w in ew]}', f'load at L{n.lineno} locks={[w.lineno for w in held]}'], where=where(f, n))
        if not any(o.rule == 'R15.8' and o.construct.startswith(f.short + ':') for o in R.obs):
            R.undecided('R15.8', f'{f.short}: presence test', 'no existence test of the cache file recognised in this entry point', where=where(f))
        terms = {pretty(t) for t in lw.values() if t is not None}
        lock_terms[f.short] = terms
        for w in lw:
            info = LOCK_INFO.get(id(w))
            if info is None:
                continue
            problems = []
            kw = info['ctor_kwargs']
            if info['class'] != 'FileLock':
                problems.append(f'{info["class"]} is not an OS-level lock')
            if kw.get('thread_local', ('lit', True)) != ('lit', True) or kw.get('is_singleton', ('lit', False)) != ('lit', False):
                problems.append('the lock object is shared between threads (thread_local=False / is_singleton=True): it is re-entrant, so threads of one process do not exclude each other')
            if 'timeout' in kw and kw['timeout'] not in (('lit', -1), ('lit', None)):
                problems.append('bounded lock acquisition (timeout): a waiting caller fails instead of waiting for the writer')
            if kw.get('blocking', ('lit', True)) != ('lit', True):
                problems.append('non-blocking lock')
            acq = info['acquire_args']
            if acq is not None:
                akw = {x[1]: x[2] for x in acq if x[0] == 'kw'}
                pos = [x for x in acq if x[0] != 'kw']
                if akw.get('blocking', ('lit', True)) != ('lit', True) or ('timeout' in akw and akw['timeout'] not in (('lit', -1), ('lit', None))) or pos:
                    problems.append('non-blocking / bounded acquire(): a caller that does not get the lock reports a completely stored entry as missing (or fails) because another caller holds the lock')
            R.check(not problems, 'R15.4', f'{f.short}: lock at L{w.lineno}', key_of('lock-config', f.short, sorted(problems)), 'blocking, per-thread, OS-level lock', '; '.join(problems), where=where(f, w))
    allt = set()
    for k, v in lock_terms.items():
        allt |= v
    for k, v in lock_terms.items():
        R.check(len(allt) == 1 and len(v) == 1, 'R15.3', k, key_of('lock-identity', sorted(v)), f'lock file = {sorted(v)}',
                f'entry points lock different files: {sorted(allt)}', where=k)

    from .c14 import check_load_handlers, check_numpy_entries
    R.rule('R15.6', 'a load that fails (file left truncated by a killed writer) never makes get / get_or_compute fail: any exception but the key-mismatch error falls through to NO_VALUE / recompute', floor=2)
    check_load_handlers(A, R, 'R15.6')
    R.rule('R15.5', 'numpy entries are returned as copies of the file content, never as views of the file another caller rewrites in place', floor=1)
    check_numpy_entries(A, R, 'R15.5')

    R.rule('R15.7', 'directories on the way to a cache file are created race-tolerantly (mkdir(exist_ok=True)), never by a check-then-create outside the lock', floor=1)
    fc7 = A.cls('FileCache')
    for ci_ in [fc7] + list(fc7.all_subclasses(include_self=False)):
        for m_ in ci_.methods.values():
            for c_ in A.typer.own_nodes(m_):
                if isinstance(c_, ast.Call) and isinstance(c_.func, ast.Attribute) and c_.func.attr in ('mkdir', 'makedirs'):
                    ok_ = any(kw.arg == 'exist_ok' and isinstance(kw.value, ast.Constant) and kw.value.value is True for kw in c_.keywords)
                    R.check(ok_, 'R15.7', f'{ci_.short}.{m_.name}: `{src(c_)[:50]}`', key_of('mkdir-race', ci_.short, m_.name, ok_), 'exist_ok=True',
                            f'`{src(c_)[:60]}` fails with FileExistsError when another caller creates the directory between the existence test and the call: two first users of a key bucket, one of them fails because of the other', where=where(m_, c_))

