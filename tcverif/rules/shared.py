"""Rules that are a necessary condition of more than one property.

A structural rule is decided once, by the module of the property it was written for; a property whose statement
depends on the same structure imports the verdicts under its own rule id (TABLE).  The imported obligations are
exactly the ones the source module records on the same program model - same constructs, same keys - so a violation
is reported by every property it breaks.  Rules with listed known findings are never imported (a known finding is
identified by property + rule + construct + key).
"""
from __future__ import annotations

import importlib

from ..model import AnalysisError
from ..report import Obligation, Report

# property -> [(source property, {source rule: rule id here}, why it is also necessary here)]
TABLE = {
    'C01': [('C05', {'R05.6': 'R01.13'},
             'a work directory that still holds files of a dead attempt is published as part of the next result: the stored value is not what the computation yields'),
            ('C05', {'R05.2': 'R01.16'},
             'a data object left on the task by a failed run is handed out by the next request as if it held the result: the value is an empty holder, not what run computes'),
            ('C09', {'R09.4': 'R01.17'},
             'a used config that does not get the context / namespace of the config using it (or is prepared before it has them) gives its tasks other parameter values than the configuration says')],
    'C02': [('C01', {'R01.7': 'R02.9'},
             'declared parameter objects (and their mutable defaults) shared between task instances can be changed by one run: the same config built later in the process renders other values into its key')],
    'C03': [('C01', {'R01.2': 'R03.12'},
             'an input whose name / key does not reach the hashed text (two inputs collapsing to one entry) lets different upstream computations share one key'),
            ('C02', {'R02.4': 'R03.14'},
             'what a parameter (object) contributes to the key is its stored constructor argument, dropped only under the declared exemptions: a lossy public view of the argument, or a widened exemption, gives '
             'different computations one text')],
    'C06': [('C05', {'R05.6': 'R06.11', 'R05.10': 'R06.12'},
             'what a later chain loads is what was saved: files left in the temporary directory by an aborted save (the tail of a longer list) must not be published with the new value')],
    'C05': [('C07', {'R07.7': 'R05.8'},
             'a recomputed directory result that lands inside (or is merged into) the old one leaves a visible result that is neither the old nor the new value')],
    'C14': [('C16', {'R16.5': 'R14.8', 'R16.6': 'R14.9'},
             'the in-memory cache is one of the caches the property speaks about: a stored None / falsy value is a stored value (returned, not recomputed)'),
            ('C15', {'R15.8': 'R14.10'},
             'an intact stored entry is returned, not recomputed: the test that finds it has to see what is stored when the lock is held, not what was there before waiting for it')],
    'C15': [('C14', {'R14.11': 'R15.9'},
             'at quiescence the stored entry is complete: a writer that refuses a value after truncating the file leaves an empty entry behind')],
    'C16': [('C15', {'R15.8': 'R16.10'},
             'two callers with the same binding execute the method once: the second one must find the entry the first one stored while it waited for the lock'),
            ('C14', {'R14.6': 'R16.11'},
             'a forced re-execution that fails must leave the stored entry in place: later calls with the same binding are answered from it (only_cache finds it, the method is not executed again)')],
    'C12': [('C07', {'R07.7': 'R12.2'},
             'a directory result that is moved *into* the old directory (instead of replacing it) lives at <key>/<key>_tmp/: later chains find the stale files under the 1.4.0 location')],
    'C13': [('C07', {'R07.2': 'R13.6', 'R07.4': 'R13.7'},
             'MultiChain.force forces a shared task object once per member chain: Task.force must be repeatable (deletion guarded by exists()), and Chain.force must resolve all names before it forces anything, '
             'else the fan-out stops half-way with some chains forced and others stale')],
}


def run(A, R: Report, prop: str):
    done = {}
    for src_prop, mapping, why in TABLE.get(prop, []):
        if src_prop not in done:
            mod = importlib.import_module(f'tcverif.rules.{src_prop.lower()}')
            R2 = Report(src_prop, R.tier, quiet=True)
            err = None
            try:
                mod.run(A, R2, False)
            except AnalysisError as e:
                err = str(e)
            done[src_prop] = (R2, err)
        R2, err = done[src_prop]
        for old, new in mapping.items():
            text = R2.rules_text.get(old, old)
            R.rule(new, f'[{src_prop} {old}] {text} - needed here because {why}', floor=0 if err else R2.floors.get(old, 1))
            got = [o for o in R2.obs if o.rule == old]
            if err and not got:
                R.undecided(new, f'{src_prop} {old}', f'the analysis of {src_prop} stopped ({err}); see the check of {src_prop}')
            for o in got:
                R.obs.append(Obligation(new, o.construct, o.status, o.detail, o.witness, o.key, o.nontrivial, o.where))
