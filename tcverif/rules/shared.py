"""Rules that are a necessary condition of more than one property.

A structural rule is decided once, by the module of the property it was written for; a property whose statement
depends on the same structure imports the verdicts under its own rule id (TABLE).  The imported obligations are
exactly the ones the source module records on the same program model - same constructs, same keys - so a violation
is reported by every property it breaks.  Rules with listed known findings are never imported (a known finding is
identified by property + rule + construct + key).
"""
from __future__ import annotations

import importlib

from ..model import AnalysisError
from ..report import Obligation, Report

# property -> [(source property, {source rule: rule id here}, why it is also necessary here)]
TABLE = {
    'C01': [('C05', {'R05.6': 'R01.13'},
             'a work directory that still holds files of a dead attempt is published as part of the next result: the stored value is not what the computation yields')],
    'C02': [('C01', {'R01.7': 'R02.9'},
             'declared parameter objects (and their mutable defaults) shared between task instances can be changed by one run: the same config built later in the process renders other values into its key')],
    'C03': [('C01', {'R01.2': 'R03.12'},
             'an input whose name / key does not reach the hashed text (two inputs collapsing to one entry) lets different upstream computations share one key')],
    'C05': [('C07', {'R07.7': 'R05.8'},
             'a recomputed directory result that lands inside (or is merged into) the old one leaves a visible result that is neither the old nor the new value')],
    'C14': [('C16', {'R16.5': 'R14.8', 'R16.6': 'R14.9'},
             'the in-memory cache is one of the caches the property speaks about: a stored None / falsy value is a stored value (returned, not recomputed)')],
    'C12': [('C07', {'R07.7': 'R12.2'},
             'a directory result that is moved *into* the old directory (instead of replacing it) lives at <key>/<key>_tmp/: later chains find the stale files under the 1.4.0 location')],
    'C13': [('C07', {'R07.2': 'R13.6', 'R07.4': 'R13.7'},
             'MultiChain.force forces a shared task object once per member chain: Task.force must be repeatable (deletion guarded by exists()), and Chain.force must resolve all names before it forces anything, '
             'else the fan-out stops half-way with some chains forced and others stale')],
}


def run(A, R: Report, prop: str):
    for src_prop, mapping, why in TABLE.get(prop, []):
        mod = importlib.import_module(f'tcverif.rules.{src_prop.lower()}')
        R2 = Report(src_prop, R.tier, quiet=True)
        err = None
        try:
            mod.run(A, R2, False)
        except AnalysisError as e:
            err = str(e)
        for old, new in mapping.items():
            text = R2.rules_text.get(old, old)
            R.rule(new, f'[{src_prop} {old}] {text} - needed here because {why}', floor=0 if err else R2.floors.get(old, 1))
            got = [o for o in R2.obs if o.rule == old]
            if err and not got:
                R.undecided(new, f'{src_prop} {old}', f'the analysis of {src_prop} stopped ({err}); see the check of {src_prop}')
            for o in got:
                R.obs.append(Obligation(new, o.construct, o.status, o.detail, o.witness, o.key, o.nontrivial, o.where))
