"""C13 - a MultiChain is its chains, sharing identical tasks.

R13.1 one registry object, created once, reaches every member chain; every config gets its own chain;
R13.2 Chain adopts the shared registry (also when empty) and hands it to the second pass;
R13.3 registry key = (task identity, storage key) exactly - nothing less (over-sharing) and nothing more (under-sharing);
R13.4 MultiChain.force passes the request unchanged to every chain.
"""
from __future__ import annotations

import ast

from ..model import src
from ..report import Report, key_of
from .c04 import check_registry_reuse
from .common import TRUSTED_BASE, cfg_nodes_for, where


def run(A, R: Report, thorough: bool):
    R.explanation = ('Def-use of the shared registry from MultiChain.__init__ through Chain.__init__ into the second construction pass; structural rules on the member loop and on the '
                     'force fan-out; the registry key of parameter-mode tasks. Member chains otherwise run exactly the code of standalone chains (same constructor), so equality of tasks, '
                     'values and locations with standalone chains is an argument, not a check.')
    R.trusted = TRUSTED_BASE
    mc = A.cls('MultiChain')
    chain = A.cls('Chain')
    finit, fprep = mc.methods.get('__init__'), mc.methods.get('_prepare')
    R.require(finit is not None and fprep is not None, 'anchor: MultiChain.__init__ / _prepare missing')

    # ---- R13.1
    R.rule('R13.1', 'the registry is created once in MultiChain.__init__ and the same attribute is passed to every Chain(...); each config gets its own chain, unconditionally', floor=3)
    reg_stores = [(f, n) for f in mc.methods.values() for n in A.typer.own_nodes(f) if isinstance(n, (ast.Assign, ast.AnnAssign)) and
                  any(isinstance(t, ast.Attribute) and src(t.value) == 'self' and isinstance(getattr(n, 'value', None), (ast.Dict,)) and not n.value.keys for t in (n.targets if isinstance(n, ast.Assign) else [n.target]))]
    ctors = [n for n in A.typer.own_nodes(fprep) if isinstance(n, ast.Call) and src(n.func) == 'Chain']
    R.require(ctors, 'anchor: Chain(...) construction missing in MultiChain._prepare')
    for c in ctors:
        reg = next((src(kw.value) for kw in c.keywords if kw.arg == 'shared_tasks'), src(c.args[1]) if len(c.args) > 1 else None)
        pm = next((src(kw.value) for kw in c.keywords if kw.arg == 'parameter_mode'), src(c.args[2]) if len(c.args) > 2 else None)
        attr = reg.split('.', 1)[1] if reg and reg.startswith('self.') else None
        created_once = attr is not None and sum(1 for f, n in reg_stores if any(src(t) == reg for t in (n.targets if isinstance(n, ast.Assign) else [n.target]))) == 1 and \
            all(f is finit for f, n in reg_stores if any(src(t) == reg for t in (n.targets if isinstance(n, ast.Assign) else [n.target])))
        other_stores = [(f, n) for f in mc.methods.values() for n in A.typer.own_nodes(f) if isinstance(n, ast.Assign) and any(src(t) == reg for t in n.targets) and f is not finit]
        R.check(created_once and not other_stores, 'R13.1', f'MultiChain._prepare: `{src(c)[:60]}`', key_of('registry', reg, created_once, len(other_stores)), f'every chain receives `{reg}` created once in __init__',
                f'member chains do not all receive one registry object (`{reg}`): identical computations are separate objects per chain', where=where(fprep, c))
        R.check(pm == 'self.parameter_mode', 'R13.1', 'MultiChain._prepare: parameter_mode', key_of('pm', pm), 'parameter_mode forwarded', 'parameter_mode is not forwarded to the member chains', where=where(fprep, c))
    loops = [n for n in A.typer.own_nodes(fprep) if isinstance(n, ast.For) and 'configs' in src(n.iter)]
    R.require(loops, 'anchor: loop over the configs missing in MultiChain._prepare')
    for lp in loops:
        stores = [n for n in lp.body if isinstance(n, ast.Assign) and isinstance(n.targets[0], ast.Subscript) and src(n.targets[0].value) == 'self.chains' and isinstance(n.value, ast.Call) and src(n.value.func) == 'Chain']
        conds = [n for n in ast.walk(lp) if isinstance(n, (ast.If, ast.Continue, ast.Break, ast.Try))]
        arg_ok = all(n.value.args and src(n.value.args[0]) == src(lp.target) for n in stores)
        R.check(len(stores) == 1 and not conds and arg_ok, 'R13.1', 'MultiChain._prepare: member loop', key_of('member-loop', len(stores), len(conds), arg_ok), 'one new Chain per config, unconditionally',
                'not every config gets its own freshly built chain (conditional / de-duplicated construction): a member can be another config\'s chain', where=where(fprep, lp))

    # ---- R13.2
    R.rule('R13.2', 'Chain.__init__ keeps the given registry whenever it is not None, and the second pass creates tasks through it', floor=2)
    cinit = chain.methods.get('__init__')
    st = [n for n in A.typer.own_nodes(cinit) if isinstance(n, ast.Assign) and any(src(t) == 'self._task_registry' for t in n.targets)]
    R.require(st, 'anchor: self._task_registry assignment missing in Chain.__init__')
    for n in st:
        v = src(n.value)
        ok = v in ('shared_tasks if shared_tasks is not None else {}', '{} if shared_tasks is None else shared_tasks')
        R.check(ok, 'R13.2', 'Chain.__init__: registry', key_of('adopt', v), 'adopted when not None', f'`{v}`: an empty shared registry (first chain of a MultiChain) is replaced by a private one, so nothing is ever shared', where=where(cinit, n))
    cprep = chain.methods.get('_prepare')
    rc = [n for n in A.typer.own_nodes(cprep) if isinstance(n, ast.Call) and isinstance(n.func, ast.Attribute) and n.func.attr == '_recreate_tasks_with_parameter_config']
    R.require(rc, 'anchor: second pass call missing in Chain._prepare')
    R.check(all(len(c.args) >= 2 and src(c.args[1]) == 'self._task_registry' for c in rc), 'R13.2', 'Chain._prepare: second pass', key_of('second-pass-registry', [src(c) for c in rc]), 'second pass uses the shared registry',
            'the second pass does not create tasks through the shared registry', where=where(cprep, rc[0]))
    frec = A.func('Chain._recreate_tasks_with_parameter_config')
    creates = [n for f in [frec] + list(frec.nested.values()) for n in A.typer.own_nodes(f) if isinstance(n, ast.Call) and isinstance(n.func, ast.Attribute) and n.func.attr == '_create_task']
    R.check(bool(creates) and all(len(c.args) >= 3 and src(c.args[2]) == frec.params[2] for c in creates), 'R13.2', 'Chain._recreate_tasks_with_parameter_config', key_of('create-through-registry'), 'tasks created through the registry parameter',
            'recreated tasks are not created through the registry', where=where(frec))

    # ---- R13.3
    R.rule('R13.3', 'parameter-mode registry key is exactly (task slugname, storage key)', floor=1)
    fct = A.func('Chain._create_task')
    cfg = A.cfg(fct)
    keys = []
    for n in A.typer.own_nodes(fct):
        if isinstance(n, ast.Assign) and any(src(t) == 'key' for t in n.targets):
            for cn in cfg_nodes_for(cfg, n):
                if any('TaskParameterConfig' in src(a) and pol for a, pol in cfg.facts_at(cn.id)):
                    keys.append(n)
    if not keys:
        R.undecided('R13.3', 'Chain._create_task', 'parameter-mode key assignment not recognised', where=where(fct))
    for n in keys:
        elts = [src(e) for e in n.value.elts] if isinstance(n.value, ast.Tuple) else [src(n.value)]
        ok = sorted(elts) == sorted(['task.slugname', 'task.name_for_persistence'])
        R.check(ok, 'R13.3', 'Chain._create_task: parameter-mode key', key_of('key', elts), 'key = (slugname, storage key)',
                f'registry key is {elts}: anything less shares different computations, anything more (config, context, chain) splits identical computations into separate objects', where=where(fct, n))
    check_registry_reuse(A, R, 'R13.3b')

    # ---- R13.4
    R.rule('R13.4', 'MultiChain.force calls chain.force(<the same tasks>, **kwargs) on every chain, unconditionally', floor=1)
    ff = mc.methods.get('force')
    R.require(ff is not None, 'anchor: MultiChain.force missing')
    tparam = ff.params[1]
    loops = [n for n in A.typer.own_nodes(ff) if isinstance(n, ast.For)]
    ok = False
    why = 'no loop over the chains'
    for lp in loops:
        if 'self.chains' not in src(lp.iter):
            continue
        calls = [n for n in lp.body if isinstance(n, ast.Expr) and isinstance(n.value, ast.Call) and isinstance(n.value.func, ast.Attribute) and n.value.func.attr == 'force' and src(n.value.func.value) == src(lp.target)]
        conds = [n for n in ast.walk(lp) if isinstance(n, (ast.If, ast.Continue, ast.Break, ast.Try))]
        if len(calls) == 1 and not conds:
            c = calls[0].value
            same = c.args and src(c.args[0]) == tparam and any(kw.arg is None for kw in c.keywords)
            reassigned = any(isinstance(n, ast.Assign) and any(src(t) == tparam for t in n.targets) for n in A.typer.own_nodes(ff))
            ok = bool(same) and not reassigned and ('.values()' in src(lp.iter) or src(lp.iter) == 'self.chains.values()')
            why = 'the request or its flags are changed on the way' if not ok else ''
        else:
            why = 'the call is conditional or missing'
    R.check(ok, 'R13.4', 'MultiChain.force', key_of('fanout', why), 'every chain forced with the same request', f'MultiChain.force does not reach every chain with the original request ({why}): tasks that differ between the chains stay unforced in some of them', where=where(ff))
