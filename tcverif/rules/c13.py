"""C13 - a MultiChain is its chains, sharing identical tasks.

R13.1 one registry object, created once, reaches every member chain; every config gets its own chain;
R13.2 Chain adopts the shared registry (also when empty) and hands it to the second pass;
R13.3 registry key = (task identity, storage key) exactly - nothing less (over-sharing) and nothing more (under-sharing);
R13.4 MultiChain.force passes the request unchanged to every chain.
"""
from __future__ import annotations

import ast

from ..model import src
from ..report import Report, key_of
from ..terms import normalise, pretty
from .c04 import check_registry_reuse
from .common import TRUSTED_BASE, bound_args, cfg_nodes_for, inl, loop_runs_to_end, loop_unconditional, subst_single_assign, where


STOP_NAMES = ('slugname', 'name_for_persistence', 'repr_name_without_namespace', 'get_name_for_persistence')


def has_task_object(t):
    """the term is the task object constructed from the config in _create_task: <task class>(config)"""
    return t[0] == 'call' and t[1] == 'apply' and len(t[2]) == 2 and t[2][1] == ('p', 'config')


def registry_key_branches(A, parameter_mode=True):
    """Terms of the registry key tested with `in` in Chain._create_task, restricted to TaskParameterConfig configs
    (or, with parameter_mode=False, to plain configs); name/key properties kept as references."""
    fct = A.func('Chain._create_task')
    regs = [p for p in fct.params if 'registry' in p]
    tests = [n.left for n in A.typer.own_nodes(fct) if isinstance(n, ast.Compare) and len(n.ops) == 1 and isinstance(n.ops[0], (ast.In, ast.NotIn)) and regs and src(n.comparators[0]) == regs[0]]
    old = A.sym.stop_at
    A.sym.stop_at = {fi.qualname for fi in A.prog.functions.values() if fi.name in STOP_NAMES}
    try:
        at = A.sym.terms_at(fct, ('inst', A.cls('Chain')), tests)
    finally:
        A.sym.stop_at = old
    out = []
    memo = {}

    def is_tpc(c):
        return c[0] == 'isinst' and c[2] == ('global', 'TaskParameterConfig')

    def restrict(t):
        """the term under the assumption isinstance(config, TaskParameterConfig)"""
        if not isinstance(t, tuple):
            return t
        if id(t) in memo:
            return memo[id(t)][1]
        if t and t[0] == 'cond' and is_tpc(t[1]):
            r = restrict(t[2] if parameter_mode else t[3])
        elif t and t[0] == 'cond' and t[1][0] == 'not' and is_tpc(t[1][1]):
            r = restrict(t[3] if parameter_mode else t[2])
        else:
            r = tuple(restrict(x) for x in t)
        memo[id(t)] = (t, r)
        return r

    for n in tests:
        for t in at[id(n)]:
            r = normalise(restrict(t))
            if r not in out:
                out.append(r)
    return out


def multichain_force_fanout(A):
    """(ok, why): MultiChain.force reaches every member chain, unconditionally, with its own arguments unchanged."""
    mc = A.cls('MultiChain')
    chain = A.cls('Chain')
    ff = mc.methods.get('force')
    if ff is None:
        return False, 'MultiChain.force missing'
    tparam = ff.params[1]
    kwname = ff.node.args.kwarg.arg if ff.node.args.kwarg else None
    cfgf = A.cfg(ff)
    cforce = chain.methods.get('force')
    why = 'no loop over the chains'
    ok = False
    for lp in [n for n in inl(A, ff) if isinstance(n, ast.For)]:
        it = src(lp.iter)
        if 'self.chains' not in it:
            continue
        # the loop variable that holds the chain object / the key
        chain_var = key_var = None
        if it == 'self.chains.values()' and isinstance(lp.target, ast.Name):
            chain_var = lp.target.id
        elif it == 'self.chains.items()' and isinstance(lp.target, ast.Tuple) and len(lp.target.elts) == 2 and isinstance(lp.target.elts[1], ast.Name):
            chain_var = lp.target.elts[1].id
        elif it in ('self.chains', 'self.chains.keys()', 'list(self.chains)', 'sorted(self.chains)', 'list(self.chains.keys())') and isinstance(lp.target, ast.Name):
            key_var = lp.target.id
        else:
            why = f'iteration `{it}` not recognised'
            continue

        def is_chain(e):
            e = subst_single_assign(A, ff, e)
            return (chain_var is not None and src(e) == chain_var) or (key_var is not None and src(e) == f'self.chains[{key_var}]')

        calls = []
        for n in ast.walk(lp):
            if not isinstance(n, ast.Call):
                continue
            fn = subst_single_assign(A, ff, n.func) if isinstance(n.func, ast.Name) else n.func   # bound method held in a local
            if isinstance(fn, ast.Attribute) and fn.attr == 'force' and is_chain(fn.value):
                calls.append(n)
        if len(calls) == 1 and loop_unconditional(cfgf, lp, calls[0]) and loop_runs_to_end(lp):
            c = calls[0]
            ba = bound_args(c, cforce) or {}
            first = ba.get(cforce.params[1]) if cforce is not None and len(cforce.params) > 1 else (c.args[0] if c.args else None)
            # by value: the request itself, or a materialised copy of it (list(tasks), tuple(tasks), [t for t in tasks]) - also through a local
            from ..terms import cond_leaves as _leaves
            tp0 = ('p', tparam)

            def _is_request(leaf):
                if leaf in (tp0, ('call', 'list', (tp0,)), ('call', 'tuple', (tp0,))):
                    return True
                return leaf[0] == 'map' and len(leaf[1]) == 1 and leaf[2] == leaf[1][0] and leaf[3] == tp0 and leaf[4] is None
            alts0 = [leaf for t_ in A.sym.terms_at(ff, ('inst', mc), [first]).get(id(first), []) for leaf in _leaves(t_)] if first is not None else []
            first_is_request = first is not None and (src(first) == tparam or (bool(alts0) and all(_is_request(l_) for l_ in alts0)))
            if kwname is not None:
                same = first_is_request and '**' in ba and src(ba['**']) == kwname and set(ba) <= {cforce.params[1], '**'}
            else:
                # explicit flags: each forwarded to the parameter of the same name
                same = first_is_request and all(isinstance(v, ast.Name) and v.id == k and k in ff.params for k, v in ba.items() if k != cforce.params[1]) \
                    and all(p in ba for p in ff.params[2:])
            stored = {n.id for n in A.typer.own_nodes(ff) if isinstance(n, ast.Name) and isinstance(n.ctx, ast.Store)}
            if tparam in stored and first is not None:
                # the request may be materialised (a one-shot iterable must serve every chain): list(tasks) / tuple(tasks) is still "the same tasks"
                from ..terms import cond_leaves
                tp_ = ('p', tparam)
                alts = [leaf for t_ in A.sym.terms_at(ff, ('inst', mc), [first]).get(id(first), []) for leaf in cond_leaves(t_)]
                if alts and all(_is_request(leaf) for leaf in alts):
                    stored.discard(tparam)
            reassigned = bool(stored & ({tparam, kwname} | set(ff.params[2:]))) or \
                any(isinstance(n, (ast.Subscript, ast.Attribute)) and isinstance(n.ctx, (ast.Store, ast.Del)) and src(n.value) in (tparam, kwname) for n in A.typer.own_nodes(ff))
            ok = bool(same) and not reassigned
            why = 'the request or its flags are changed on the way' if not ok else ''
        else:
            why = 'the call is conditional or missing'
    handlers = [n for n in inl(A, ff) if isinstance(n, ast.ExceptHandler) and not any(isinstance(x, ast.Raise) for st in n.body for x in ast.walk(st))]
    if ok and handlers:
        ok, why = False, f'an exception handler ({src(handlers[0].type) if handlers[0].type is not None else "bare"}) swallows the failure of a member chain: the request returns normally although some chains were not forced'
    return ok, why


def run(A, R: Report, thorough: bool):
    R.explanation = ('Def-use of the shared registry from MultiChain.__init__ through Chain.__init__ into the second construction pass; structural rules on the member loop and on the '
                     'force fan-out; the registry key of parameter-mode tasks. Member chains otherwise run exactly the code of standalone chains (same constructor), so equality of tasks, '
                     'values and locations with standalone chains is an argument, not a check.')
    R.trusted = TRUSTED_BASE
    mc = A.cls('MultiChain')
    chain = A.cls('Chain')
    finit, fprep = mc.methods.get('__init__'), mc.methods.get('_prepare')
    R.require(finit is not None and fprep is not None, 'anchor: MultiChain.__init__ / _prepare missing')

    # ---- R13.1
    R.rule('R13.1', 'the registry is created once in MultiChain.__init__ and the same attribute is passed to every Chain(...); each config gets its own chain, unconditionally', floor=3)
    reg_stores = [(f, n) for f in mc.methods.values() for n in A.typer.own_nodes(f) if isinstance(n, (ast.Assign, ast.AnnAssign)) and
                  any(isinstance(t, ast.Attribute) and src(t.value) == 'self' and isinstance(getattr(n, 'value', None), (ast.Dict,)) and not n.value.keys for t in (n.targets if isinstance(n, ast.Assign) else [n.target]))]
    cinit0 = chain.methods.get('__init__')
    cfgp = A.cfg(fprep)
    loops = [n for n in inl(A, fprep) if isinstance(n, ast.For) and 'configs' in src(n.iter)]
    R.require(loops, 'anchor: loop over the configs missing in MultiChain._prepare')
    member_stores = [n for lp in loops for n in ast.walk(lp) if isinstance(n, ast.Assign) and isinstance(n.targets[0], ast.Subscript) and src(n.targets[0].value) == 'self.chains']
    R.require(member_stores, 'anchor: no store into self.chains in MultiChain._prepare')
    atm = A.sym.terms_at(fprep, ('inst', mc), [n.value for n in member_stores])

    def chain_ctor(t):
        """(positional args, keyword args) when the term is a construction of Chain (directly or through Config.chain)"""
        if t[0] == 'new' and t[1] == 'Chain':
            return list(t[2]), dict(t[3])
        if t[0] == 'call' and t[1].split('.')[-1] == 'Chain':
            return [x for x in t[2] if x[0] != 'kw'], {x[1]: x[2] for x in t[2] if x[0] == 'kw'}
        return None

    pnames = [p_ for p_ in cinit0.params if p_ != 'self']
    for n in member_stores:
        terms = atm.get(id(n.value), [])
        ctors = [chain_ctor(t) for t in terms]
        if not terms or any(c is None for c in ctors):
            fresh = False
            reg = pm = cfg_t = None
        else:
            fresh = True
            pos, kw = ctors[0]
            bound = dict(zip(pnames, pos))
            bound.update(kw)
            reg, pm, cfg_t = bound.get('shared_tasks'), bound.get('parameter_mode'), bound.get('config')
        regs = pretty(reg) if reg is not None else None
        attr = reg[2] if reg is not None and reg[0] == 'attr' and reg[1] == ('self',) else None
        rsrc = f'self.{attr}' if attr else None
        created_once = attr is not None and sum(1 for f, st in reg_stores if any(src(t) == rsrc for t in (st.targets if isinstance(st, ast.Assign) else [st.target]))) == 1 and \
            all(f is finit for f, st in reg_stores if any(src(t) == rsrc for t in (st.targets if isinstance(st, ast.Assign) else [st.target])))
        other_stores = [(f, st) for f in mc.methods.values() for st in A.typer.own_nodes(f) if isinstance(st, ast.Assign) and any(src(t) == rsrc for t in st.targets) and f is not finit]
        R.check(fresh and created_once and not other_stores, 'R13.1', f'MultiChain._prepare: `{src(n.value)[:60]}`', key_of('registry', regs, fresh, created_once, len(other_stores)), f'every chain receives `{regs}` created once in __init__',
                f'member chains do not all receive one registry object (`{regs}`): identical computations are separate objects per chain', witness=[pretty(t)[:200] for t in terms[:2]], where=where(fprep, n))
        R.check(pm == ('attr', ('self',), 'parameter_mode'), 'R13.1', 'MultiChain._prepare: parameter_mode', key_of('pm', pretty(pm) if pm is not None else None), 'parameter_mode forwarded',
                f'the MultiChain\'s parameter_mode is not forwarded to the member chains (they are built with `{pretty(pm) if pm is not None else "the default"}`): members store and share differently from the standalone chains of that mode', where=where(fprep, n))
    for lp in loops:
        stores = [n for n in member_stores if any(x is n for x in ast.walk(lp))]
        uncond = all(loop_unconditional(cfgp, lp, n) for n in stores) and loop_runs_to_end(lp)
        arg_ok = True
        for n in stores:
            for t in atm.get(id(n.value), []):
                c = chain_ctor(t)
                first = (c[0][0] if c and c[0] else (c[1].get('config') if c else None))
                arg_ok = arg_ok and first is not None and first[0] == 'var'
        rebound = any(isinstance(x, ast.Name) and isinstance(x.ctx, ast.Store) and isinstance(lp.target, ast.Name) and x.id == lp.target.id for st in lp.body for x in ast.walk(st))
        R.check(len(stores) == 1 and uncond and arg_ok and not rebound, 'R13.1', 'MultiChain._prepare: member loop', key_of('member-loop', len(stores), uncond, arg_ok), 'one new Chain per config, unconditionally',
                'not every config gets its own freshly built chain (conditional / de-duplicated construction): a member can be another config\'s chain', where=where(fprep, lp))

    # ---- R13.2
    R.rule('R13.2', 'Chain.__init__ keeps the given registry whenever it is not None, and the second pass creates tasks through it', floor=2)
    cinit = chain.methods.get('__init__')
    st = [n for n in A.typer.own_nodes(cinit) if isinstance(n, ast.Assign) and any(src(t) == 'self._task_registry' for t in n.targets)]
    R.require(st, 'anchor: self._task_registry assignment missing in Chain.__init__')
    for n in st:
        v = src(n.value)
        ok = v in ('shared_tasks if shared_tasks is not None else {}', '{} if shared_tasks is None else shared_tasks')
        R.check(ok, 'R13.2', 'Chain.__init__: registry', key_of('adopt', v), 'adopted when not None', f'`{v}`: an empty shared registry (first chain of a MultiChain) is replaced by a private one, so nothing is ever shared', where=where(cinit, n))
    cprep = chain.methods.get('_prepare')
    rc = [n for n in A.typer.own_nodes(cprep) if isinstance(n, ast.Call) and isinstance(n.func, ast.Attribute) and n.func.attr == '_recreate_tasks_with_parameter_config']
    R.require(rc, 'anchor: second pass call missing in Chain._prepare')
    R.check(all(len(c.args) >= 2 and src(c.args[1]) == 'self._task_registry' for c in rc), 'R13.2', 'Chain._prepare: second pass', key_of('second-pass-registry', [src(c) for c in rc]), 'second pass uses the shared registry',
            'the second pass does not create tasks through the shared registry', where=where(cprep, rc[0]))
    frec = A.func('Chain._recreate_tasks_with_parameter_config')
    creates = [n for f in [frec] + list(frec.nested.values()) for n in A.typer.own_nodes(f) if isinstance(n, ast.Call) and isinstance(n.func, ast.Attribute) and n.func.attr == '_create_task']
    R.check(bool(creates) and all(len(c.args) >= 3 and src(c.args[2]) == frec.params[2] for c in creates), 'R13.2', 'Chain._recreate_tasks_with_parameter_config', key_of('create-through-registry'), 'tasks created through the registry parameter',
            'recreated tasks are not created through the registry', where=where(frec))

    # ---- R13.3
    R.rule('R13.3', 'parameter-mode registry key is exactly (task slugname, storage key)', floor=1)
    fct = A.func('Chain._create_task')
    branches = registry_key_branches(A)
    if not branches:
        R.undecided('R13.3', 'Chain._create_task', 'parameter-mode key not recognised', where=where(fct))
    for t in branches:
        ok = t[0] == 'tuple' and len(t[1]) == 2 and any(
            a[0] == 'attr' and a[2] == 'slugname' and b[0] == 'ref' and b[1].endswith('.name_for_persistence') and b[2] == a[1] and has_task_object(a[1])
            for a, b in (t[1], t[1][::-1]))
        R.check(ok, 'R13.3', 'Chain._create_task: parameter-mode key', key_of('key', pretty(t)[:160]), 'key = (slugname, storage key) of the new task',
                f'registry key is {pretty(t)[:200]}: anything less shares different computations, anything more (config, context, chain) splits identical computations into separate objects',
                witness=[pretty(t)[:300]], where=where(fct))
    # name mode: tasks of two configs are the same computation only if they come from the same config *file*
    R.rule('R13.3e', 'name-mode registry key names the config by its file (repr_name), not only by its name', floor=1)
    nb = registry_key_branches(A, parameter_mode=False)
    if not nb:
        R.undecided('R13.3e', 'Chain._create_task', 'name-mode key not recognised', where=where(fct))
    for t in nb:
        from ..terms import contains
        by_file = contains(t, lambda x: isinstance(x, tuple) and x and x[0] in ('ref', 'attr') and any(isinstance(y, str) and y.split('.')[-1] in ('repr_name', 'repr_name_without_namespace', '_filepath') for y in x[1:3]))
        ident = t[0] == 'tuple' and any(a[0] == 'attr' and a[2] == 'slugname' for a in t[1])
        R.check(by_file and ident, 'R13.3e', 'Chain._create_task: name-mode key', key_of('name-key', pretty(t)[:160]), 'key = (slugname, config file)',
                f'name-mode registry key is {pretty(t)[:200]}: configs with the same file name in different directories (exp1/model.json, exp2/model.json) share one task object although their parameters differ',
                witness=[pretty(t)[:300]], where=where(fct))
    check_registry_reuse(A, R, 'R13.3b')
    # the storage key doubles as the sharing key: it must chain every input (else different computations share one object)
    from .c01 import check_input_map
    from .keyterm import KeyTerms
    R.rule('R13.3c', 'the storage key used for sharing covers every Task-valued input of the task', floor=1)
    check_input_map(A, R, 'R13.3c', KeyTerms(A))
    from .c01 import check_parameter_copy
    R.rule('R13.3d', 'the per-task parameter config (source of the sharing key) copies every declared parameter under the name it is looked up by', floor=1)
    check_parameter_copy(A, R, 'R13.3d')

    # ---- R13.4
    R.rule('R13.4', 'MultiChain.force calls chain.force(<the same tasks>, **kwargs) on every chain, unconditionally', floor=1)
    ff = mc.methods.get('force')
    R.require(ff is not None, 'anchor: MultiChain.force missing')
    ok, why = multichain_force_fanout(A)
    R.check(ok, 'R13.4', 'MultiChain.force', key_of('fanout', why), 'every chain forced with the same request', f'MultiChain.force does not reach every chain with the original request ({why}): tasks that differ between the chains stay unforced in some of them', where=where(ff))

    from .c03 import check_lossless_encoding
    from .keyterm import KeyTerms as _KT
    R.rule('R13.9', 'the sharing key is a hash of the whole key text: the text is encoded losslessly (configs differing only in non-ASCII characters of a value must not share a task object)', floor=1)
    check_lossless_encoding(A, R, 'R13.9', _KT(A))

