"""Helpers shared by the per-property rule modules."""
from __future__ import annotations

import ast
from typing import Callable, Iterable, List, Optional, Tuple

from ..callgraph import Edge, show_path
from ..cfg import CFG, Node
from ..core import Analysis
from ..effects import Effects, Event
from ..model import AnalysisError, ClassInfo, FuncInfo, _dotted, src
from ..types import Ctx

TRUSTED_BASE = [
    'CPython ast parser',
    'Python evaluation order / MRO semantics as modelled by tcverif (model.py, types.py, cfg.py)',
    'primitive-effect and API-semantics tables of tcverif/effects.py (os.replace / same-directory shutil.move are atomic renames; open(mode w/a/x/+) creates or truncates)',
]


def effects_of(A: Analysis) -> Effects:
    e = getattr(A, '_effects', None)
    if e is None:
        e = A._effects = Effects(A.typer, A.sym)
    return e


def where(func: FuncInfo, node=None) -> str:
    ln = getattr(node, 'lineno', None) or func.node.lineno
    return f'{func.module.relpath}:{ln} ({func.short})'


def own_calls(A: Analysis, func: FuncInfo) -> List[ast.Call]:
    return [n for n in A.typer.own_nodes(func) if isinstance(n, ast.Call)]


def calls_named(A: Analysis, func: FuncInfo, name: str) -> List[ast.Call]:
    """Calls `x.name(...)` or `name(...)` in func's own body."""
    out = []
    for c in own_calls(A, func):
        if isinstance(c.func, ast.Attribute) and c.func.attr == name:
            out.append(c)
        elif isinstance(c.func, ast.Name) and c.func.id == name:
            out.append(c)
    return out


def is_run_edge(A: Analysis) -> Callable[[Edge], bool]:
    task = A.cls('Task')
    run = task.methods.get('run')
    if run is None:
        raise AnalysisError('anchor Task.run not found')

    def goal(e: Edge) -> bool:
        return e.kind != 'callback' and e.target.kind == 'func' and e.target.func.name == 'run' and e.target.func.cls is not None \
            and (e.target.func is run or e.target.func.cls.is_subclass_of(task))
    return goal


def fact_texts(cfg: CFG, node_id: int) -> List[Tuple[str, bool]]:
    return [(src(a), pol) for a, pol in cfg.facts_at(node_id)]


def cfg_nodes_for(cfg: CFG, ast_node) -> List[Node]:
    reach = cfg.reachable_nodes()
    return [n for n in cfg.nodes_containing(ast_node) if n.id in reach]


def normal_succ(cfg: CFG, nid: int) -> List[int]:
    return [v for v in cfg.g.successors(nid) if cfg.g[nid][v]['labels'] != ['exc']]


def names_in(node) -> set:
    return {n.id for n in ast.walk(node) if isinstance(n, ast.Name)}


def attr_chain(node) -> Optional[str]:
    return _dotted(node)


def subst_single_assign(A: Analysis, func: FuncInfo, expr, identity=False):
    """If expr is a Name bound by exactly one plain assignment in func (or, for a free variable of a nested function,
    in the enclosing function that binds it), return that value expression (else expr).  identity=True: the question is
    *which object* the name is bound to (where it came from), so later in-place changes of that object do not matter."""
    seen = 0
    while isinstance(expr, ast.Name) and seen < 5:
        f = func
        defs = None
        while f is not None:
            d = A.sym._local_defs(f).get(expr.id)
            if d or expr.id in f.params:
                defs = d if expr.id not in f.params else None
                break
            f = f.parent
        if defs and any(d_[0] == 'mut' for d_ in defs):
            # changed in place after its definition: the name still *is* what an alias-like definition denotes
            # (`log = self._run_info['log']; log.append(x)`), but not what a constructing one evaluates to (`d = deepcopy(a); d.update(b)`)
            rest_ = [d_ for d_ in defs if d_[0] != 'mut']
            if len(rest_) == 1 and rest_[0][0] == 'assign' and (identity or isinstance(rest_[0][1], (ast.Attribute, ast.Subscript, ast.Name))):
                defs = rest_
        if not defs or len(defs) != 1 or defs[0][0] != 'assign':
            break
        v = defs[0][1]
        if (isinstance(v, (ast.Dict, ast.List, ast.Set)) and not (getattr(v, 'keys', None) or getattr(v, 'elts', None))) or \
                (isinstance(v, ast.Call) and src(v.func) in ('dict', 'list', 'set', 'defaultdict', 'OrderedDict') and all(src(a_) in ('dict', 'list', 'set') for a_ in v.args) and not v.keywords):
            break   # an empty container that is filled later: the name, not its initial value, is what later code talks about
        expr = v
        seen += 1
    return expr


def conjuncts(expr, positive=True) -> List[Tuple[ast.AST, bool]]:
    """Flatten a condition into (leaf, polarity) conjuncts that must all hold when expr evaluates to `positive`."""
    if isinstance(expr, ast.UnaryOp) and isinstance(expr.op, ast.Not):
        return conjuncts(expr.operand, not positive)
    if isinstance(expr, ast.Call) and isinstance(expr.func, ast.Name) and expr.func.id == 'bool' and len(expr.args) == 1 and not expr.keywords:
        return conjuncts(expr.args[0], positive)
    if isinstance(expr, ast.BoolOp):
        if (isinstance(expr.op, ast.And) and positive) or (isinstance(expr.op, ast.Or) and not positive):
            out = []
            for v in expr.values:
                out += conjuncts(v, positive)
            return out
        return [(expr, positive)]
    return [(expr, positive)]


def expanded_facts(A: Analysis, func: FuncInfo, cfg: CFG, node_id: int) -> List[Tuple[ast.AST, bool]]:
    """Branch facts at a node, with single-assignment boolean locals replaced by the conjuncts of their definition."""
    out = []
    for a, pol in cfg.facts_at(node_id):
        e = subst_single_assign(A, func, a)
        if e is not a:
            out.extend(conjuncts(e, pol))
        else:
            out.append((a, pol))
    return out


def inl(A: Analysis, func: FuncInfo) -> List[ast.AST]:
    """AST nodes of func and of the private helpers it calls as statements (see Analysis.nodes)."""
    return [n for n, _ in A.nodes(func)]


def owner_of(A: Analysis, func: FuncInfo, node) -> FuncInfo:
    for n, o in A.nodes(func):
        if n is node:
            return o
    return func


def bound_args(call: ast.Call, callee: Optional[FuncInfo], skip_self=True) -> Optional[dict]:
    """{parameter name: argument expression} of a call against the callee's signature (positional and keyword);
    None if the call uses *args / **kwargs that cannot be bound.  `**name` entries are returned under '**'."""
    if callee is None:
        return None
    params = list(callee.params)
    if skip_self and callee.cls is not None and not callee.is_static and params:
        params = params[1:]
    out = {}
    for i, a in enumerate(call.args):
        if isinstance(a, ast.Starred):
            out['*'] = a.value
            continue
        if i < len(params):
            out[params[i]] = a
    for kw in call.keywords:
        if kw.arg is None:
            out['**'] = kw.value
        else:
            out[kw.arg] = kw.value
    return out


def loop_unconditional(cfg: CFG, loop_ast, node_ast) -> bool:
    """Every normal (non-exception) iteration of the loop evaluates node_ast: no path from the loop's body entry back
    to the loop head, or out of the loop, that avoids it."""
    heads = [n for n in cfg.nodes.values() if n.kind == 'for' and n.ast is loop_ast]
    targets = {n.id for n in cfg_nodes_for(cfg, node_ast)}
    if not heads or not targets:
        return False
    allnodes = list(cfg.nodes)
    for h in heads:
        starts = cfg.succ_by_label(h.id, 'loop')
        outs = set(cfg.succ_by_label(h.id, 'done')) | {h.id, cfg.exit.id}
        if cfg.find_path(starts, outs, avoid=targets, no_exc_from=allnodes) is not None:
            return False
    return True


def loop_runs_to_end(loop_ast) -> bool:
    """No `break` of this loop and no `return` in its body: every element of the iterable is visited (barring exceptions)."""
    def walk(n, own):
        for c in ast.iter_child_nodes(n):
            if isinstance(c, (ast.FunctionDef, ast.AsyncFunctionDef, ast.Lambda, ast.ClassDef)):
                continue
            if isinstance(c, ast.Return):
                return False
            if isinstance(c, ast.Break) and own:
                return False
            if not walk(c, own and not isinstance(c, (ast.For, ast.AsyncFor, ast.While))):
                return False
        return True
    return all(walk(st, True) if not isinstance(st, (ast.Return, ast.Break)) else False for st in loop_ast.body)


def _path_without_assignment(cfg: CFG, starts, reads, assigning) -> bool:
    """A path from `starts` to `reads` on which no node of `assigning` completes: such a node may only be left through its
    exception edge (the statement failed before it stored)."""
    from collections import deque
    q = deque(starts)
    seen = set(starts)
    while q:
        u = q.popleft()
        if u in reads and u not in assigning:
            return True
        for v in cfg.g.successors(u):
            if v in seen:
                continue
            if u in assigning and cfg.g[u][v]['labels'] != ['exc']:
                continue
            seen.add(v)
            q.append(v)
    return False


def loop_carried(cfg: CFG, loop_ast, func_node=None):
    """Reads inside the loop body that can see what an *earlier iteration* (or the code before the loop) left in a local
    which the body itself assigns: [(name, read node, assigning statements)].  A path leads from the body entry to the
    read that passes none of the body's assignments of the name.  Not reported: in-place accumulators (`x += ..`,
    `x = f(x)`), and names that are read again after the loop (search results / collected values are meant to be carried)."""
    heads = [n for n in cfg.nodes.values() if n.kind == 'for' and n.ast is loop_ast]
    if not heads:
        return []

    def walk(n, hidden=frozenset()):
        for c in ast.iter_child_nodes(n):
            if isinstance(c, (ast.FunctionDef, ast.AsyncFunctionDef, ast.Lambda, ast.ClassDef)):
                continue
            if isinstance(c, (ast.ListComp, ast.SetComp, ast.DictComp, ast.GeneratorExp)):
                # a comprehension has its own scope: the names its generators bind are not the loop's locals
                own = {x.id for g in c.generators for x in ast.walk(g.target) if isinstance(x, ast.Name)}
                for x in walk(c, hidden | own):
                    yield x
                continue
            if isinstance(c, ast.Name) and c.id in hidden:
                continue
            if isinstance(c, ast.comprehension):
                yield from walk(c, hidden)
                continue
            yield c
            yield from walk(c, hidden)

    body = [x for st in loop_ast.body for x in [st] + list(walk(st))]
    assigns = {}
    selfref = set()
    for st in body:
        tgts = []
        if isinstance(st, ast.Assign):
            tgts = st.targets
        elif isinstance(st, ast.AnnAssign) and st.value is not None:
            tgts = [st.target]
        elif isinstance(st, ast.NamedExpr):
            tgts = [st.target]
        elif isinstance(st, (ast.For, ast.AsyncFor)):
            tgts = [st.target]
        elif isinstance(st, ast.AugAssign) and isinstance(st.target, ast.Name):
            selfref.add(st.target.id)
        elif isinstance(st, ast.ExceptHandler) and st.name:
            assigns.setdefault(st.name, []).append(st)
        elif isinstance(st, (ast.With, ast.AsyncWith)):
            tgts = [i.optional_vars for i in st.items if i.optional_vars is not None]
        for t in tgts:
            for x in ast.walk(t):
                if isinstance(x, ast.Name) and isinstance(x.ctx, ast.Store):
                    assigns.setdefault(x.id, []).append(st)
                    val = getattr(st, 'value', None)
                    if val is not None and any(isinstance(y, ast.Name) and y.id == x.id for y in ast.walk(val)):
                        selfref.add(x.id)
    end = max(getattr(st, 'end_lineno', st.lineno) for st in loop_ast.body)      # the else clause runs after the last iteration
    after = set()
    if func_node is not None:
        for x in ast.walk(func_node):
            if isinstance(x, ast.Name) and isinstance(x.ctx, ast.Load) and x.lineno > end:
                after.add(x.id)
    out = []
    seen = set()
    # flags toggled by constants (`first = False`) are meant to be carried
    toggles = {v for v, sts in assigns.items() if all(isinstance(st, (ast.Assign, ast.AnnAssign)) and isinstance(st.value, ast.Constant) for st in sts)}
    for x in body:
        if not (isinstance(x, ast.Name) and isinstance(x.ctx, ast.Load) and x.id in assigns) or x.id in selfref or x.id in after or x.id in toggles:
            continue
        avoid = {n.id for st in assigns[x.id] for n in cfg_nodes_for(cfg, st)} | {n.id for st in assigns[x.id] if isinstance(st, (ast.For, ast.AsyncFor, ast.ExceptHandler)) for n in cfg.nodes.values() if n.kind in ('for', 'handler') and n.ast is st}
        reads = {n.id for n in cfg_nodes_for(cfg, x)} - avoid
        if not reads:
            continue
        for h in heads:
            starts = [s_ for s_ in cfg.succ_by_label(h.id, 'loop')]
            if starts and _path_without_assignment(cfg, starts, reads, avoid) and (x.id, x.lineno) not in seen:
                seen.add((x.id, x.lineno))
                out.append((x.id, x, assigns[x.id]))
    return out


def src_resolved(A: Analysis, func: FuncInfo, expr, depth=3) -> str:
    """Source text of expr with every single-assignment local replaced by its defining expression (recursively): text
    matching that does not depend on intermediate locals."""
    import copy
    key = (id(func.node), id(expr), depth)
    hit = _SRC_RESOLVED.get(key)
    if hit is not None and hit[0] is expr:
        return hit[1]
    if not any(isinstance(x, ast.Name) and isinstance(x.ctx, ast.Load) and subst_single_assign(A, func, x) is not x for x in ast.walk(expr)):
        _SRC_RESOLVED[key] = (expr, src(expr))
        return _SRC_RESOLVED[key][1]

    class T(ast.NodeTransformer):
        def __init__(self, d):
            self.d = d

        def visit_Name(self, node):
            if isinstance(node.ctx, ast.Load) and self.d > 0:
                e = subst_single_assign(A, func, node)
                if e is not node:
                    return T(self.d - 1).visit(copy.deepcopy(e))
            return node

    try:
        out = src(T(depth).visit(copy.deepcopy(expr)))
    except Exception:
        out = src(expr)
    _SRC_RESOLVED[key] = (expr, out)
    return out


_SRC_RESOLVED: dict = {}


def facts_text(A: Analysis, func: FuncInfo, cfg: CFG, node_id: int) -> List[Tuple[str, bool]]:
    """Branch facts at a node as (source text with single-assignment locals resolved in the function that owns the
    test - the function itself or an inlined helper -, polarity)."""
    out = []
    for a, pol, owner in cfg.facts_owned(node_id):
        f = getattr(owner, '_info', None) or func
        out.append((src_resolved(A, f, a), pol))
    return out


def resolve_expr(A: Analysis, root: FuncInfo, e, owner: FuncInfo, sites, keep=(), depth=0):
    """Expression of an (inlined) helper rewritten in the caller's terms: helper parameters become the arguments at the
    call site, single-assignment locals their definitions (names in `keep` are left alone)."""
    if depth > 5 or not isinstance(e, ast.Name):
        return e
    if owner is not root and sites and e.id in owner.params:
        call = sites[-1]
        skip = owner.cls is not None and not owner.is_static and owner.parent is None and isinstance(call.func, ast.Attribute)
        ba = bound_args(call, owner, skip_self=skip) or {}
        if e.id in ba:
            # the argument is written in the function that contains the call site
            caller = root
            for n, o, s_ in A.nodes_with_sites(root):
                if n is call:
                    caller = o
                    break
            return resolve_expr(A, root, ba[e.id], caller, sites[:-1], keep, depth + 1)
        return e
    if owner is root and e.id in keep:
        return e
    e2 = subst_single_assign(A, owner, e)
    if e2 is not e:
        return resolve_expr(A, root, e2, owner, sites, keep, depth + 1)
    return e


def check_iteration_independence(A: Analysis, R, rid: str, funcs, why: str):
    """Every loop of the given functions: an iteration reads no local left behind by an earlier iteration (see loop_carried)."""
    n = 0
    allf = []
    for f in funcs:
        if f is None:
            continue
        allf.append(f)
        stack = list(f.nested.values())
        while stack:
            g = stack.pop()
            allf.append(g)
            stack.extend(g.nested.values())
    for f in allf:
        cfg = A.cfg(f, inline=False)
        for lp in [x for x in A.typer.own_nodes(f) if isinstance(x, (ast.For, ast.AsyncFor))]:
            n += 1
            carried = loop_carried(cfg, lp, f.node)
            names = sorted({v for v, _, _ in carried})
            from ..report import key_of
            R.check(not carried, rid, f'{f.short}: `for {src(lp.target)[:30]} in {src(lp.iter)[:40]}`', key_of('carried', f.short, names), 'each iteration defines the locals it reads',
                    f'`{", ".join(names)}` can still hold the value of an earlier iteration when it is read at line {carried[0][1].lineno if carried else 0}: {why}', where=where(f, carried[0][1] if carried else lp))
    return n


def first_pass_registry(A: Analysis, fprep: FuncInfo, call: ast.Call) -> str:
    """What `_create_tasks(task_registry=...)` receives in Chain._prepare when the chain is in parameter mode: 'None', or the
    pretty-printed term.  Decided on the term of the argument under the assumption `self._parameter_mode` is true, so the
    test may be written either way round, through locals, or as an if statement."""
    from ..terms import assume, pretty
    arg = next((kw.value for kw in call.keywords if kw.arg == 'task_registry'), call.args[0] if call.args else None)
    if arg is None:
        return 'None'
    chain = A.cls('Chain')
    ts = A.sym.terms_at(fprep, ('inst', chain), [arg]).get(id(arg), [])
    if not ts:
        return src(arg)

    def decide(c):
        if c == ('attr', ('self',), '_parameter_mode'):
            return True
        if c[0] == 'cmp' and c[2] == ('attr', ('self',), '_parameter_mode') and c[3] in (('lit', True), ('lit', False)):
            return (c[3][1] is True) == (c[1] in ('Is', 'Eq'))
        return None

    vals = {pretty(assume(t, decide)) for t in ts}
    if vals <= {'None'}:
        return 'None'
    return sorted(vals - {'None'})[0]


def returns_constant_from(cfg: CFG, start_ids, const) -> Optional[bool]:
    """Every way from the given nodes to a return of the function returns the constant `const` - written directly, or
    through a local that was assigned the constant on the way (and not reassigned before the return).  None: no return reachable."""
    import networkx as nx
    starts = list(start_ids)
    reach = set(starts)
    for s_ in starts:
        reach |= nx.descendants(cfg.g, s_)
    rets = [n for n in cfg.nodes.values() if n.id in reach and n.kind == 'stmt' and isinstance(n.ast, ast.Return)]
    if not rets:
        return None
    for r in rets:
        v = r.ast.value
        if isinstance(v, ast.Constant) and v.value is const:
            continue
        if not isinstance(v, ast.Name):
            return False
        assigns = [n for n in cfg.nodes.values() if n.kind == 'stmt' and isinstance(n.ast, (ast.Assign, ast.AnnAssign, ast.AugAssign)) and
                   any(isinstance(x, ast.Name) and x.id == v.id and isinstance(x.ctx, ast.Store) for x in ast.walk(n.ast))]
        good = [n for n in assigns if n.id in reach and isinstance(n.ast, (ast.Assign, ast.AnnAssign)) and isinstance(n.ast.value, ast.Constant) and n.ast.value.value is const]
        bad = [n.id for n in assigns if n not in good]
        # every path from the start to the return passes a good assignment, and after it no other assignment
        if not good or cfg.find_path(starts, [r.id], avoid=[n.id for n in good]) is not None:
            return False
        for g_ in good:
            mid = [b for b in bad if cfg.path_exists([g_.id], [b]) and cfg.path_exists([b], [r.id])]
            if mid and cfg.find_path([g_.id], [r.id], avoid=bad) is None:
                return False
            if mid:
                # some path from the good assignment reaches the return through a reassignment
                for b in mid:
                    if cfg.find_path([g_.id], [b], avoid=[x for x in bad if x != b]) is not None:
                        return False
    return True


_CONSUMERS = {'list', 'tuple', 'set', 'frozenset', 'sorted', 'sum', 'min', 'max', 'any', 'all', 'dict', 'iter', 'next', 'reversed', 'Counter', 'deque', 'array', 'asarray'}
_WRAPPERS = {'enumerate', 'zip', 'map', 'filter', 'tqdm', 'progress_bar', 'chain', 'islice', 'chunked', 'iter'}


def consumption_sites(A: Analysis, func: FuncInfo, name: str, depth: int = 1):
    """AST nodes at which the iterable held by local / parameter `name` is (partly) consumed: a loop or comprehension over it,
    a collecting builtin, iter()/next() - directly or through lazy wrappers (enumerate, zip, tqdm, progress_bar, ...).  For a
    one-shot iterator (a generator handed in by the caller) every site sees only what the earlier ones left."""
    aliases = {name}
    nodes = list(A.typer.own_nodes(func))
    changed = True

    def wraps(e):
        if isinstance(e, ast.Name):
            return e.id in aliases
        if isinstance(e, ast.Call):
            fn = src(e.func).split('.')[-1]
            if fn in _WRAPPERS:
                return any(wraps(a) for a in e.args)
        return False

    while changed:
        changed = False
        for n in nodes:
            if isinstance(n, ast.Assign) and len(n.targets) == 1 and isinstance(n.targets[0], ast.Name) and n.targets[0].id not in aliases and wraps(n.value) and \
                    not (isinstance(n.value, ast.Call) and src(n.value.func).split('.')[-1] in _CONSUMERS - {'iter'}):
                aliases.add(n.targets[0].id)
                changed = True
    sites = []
    for n in nodes:
        if isinstance(n, (ast.For, ast.AsyncFor)) and wraps(n.iter):
            sites.append(n)
        elif isinstance(n, ast.comprehension) and wraps(n.iter):
            sites.append(n)
        elif isinstance(n, ast.Call):
            fn = src(n.func).split('.')[-1]
            if fn in _CONSUMERS - {'iter'} and n.args and wraps(n.args[0]) and not (fn == 'next' and isinstance(n.args[0], ast.Name) and False):
                sites.append(n)
            elif fn == 'join' and n.args and wraps(n.args[0]):
                sites.append(n)
        elif isinstance(n, ast.Starred) and wraps(n.value):
            sites.append(n)
        if isinstance(n, ast.Call) and depth > 0 and n not in sites and src(n.func).split('.')[-1] not in _CONSUMERS | _WRAPPERS:
            # handed to a function of the package that iterates the corresponding parameter
            passed = [i for i, a in enumerate(n.args) if wraps(a)] + [kw.arg for kw in n.keywords if kw.arg and wraps(kw.value)]
            if passed:
                from ..types import Ctx as _Ctx
                for tg in A.typer.call_targets(n, _Ctx(func, None))[:3]:
                    g = tg.func if tg.kind == 'func' else None
                    if g is None or g is func:
                        continue
                    ba = bound_args(n, g) or {}
                    for pn, av in ba.items():
                        if isinstance(pn, str) and pn in g.params and wraps(av) and consumption_sites(A, g, pn, depth - 1):
                            sites.append(n)
                            break
                    if n in sites:
                        break
    return sites


def consumed_more_than_once(A: Analysis, func: FuncInfo, name: str):
    """(first site, second site) if some execution consumes the iterable twice (a path leads from one consumption site to
    another, or a site that does not exhaust it - next() - is followed by one), else None."""
    cfg = A.cfg(func, inline=False)
    sites = consumption_sites(A, func, name)
    # `name = list(name)` (tuple / sorted / set): from there on the name holds a re-iterable collection; paths on which a type test
    # found the value to be a single object (isinstance(name, ...) / type(name) is ... true) do not carry an iterator at all
    mat = [n for n in A.typer.own_nodes(func) if isinstance(n, ast.Assign) and len(n.targets) == 1 and isinstance(n.targets[0], ast.Name) and n.targets[0].id == name and
           isinstance(n.value, (ast.Call, ast.List, ast.Tuple, ast.ListComp)) and (not isinstance(n.value, ast.Call) or src(n.value.func) in ('list', 'tuple', 'sorted', 'set', 'frozenset'))]
    safe = {c.id for m_ in mat for c in cfg_nodes_for(cfg, m_)}
    for c in cfg.nodes.values():
        if c.kind == 'edge' and c.label == 'T' and c.ast is not None:
            t_ = src(c.ast)
            if t_.startswith(f'isinstance({name},') or t_.startswith(f'type({name}) is ') or t_.startswith(f'type({name}) =='):
                safe.add(c.id)
    if safe:
        sites = [st for st in sites if not (isinstance(st, ast.Call) and any(st is m_.value for m_ in mat))]
        live = []
        for st in sites:
            sid = [c.id for c in (cfg.nodes.values() if isinstance(st, (ast.For, ast.AsyncFor)) else cfg_nodes_for(cfg, st)) if (c.kind == 'for' and c.ast is st) or not isinstance(st, (ast.For, ast.AsyncFor))]
            if not sid or cfg.find_path([cfg.entry.id], sid, avoid=safe) is not None:
                live.append(st)
        sites = live

    def ids(n):
        if isinstance(n, ast.comprehension):
            par = getattr(n, '_parent', None)
            return [c.id for c in cfg_nodes_for(cfg, par)] if par is not None else []
        if isinstance(n, (ast.For, ast.AsyncFor)):
            return [c.id for c in cfg.nodes.values() if c.kind == 'for' and c.ast is n]
        return [c.id for c in cfg_nodes_for(cfg, n)]
    # uses of the same (not rebound) name inside nested functions: the closure consumes what the enclosing function left
    nested_sites = []
    stack = list(func.nested.values())
    while stack:
        g = stack.pop()
        stack.extend(g.nested.values())
        if name in g.params or any(isinstance(x, ast.Name) and x.id == name and isinstance(x.ctx, ast.Store) for x in A.typer.own_nodes(g)):
            continue
        gs = consumption_sites(A, g, name, depth=0)
        if not gs:
            continue
        # where the enclosing function uses the closure (calls it / hands it on): reached after one of its own consumption sites?
        refs = [x for x in A.typer.own_nodes(func) if isinstance(x, ast.Name) and isinstance(x.ctx, ast.Load) and x.id == g.name]
        ref_ids = [c.id for r_ in refs for c in cfg_nodes_for(cfg, r_)]
        for a in sites:
            aid = [c.id for c in cfg.nodes.values() if c.kind == 'for' and c.ast is a] if isinstance(a, (ast.For, ast.AsyncFor)) else \
                [c.id for c in cfg_nodes_for(cfg, getattr(a, '_parent', a) if isinstance(a, ast.comprehension) else a)]
            if aid and ref_ids and cfg.find_path([s_ for x in aid for s_ in cfg.g.successors(x)], ref_ids) is not None:
                return a, gs[0]
    for a in sites:
        # one site that runs once per iteration of a loop around it
        anchor = a if not isinstance(a, ast.comprehension) else getattr(a, '_parent', a)
        p_ = getattr(anchor, '_parent', None)
        while p_ is not None and not isinstance(p_, (ast.FunctionDef, ast.AsyncFunctionDef, ast.Lambda)):
            if isinstance(p_, (ast.For, ast.AsyncFor, ast.While)) and p_ is not a:
                return p_, a
            p_ = getattr(p_, '_parent', None)
    for i, a in enumerate(sites):
        for j, b in enumerate(sites):
            if i == j:
                continue
            ia, ib = ids(a), ids(b)
            if ia and ib and (set(ia) & set(ib) or cfg.find_path([s_ for x in ia for s_ in cfg.g.successors(x)], ib) is not None):
                if (getattr(a, 'lineno', 0), getattr(a, 'col_offset', 0)) <= (getattr(b, 'lineno', 0), getattr(b, 'col_offset', 0)) or not (set(ia) & set(ib)):
                    return a, b
    return None


_LAZY = {'map', 'filter', 'zip', 'iter', 'enumerate', 'reversed', 'chain', 'islice', 'iglob', 'glob', 'iterdir', 'scandir', 'items_iter'}


def oneshot_reuse(A: Analysis, func: FuncInfo):
    """Locals bound once to a one-shot iterator (generator expression, map / filter / zip / iter / enumerate ... object) that
    some execution consumes more than once: consumed at two sites connected by a path, or at a site inside a loop the
    iterator was created outside of (the second iteration of that loop finds it exhausted).  [(name, defining node, site)]"""
    out = []
    defs = {}
    for n in A.typer.own_nodes(func):
        if isinstance(n, ast.Assign) and len(n.targets) == 1 and isinstance(n.targets[0], ast.Name):
            v = n.value
            lazy = isinstance(v, ast.GeneratorExp) or (isinstance(v, ast.Call) and src(v.func).split('.')[-1] in _LAZY - {'glob', 'iterdir', 'scandir'} and not isinstance(v.func, ast.Attribute)) or \
                (isinstance(v, ast.Call) and isinstance(v.func, ast.Attribute) and v.func.attr in ('iterdir', 'iglob', 'glob', 'rglob', 'scandir') and False)
            defs.setdefault(n.targets[0].id, []).append((n, lazy))
        elif isinstance(n, (ast.For, ast.AugAssign, ast.NamedExpr, ast.comprehension)):
            tg = n.target
            for x in ast.walk(tg):
                if isinstance(x, ast.Name):
                    defs.setdefault(x.id, []).append((n, False))

    def loops_of(node):
        p = getattr(node, '_parent', None)
        res = []
        while p is not None and not isinstance(p, (ast.FunctionDef, ast.AsyncFunctionDef, ast.Lambda)):
            if isinstance(p, (ast.For, ast.AsyncFor, ast.While)):
                res.append(p)
            p = getattr(p, '_parent', None)
        return res

    for name, ds in defs.items():
        if len(ds) != 1 or not ds[0][1]:
            continue
        dnode = ds[0][0]
        sites = consumption_sites(A, func, name)
        def_loops = set(map(id, loops_of(dnode)))
        for st in sites:
            anchor = st if not isinstance(st, ast.comprehension) else getattr(st, '_parent', st)
            outer = [lp for lp in loops_of(anchor) if id(lp) not in def_loops and lp is not st]
            if outer:
                out.append((name, dnode, st))
                break
        else:
            tw = consumed_more_than_once(A, func, name)
            if tw is not None:
                out.append((name, dnode, tw[1]))
    return out


def part_stores(A: Analysis):
    """Stores to `self._part` in Config.__init__ that can change it from the `part` argument: [(node, guarded)] where guarded means
    the store only runs when the path contains `#` (so an explicitly passed part survives for paths without one)."""
    cfgc = A.cls('Config')
    finit = cfgc.lookup('__init__')
    cfg = A.cfg(finit)
    out = []
    for n in A.typer.own_nodes(finit):      # the part selection in _get_part (main part when none was asked for) is another matter
        if not (isinstance(n, ast.Assign) and any(src(x) == 'self._part' for t_ in n.targets for x in ([t_] + (list(t_.elts) if isinstance(t_, (ast.Tuple, ast.List)) else [])))):
            continue
        direct = any(src(t_) == 'self._part' for t_ in n.targets)
        if direct:
            ts = A.sym.terms_at(finit, ('inst', cfgc), [n.value]).get(id(n.value), [])
            if ts and all(t == ('p', 'part') for t in ts):
                continue        # the argument as given
        guarded = all(any(("'#' in " in t_ and pol) or ("'#' not in " in t_ and not pol) for t_, pol in facts_text(A, finit, cfg, cn.id)) for cn in cfg_nodes_for(cfg, n))
        out.append((n, guarded))
    return finit, out
