"""Helpers shared by the per-property rule modules."""
from __future__ import annotations

import ast
from typing import Callable, Iterable, List, Optional, Tuple

from ..callgraph import Edge, show_path
from ..cfg import CFG, Node
from ..core import Analysis
from ..effects import Effects, Event
from ..model import AnalysisError, ClassInfo, FuncInfo, _dotted, src
from ..types import Ctx

TRUSTED_BASE = [
    'CPython ast parser',
    'Python evaluation order / MRO semantics as modelled by tcverif (model.py, types.py, cfg.py)',
    'primitive-effect and API-semantics tables of tcverif/effects.py (os.replace / same-directory shutil.move are atomic renames; open(mode w/a/x/+) creates or truncates)',
]


def effects_of(A: Analysis) -> Effects:
    e = getattr(A, '_effects', None)
    if e is None:
        e = A._effects = Effects(A.typer, A.sym)
    return e


def where(func: FuncInfo, node=None) -> str:
    ln = getattr(node, 'lineno', None) or func.node.lineno
    return f'{func.module.relpath}:{ln} ({func.short})'


def own_calls(A: Analysis, func: FuncInfo) -> List[ast.Call]:
    return [n for n in A.typer.own_nodes(func) if isinstance(n, ast.Call)]


def calls_named(A: Analysis, func: FuncInfo, name: str) -> List[ast.Call]:
    """Calls `x.name(...)` or `name(...)` in func's own body."""
    out = []
    for c in own_calls(A, func):
        if isinstance(c.func, ast.Attribute) and c.func.attr == name:
            out.append(c)
        elif isinstance(c.func, ast.Name) and c.func.id == name:
            out.append(c)
    return out


def is_run_edge(A: Analysis) -> Callable[[Edge], bool]:
    task = A.cls('Task')
    run = task.methods.get('run')
    if run is None:
        raise AnalysisError('anchor Task.run not found')

    def goal(e: Edge) -> bool:
        return e.kind != 'callback' and e.target.kind == 'func' and e.target.func.name == 'run' and e.target.func.cls is not None \
            and (e.target.func is run or e.target.func.cls.is_subclass_of(task))
    return goal


def fact_texts(cfg: CFG, node_id: int) -> List[Tuple[str, bool]]:
    return [(src(a), pol) for a, pol in cfg.facts_at(node_id)]


def cfg_nodes_for(cfg: CFG, ast_node) -> List[Node]:
    reach = cfg.reachable_nodes()
    return [n for n in cfg.nodes_containing(ast_node) if n.id in reach]


def normal_succ(cfg: CFG, nid: int) -> List[int]:
    return [v for v in cfg.g.successors(nid) if cfg.g[nid][v]['labels'] != ['exc']]


def names_in(node) -> set:
    return {n.id for n in ast.walk(node) if isinstance(n, ast.Name)}


def attr_chain(node) -> Optional[str]:
    return _dotted(node)


def subst_single_assign(A: Analysis, func: FuncInfo, expr):
    """If expr is a Name bound by exactly one plain assignment in func (or, for a free variable of a nested function,
    in the enclosing function that binds it), return that value expression (else expr)."""
    seen = 0
    while isinstance(expr, ast.Name) and seen < 5:
        f = func
        defs = None
        while f is not None:
            d = A.sym._local_defs(f).get(expr.id)
            if d or expr.id in f.params:
                defs = d if expr.id not in f.params else None
                break
            f = f.parent
        if not defs or len(defs) != 1 or defs[0][0] != 'assign':
            break
        v = defs[0][1]
        if (isinstance(v, (ast.Dict, ast.List, ast.Set)) and not (getattr(v, 'keys', None) or getattr(v, 'elts', None))) or \
                (isinstance(v, ast.Call) and src(v.func) in ('dict', 'list', 'set', 'defaultdict', 'OrderedDict') and all(src(a_) in ('dict', 'list', 'set') for a_ in v.args) and not v.keywords):
            break   # an empty container that is filled later: the name, not its initial value, is what later code talks about
        expr = v
        seen += 1
    return expr


def conjuncts(expr, positive=True) -> List[Tuple[ast.AST, bool]]:
    """Flatten a condition into (leaf, polarity) conjuncts that must all hold when expr evaluates to `positive`."""
    if isinstance(expr, ast.UnaryOp) and isinstance(expr.op, ast.Not):
        return conjuncts(expr.operand, not positive)
    if isinstance(expr, ast.Call) and isinstance(expr.func, ast.Name) and expr.func.id == 'bool' and len(expr.args) == 1 and not expr.keywords:
        return conjuncts(expr.args[0], positive)
    if isinstance(expr, ast.BoolOp):
        if (isinstance(expr.op, ast.And) and positive) or (isinstance(expr.op, ast.Or) and not positive):
            out = []
            for v in expr.values:
                out += conjuncts(v, positive)
            return out
        return [(expr, positive)]
    return [(expr, positive)]


def expanded_facts(A: Analysis, func: FuncInfo, cfg: CFG, node_id: int) -> List[Tuple[ast.AST, bool]]:
    """Branch facts at a node, with single-assignment boolean locals replaced by the conjuncts of their definition."""
    out = []
    for a, pol in cfg.facts_at(node_id):
        e = subst_single_assign(A, func, a)
        if e is not a:
            out.extend(conjuncts(e, pol))
        else:
            out.append((a, pol))
    return out


def inl(A: Analysis, func: FuncInfo) -> List[ast.AST]:
    """AST nodes of func and of the private helpers it calls as statements (see Analysis.nodes)."""
    return [n for n, _ in A.nodes(func)]


def owner_of(A: Analysis, func: FuncInfo, node) -> FuncInfo:
    for n, o in A.nodes(func):
        if n is node:
            return o
    return func


def bound_args(call: ast.Call, callee: Optional[FuncInfo], skip_self=True) -> Optional[dict]:
    """{parameter name: argument expression} of a call against the callee's signature (positional and keyword);
    None if the call uses *args / **kwargs that cannot be bound.  `**name` entries are returned under '**'."""
    if callee is None:
        return None
    params = list(callee.params)
    if skip_self and callee.cls is not None and not callee.is_static and params:
        params = params[1:]
    out = {}
    for i, a in enumerate(call.args):
        if isinstance(a, ast.Starred):
            out['*'] = a.value
            continue
        if i < len(params):
            out[params[i]] = a
    for kw in call.keywords:
        if kw.arg is None:
            out['**'] = kw.value
        else:
            out[kw.arg] = kw.value
    return out


def loop_unconditional(cfg: CFG, loop_ast, node_ast) -> bool:
    """Every normal (non-exception) iteration of the loop evaluates node_ast: no path from the loop's body entry back
    to the loop head, or out of the loop, that avoids it."""
    heads = [n for n in cfg.nodes.values() if n.kind == 'for' and n.ast is loop_ast]
    targets = {n.id for n in cfg_nodes_for(cfg, node_ast)}
    if not heads or not targets:
        return False
    allnodes = list(cfg.nodes)
    for h in heads:
        starts = cfg.succ_by_label(h.id, 'loop')
        outs = set(cfg.succ_by_label(h.id, 'done')) | {h.id, cfg.exit.id}
        if cfg.find_path(starts, outs, avoid=targets, no_exc_from=allnodes) is not None:
            return False
    return True


def loop_runs_to_end(loop_ast) -> bool:
    """No `break` of this loop and no `return` in its body: every element of the iterable is visited (barring exceptions)."""
    def walk(n, own):
        for c in ast.iter_child_nodes(n):
            if isinstance(c, (ast.FunctionDef, ast.AsyncFunctionDef, ast.Lambda, ast.ClassDef)):
                continue
            if isinstance(c, ast.Return):
                return False
            if isinstance(c, ast.Break) and own:
                return False
            if not walk(c, own and not isinstance(c, (ast.For, ast.AsyncFor, ast.While))):
                return False
        return True
    return all(walk(st, True) if not isinstance(st, (ast.Return, ast.Break)) else False for st in loop_ast.body)


def src_resolved(A: Analysis, func: FuncInfo, expr, depth=3) -> str:
    """Source text of expr with every single-assignment local replaced by its defining expression (recursively): text
    matching that does not depend on intermediate locals."""
    import copy
    key = (id(func.node), id(expr), depth)
    hit = _SRC_RESOLVED.get(key)
    if hit is not None and hit[0] is expr:
        return hit[1]
    if not any(isinstance(x, ast.Name) and isinstance(x.ctx, ast.Load) and subst_single_assign(A, func, x) is not x for x in ast.walk(expr)):
        _SRC_RESOLVED[key] = (expr, src(expr))
        return _SRC_RESOLVED[key][1]

    class T(ast.NodeTransformer):
        def __init__(self, d):
            self.d = d

        def visit_Name(self, node):
            if isinstance(node.ctx, ast.Load) and self.d > 0:
                e = subst_single_assign(A, func, node)
                if e is not node:
                    return T(self.d - 1).visit(copy.deepcopy(e))
            return node

    try:
        out = src(T(depth).visit(copy.deepcopy(expr)))
    except Exception:
        out = src(expr)
    _SRC_RESOLVED[key] = (expr, out)
    return out


_SRC_RESOLVED: dict = {}


def facts_text(A: Analysis, func: FuncInfo, cfg: CFG, node_id: int) -> List[Tuple[str, bool]]:
    """Branch facts at a node as (source text with single-assignment locals resolved in the function that owns the
    test - the function itself or an inlined helper -, polarity)."""
    out = []
    for a, pol, owner in cfg.facts_owned(node_id):
        f = getattr(owner, '_info', None) or func
        out.append((src_resolved(A, f, a), pol))
    return out


def resolve_expr(A: Analysis, root: FuncInfo, e, owner: FuncInfo, sites, keep=(), depth=0):
    """Expression of an (inlined) helper rewritten in the caller's terms: helper parameters become the arguments at the
    call site, single-assignment locals their definitions (names in `keep` are left alone)."""
    if depth > 5 or not isinstance(e, ast.Name):
        return e
    if owner is not root and sites and e.id in owner.params:
        call = sites[-1]
        skip = owner.cls is not None and not owner.is_static and owner.parent is None and isinstance(call.func, ast.Attribute)
        ba = bound_args(call, owner, skip_self=skip) or {}
        if e.id in ba:
            # the argument is written in the function that contains the call site
            caller = root
            for n, o, s_ in A.nodes_with_sites(root):
                if n is call:
                    caller = o
                    break
            return resolve_expr(A, root, ba[e.id], caller, sites[:-1], keep, depth + 1)
        return e
    if owner is root and e.id in keep:
        return e
    e2 = subst_single_assign(A, owner, e)
    if e2 is not e:
        return resolve_expr(A, root, e2, owner, sites, keep, depth + 1)
    return e
