"""C01 - a chain never returns a stale or foreign result (structural gates).

R01.1 load guarded by persisting AND exists AND not forced;  R01.2 the key depends on every parameter repr and on every
input's key, recursively (hash chain);  R01.3 second-pass registry key = (task identity, storage key), exact lookup;
R01.4 parameter values come only from the declaring config (def-use);  R01.5 run arguments bound by name;
R01.6 a task object is shared only under a key that covers everything determining its value (namespace!);
R01.7 class-level parameter declarations are deep-copied per task object.
"""
from __future__ import annotations

import ast

from ..model import src
from ..report import Report, key_of
from ..terms import NONE_T, dag_nodes, pretty
from ..types import Ctx
from .c04 import check_registry_reuse
from .c07 import load_guard_facts
from .common import TRUSTED_BASE, cfg_nodes_for, inl, subst_single_assign, where
from .keyterm import KeyTerms, branches


def check_run_argument_binding(A, R: Report, rid: str):
    """Term-based: the list returned by _get_run_arguments is a map over the signature of run() whose element reads only
    self.input_tasks[<that name>] / self.parameters[<that name>] (through the registries' own accessors)."""
    task = A.cls('Task')
    fra = task.lookup('_get_run_arguments')
    rets = [n for n in A.typer.own_nodes(fra) if isinstance(n, ast.Return) and n.value is not None]
    if not rets:
        R.undecided(rid, 'Task._get_run_arguments', 'no return value', where=where(fra))
        return
    stop = {task.lookup(n).qualname for n in ('value', 'input_tasks') if task.lookup(n) is not None}
    for cname in ('InputTasks', 'ParameterRegistry'):
        ci = A.prog.find_cls(cname)
        for m in ('__getitem__', 'get', '__contains__', '__getattr__'):
            if ci is not None and ci.lookup(m) is not None:
                stop.add(ci.lookup(m).qualname)
    A.sym.stop_at = stop
    try:
        rv = rets[-1].value
        t = A.sym.local_term(fra, ('inst', task), rv.id) if isinstance(rv, ast.Name) else A.sym.expr_term(rv, Ctx(fra, ('inst', task)))
    finally:
        A.sym.stop_at = set()
    if t[0] != 'map' or len(t[1]) < 1:
        R.undecided(rid, 'Task._get_run_arguments', f'returned value is not recognised as a map over the signature of run(): {pretty(t)[:120]}', where=where(fra))
        return
    vars_, body, seq, guard = t[1], t[2], t[3], t[4]
    keyvar = vars_[0]
    problems = []
    seq_txt = pretty(seq)
    if 'signature' not in seq_txt or 'parameters' not in seq_txt or seq[0] not in ('items', 'keys', 'method', 'attr', 'call'):
        problems.append(f'arguments are not taken in the order of run()\'s signature ({seq_txt[:80]})')
    if seq[0] == 'slice' or any(x[0] == 'slice' and x[1] is seq for x in dag_nodes(t)):
        problems.append('only part of the signature is bound')
    registries = 0
    for x in dag_nodes(body):
        if x[0] == 'ref' and any(n in x[1] for n in ('InputTasks.', 'ParameterRegistry.')):
            registries += 1
            if not x[3] or x[3][0] != keyvar:
                problems.append(f'`{pretty(x)[:80]}` is not keyed by the argument\'s own name')
        elif x[0] in ('index',) and x[1][0] in ('attr', 'ref') and ('input_tasks' in pretty(x[1]) or 'parameters' in pretty(x[1]) or 'params' in pretty(x[1])):
            registries += 1
            if x[2] != keyvar:
                problems.append(f'`{pretty(x)[:80]}` is not keyed by the argument\'s own name')
        elif x[0] == 'attr' and x[1] == ('self',) and x[2] not in ('parameters', 'params', 'input_tasks', '_input_tasks', 'run'):
            problems.append(f'a run() argument can be taken from `self.{x[2]}` (neither an input task nor a declared parameter)')
        elif x[0] == 'ref' and x[1] not in ('Task.input_tasks', 'Task.value') and not any(n in x[1] for n in ('InputTasks.', 'ParameterRegistry.')):
            problems.append(f'a run() argument can come from `{x[1]}`')
    # every use of the two registries must be a keyed access (or a membership test) with the argument's own name
    def is_registry(x):
        return (x[0] == 'attr' and x[1] == ('self',) and x[2] in ('parameters', 'params', 'input_tasks', '_input_tasks')) or (x[0] == 'ref' and x[1] == 'Task.input_tasks')
    for x in dag_nodes(t):
        for i, c in enumerate(x):
            if isinstance(c, tuple) and c and isinstance(c[0], str) and is_registry(c):
                ok_use = (x[0] == 'ref' and i == 2 and any(n in x[1] for n in ('InputTasks.', 'ParameterRegistry.')) and x[3] and x[3][0] == keyvar) or \
                    (x[0] == 'cmp' and x[1] in ('In', 'NotIn') and i == 3 and x[2] == keyvar) or (x[0] == 'index' and i == 1 and x[2] == keyvar) or \
                    (x[0] == 'method' and i == 1 and x[2] in ('get', '__getitem__', '__contains__') and x[3] and x[3][0] == keyvar)
                if not ok_use:
                    problems.append(f'`{pretty(x)[:80]}` reads a registry other than by the argument\'s own name')
    if registries == 0:
        problems.append('no lookup in input_tasks / parameters found')
    R.check(not problems, rid, 'Task._get_run_arguments', key_of('by-name', sorted(set(problems))), f'map over run()\'s signature; {registries} registry lookups, all keyed by the argument name',
            'run() arguments are not bound by their own name from input tasks / declared parameters: ' + '; '.join(sorted(set(problems))), witness=[pretty(t)[:300]], where=where(fra))


def check_parameter_copy(A, R: Report, rid: str):
    """TaskParameterConfig.__init__: _data = {p.name_in_config: original_config[p.name_in_config] for every declared
    parameter p whose name_in_config is in the original config} - the name looked up, the name tested and the name
    stored under are the same expression."""
    from ..terms import normalise, has_opaque
    tpc = A.cls('TaskParameterConfig')
    init = tpc.methods.get('__init__')
    R.require(init is not None, 'anchor: TaskParameterConfig.__init__ missing')
    S = A.sym
    S._field_stores = []
    S.func_term(init, ('inst', tpc))
    st = [normalise(v) for c, t, v in S._field_stores if t.attr == '_data']
    maps = [v for v in st if v[0] == 'mapdict']
    if not maps:
        R.undecided(rid, 'TaskParameterConfig.__init__: _data', 'copy of the parameter values not recognised', where=where(init))
        return
    m = maps[-1]
    pv = m[1][-1]
    kx = ('attr', pv, 'name_in_config')
    seq_ok = m[4][0] in ('values', 'items') and any(x[0] == 'attr' and x[2] in ('parameters', '_parameters') for x in dag_nodes(m[4]))
    key_ok = m[2] == kx
    val_ok = m[3][0] == 'index' and m[3][2] == kx
    g = m[5]
    guard_ok = g is None or (g[0] == 'cmp' and g[1] == 'In' and g[2] == kx and g[3][0] != 'lit')
    ok = seq_ok and key_ok and val_ok and guard_ok
    if not ok and has_opaque(m):
        R.undecided(rid, 'TaskParameterConfig.__init__: _data', 'copy of the parameter values involves a construct the term engine does not interpret', where=where(init))
        return
    R.check(ok, rid, 'TaskParameterConfig.__init__: _data', key_of('tpc-data', pretty(m)[:160] if not ok else 'ok'), 'copies exactly the declared names (name_in_config) from the original config',
            f'the derived config is `{pretty(m)[:200]}`: a declared parameter is looked up / tested / stored under different names, so its configured value is lost (the task falls back to the default and tasks differing only in that value share one key)',
            witness=[pretty(m)[:300]], where=where(init))


def check_input_map(A, R: Report, rid: str, K):
    """TaskParameterConfig.input_tasks = {name: storage key of that input} over ALL Task-valued inputs."""
    im = K.INPUT_MAP
    ok_im = False
    if im[0] == 'mapdict':
        seq = im[4]
        filt = im[5]
        val_ok = any(x[0] in ('dispatch', 'ref', 'rec') and 'get_name_for_persistence' in str(x[1]) for x in dag_nodes(im[3])) or \
            any(x[0] == 'method' and x[2] == 'get_name_for_persistence' for x in dag_nodes(im[3])) or \
            any(x[0] == 'attr' and x[2] == 'name_for_persistence' for x in dag_nodes(im[3]))
        in_param = [p for p in K.f_tpc_init.params if 'input' in p]
        seq_ok = bool(in_param) and seq == ('items', ('p', in_param[0]))
        filt_ok = filt is None or (filt[0] == 'isinst' and filt[2] == ('global', 'Task'))
        key_ok = im[2] == im[1][0]
        ok_im = val_ok and seq_ok and filt_ok and key_ok
    R.check(ok_im, rid, 'TaskParameterConfig.__init__: input_tasks', key_of('input-map', pretty(im)[:100] if not ok_im else 'ok'), 'name -> the input\'s own storage key, for every Task input',
            'self.input_tasks is not {name: storage key of that input} over all inputs: the hash chain over the DAG is broken (tasks downstream of an omitted input share one key / one object across different upstream configurations)',
            witness=[pretty(im)[:300]], where=where(K.f_tpc_init))


def input_name_problems(digest_arg):
    """Problems with `name=key` of the inputs inside the hashed text; None when the binding is not recognised.
    The name must be the input's declared name with exactly the own namespace prefix (`<ns>::`) removed - nothing
    more (whole namespace path, first segment only) and nothing textual (replace anywhere in the name)."""
    from ..terms import assume, factor_cond
    maps = []
    for x in dag_nodes(digest_arg):
        if x[0] == 'join':
            m = x[2]
            while m[0] == 'sorted':
                m = m[1]
            if m[0] == 'map' and len(m[1]) == 2 and factor_cond(m[2])[0] == 'cat':
                maps.append(m[:2] + (factor_cond(m[2]),) + m[3:])
    if not maps:
        return None
    problems = []
    for m in maps:
        n, k = m[1]
        parts = m[2][1]
        if len(parts) != 3 or parts[1][0] != 'lit' or not parts[1][1]:
            problems.append('inputs are not rendered as name <separator> key')
            continue
        name_t, key_t = parts[0], parts[2]
        if key_t != k:
            problems.append('the value bound to an input name is not the input\'s key')
        nss = {x for x in dag_nodes(name_t) if x[0] == 'attr' and x[2] == 'namespace'}
        if name_t == n:
            continue   # full declared name (also fine: no stripping at all is decided by C02)
        if len(nss) != 1:
            problems.append('the input name in the hashed text is not the declared name minus the own namespace prefix')
            continue
        ns = next(iter(nss))
        with_ns = assume(name_t, lambda c: True if c == ns else (False if c == ('cmp', 'Is', ns, ('lit', None)) else None))
        without = assume(name_t, lambda c: False if c == ns else (True if c == ('cmp', 'Is', ns, ('lit', None)) else None))
        strip = ('slice', n, ('call', '+', (('call', 'len', (ns,)), ('lit', 2))), ('lit', None))
        strip2 = ('method', n, 'removeprefix', (('cat', (ns, ('lit', '::'))),))
        from ..terms import normalise
        if with_ns not in (normalise(strip), normalise(strip2)) or without != normalise(n):
            problems.append('the input name in the hashed text is not the declared name minus exactly the own namespace prefix')
    return sorted(set(problems))


def run(A, R: Report, thorough: bool):
    R.explanation = ('A result can only be foreign if a stored file is loaded although it was not written for this computation, two computations share a location, two computations share a task '
                     'object, or a task reads values that are not its own. Each has a structural gate decided here: control dependence of the load; dependency facts of the symbolic key term; '
                     'registry key terms; def-use of parameter values; name-keyed binding of run arguments; deep copy of class-level declarations. Not decided: equality of values over histories.')
    R.trusted = TRUSTED_BASE
    R.assumptions = ['task run() methods are deterministic functions of their declared parameters and inputs (stated in the property)', 'one data directory (base_dir is not part of the key by design)']
    task = A.cls('Task')
    K = KeyTerms(A)

    # ---- R01.1
    R.rule('R01.1', 'Data.load in Task.data is control-dependent on is_persisting, exists() and not forced', floor=1)
    fdata, loads = load_guard_facts(A)
    R.require(loads, 'anchor: no load call in Task.data')
    for call, cn, facts, _ in loads:
        recv = src(call.func.value)
        need = {'exists': (f'{recv}.exists()', True) in facts, 'persisting': (f'{recv}.is_persisting', True) in facts,
                'not forced': ('self._forced', False) in facts or ('self.is_forced', False) in facts}
        missing = [k for k, v in need.items() if not v]
        R.check(not missing, 'R01.1', 'Task.data: load', key_of('load-guard', missing), f'guards {facts}', f'the stored result is loaded without the guard(s) {missing}', witness=[str(facts)], where=where(fdata, call))

    # ---- R01.2 hash chain
    R.rule('R01.2', 'the digest argument covers every parameter repr and every input key; input keys are the inputs\' own storage keys; second-pass configs get the recreated inputs', floor=4)
    own = K.piece('TaskParameterConfig.get_name_for_persistence')
    digest_arg = None
    for x in dag_nodes(own):
        if x[0] == 'call' and x[1] == 'encode':
            digest_arg = x[2][0]
    if digest_arg is None:
        R.undecided('R01.2', 'TaskParameterConfig.get_name_for_persistence', 'digest argument not recognised', where=where(K.f_key))
    else:
        nodes = dag_nodes(digest_arg)
        # (a) parameters: the registry repr of the task whose key this is
        reg = [x for x in nodes if x[0] == 'ref' and x[1] == 'ParameterRegistry.repr']
        task_param = ('p', K.f_key.params[1]) if len(K.f_key.params) > 1 else None
        ok_a = bool(reg) and any(task_param in dag_nodes(r[2]) for r in reg)
        R.check(ok_a, 'R01.2', 'key: parameter section', key_of('params-in-digest', ok_a), 'registry repr of the task is hashed', 'the parameter reprs of the task are not part of the hashed text', witness=[pretty(digest_arg)[:200]], where=where(K.f_key))
        # (b) inputs: a map over ALL items of self.input_tasks, body mentions name and key
        maps = [x for x in nodes if x[0] == 'map']
        ok_b = False
        for m in maps:
            seq = m[3]
            while seq[0] == 'sorted':
                seq = seq[1]
            if seq == ('items', ('attr', ('self',), 'input_tasks')) and m[4] is None and all(v in dag_nodes(m[2]) for v in m[1]):
                ok_b = True
        R.check(ok_b, 'R01.2', 'key: input section', key_of('inputs-in-digest', ok_b), 'every (name, key) of self.input_tasks is hashed',
                'not every input task (name and key) reaches the hashed text: an upstream change would not move this task\'s result', witness=[pretty(digest_arg)[:200]], where=where(K.f_key))
        # (c) the name under which an input is bound: the declared input name minus exactly the own namespace prefix
        probs = input_name_problems(digest_arg)
        if probs is None:
            R.undecided('R01.2', 'key: input names', 'input binding in the hashed text not recognised', where=where(K.f_key))
        else:
            R.check(not probs, 'R01.2', 'key: input names', key_of('input-names', probs), 'name = input name without the own namespace prefix; key = the input\'s key',
                    '; '.join(probs) + ': two different wirings (same upstream results attached under other names / namespaces) get the same key', witness=[pretty(digest_arg)[:300]], where=where(K.f_key))
    reg_t = K.piece('ParameterRegistry.repr')
    full = False
    for m in [x for x in dag_nodes(reg_t) if x[0] == 'map']:
        seq = m[3]
        while seq[0] == 'sorted':
            seq = seq[1]
        guard_ok = m[4] is None or (m[4][0] == 'cmp' and m[4][1] in ('IsNot', 'NotEq') and NONE_T in m[4][2:] and m[2] in m[4][2:])
        body_ok = any(x[0] == 'ref' and x[1] == 'AbstractParameter.repr' for x in dag_nodes(m[2]))
        if seq == ('items', ('attr', ('self',), '_parameters')) and guard_ok and body_ok:
            full = True
        if seq[0] == 'values' and seq[1] == ('attr', ('self',), '_parameters') and guard_ok and body_ok:
            full = True
    R.check(full, 'R01.2', 'ParameterRegistry.repr', key_of('all-parameters', full), 'maps over all registered parameters', 'the registry repr does not cover every registered parameter (slice / filter on names)', witness=[pretty(reg_t)[:200]], where=where(K.f_registry))
    check_input_map(A, R, 'R01.2', K)
    frec = A.func('Chain._recreate_tasks_with_parameter_config')
    ctor_calls = [(f, n) for f in [frec] + list(frec.nested.values()) for n in A.typer.own_nodes(f) if isinstance(n, ast.Call) and src(n.func) == 'TaskParameterConfig']
    R.require(ctor_calls, 'anchor: TaskParameterConfig(...) construction not found in _recreate_tasks_with_parameter_config')
    for f, c in ctor_calls:
        ok = False
        shown = src(c.args[1])[:120] if len(c.args) > 1 else None
        if len(c.args) > 1:
            at = A.sym.terms_at(f, ('inst', A.cls('Chain')), [c.args[0], c.args[1]])
            olds, news = at[id(c.args[0])], at[id(c.args[1])]
            ok = bool(news) and len(olds) == 1
            for t in news:
                shown = pretty(t)[:160]
                # {name: <recursive call>(name, input) for name, input in <old task>.input_tasks.items() [if isinstance(input, Task)]}
                good = t[0] == 'mapdict' and len(t[1]) == 2 and t[2] == t[1][0] and t[3] == ('call', f.name, (t[1][0], t[1][1])) \
                    and t[4][0] == 'items' and t[4][1][0] == 'attr' and t[4][1][1] == olds[0] and t[4][1][2] in ('input_tasks', '_input_tasks') \
                    and (t[5] is None or (t[5][0] == 'isinst' and t[5][1] == t[1][1] and t[5][2] == ('global', 'Task')))
                ok = ok and good
        R.check(ok, 'R01.2', f'{f.short}: TaskParameterConfig(...)', key_of('recreated-inputs', shown), 'inputs passed are the recreated (second-pass) tasks of all Task inputs',
                'the parameter config is built from first-pass / filtered inputs: upstream keys do not chain into this key', witness=[str(shown)], where=where(f, c))

    # ---- R01.3 / registry
    R.rule('R01.3', 'second-pass registry key is (task identity, storage key)', floor=1)
    fct = A.func('Chain._create_task')
    from .c13 import registry_key_branches
    from ..terms import dag_nodes as _dn
    branches = registry_key_branches(A)
    if not branches:
        R.undecided('R01.3', 'Chain._create_task', 'key for TaskParameterConfig not recognised', where=where(fct))
    for t in branches:
        nodes = _dn(t)
        ok = any(x[0] == 'ref' and x[1].endswith('name_for_persistence') for x in nodes) and \
            any((x[0] == 'attr' and x[2] in ('slugname', '__class__')) or x == ('p', 'task_class') for x in nodes)
        R.check(ok, 'R01.3', 'Chain._create_task: parameter-mode key', key_of('tpc-key', pretty(t)[:160]), f'key = {pretty(t)[:100]}',
                f'registry key `{pretty(t)[:160]}` does not contain both the task identity and its storage key: different computations would share one task object', where=where(fct))
    check_registry_reuse(A, R, 'R01.3b')

    # ---- R01.4 parameter provenance
    R.rule('R01.4', 'Parameter._value is stored only by set_value from config[name_in_config] or the default; tasks pass their own config; TaskParameterConfig copies only declared names', floor=3)
    par = A.cls('Parameter')
    stores = A.typer.attr_store_exprs.get((par.qualname, '_value'), [])
    R.require(stores, 'anchor: no store to Parameter._value found')
    for ctx, v in stores:
        f = ctx.func
        if f.name == '__init__':
            R.check('NO_VALUE' in src(v), 'R01.4', 'Parameter.__init__: _value', key_of('init', src(v)), 'initialised unset', f'Parameter starts with `{src(v)}` instead of the unset marker', where=where(f, v))
        elif f.name == 'set_value':
            t = A.sym.local_term(f, ('inst', par), src(v)) if isinstance(v, ast.Name) else A.sym.expr_term(v, Ctx(f, ('inst', par)))
            cfgp = ('p', f.params[1])
            nic = ('attr', ('self',), 'name_in_config')
            good = ('cond', ('cmp', 'In', nic, cfgp), ('index', cfgp, nic), ('attr', ('self',), 'default'))
            alt = ('method', cfgp, 'get', (nic, ('attr', ('self',), 'default')))
            def _from_cfg(x):
                return x[0] == 'index' and x[2] == nic and cfgp in dag_nodes(x[1])
            shape = t[0] == 'cond' and t[1][0] == 'cmp' and t[1][1] == 'In' and t[1][2] == nic and cfgp in dag_nodes(t[1][3]) and _from_cfg(t[2]) and t[3] == ('attr', ('self',), 'default')
            R.check(t == good or t == alt or shape, 'R01.4', 'Parameter.set_value: _value', key_of('set_value', pretty(t)[:160]), 'config[name_in_config] if present else default',
                    f'parameter value is `{pretty(t)[:200]}`: not the declaring config\'s entry under name_in_config (or the default)', where=where(f, v))
        else:
            R.violation('R01.4', f'{f.short}: _value', key_of('foreign-store', f.short, src(v)), f'`{f.short}` overwrites a parameter value outside set_value', where=where(f, v))
    fpp = task.lookup('_prepare_parameters')
    sv = [n for n in A.typer.own_nodes(fpp) if isinstance(n, ast.Call) and isinstance(n.func, ast.Attribute) and n.func.attr == 'set_values']
    R.require(sv, 'anchor: set_values call not found in Task._prepare_parameters')
    R.check(all(len(c.args) == 1 and src(c.args[0]) == 'self._config' for c in sv), 'R01.4', 'Task._prepare_parameters: set_values', key_of('own-config', [src(c) for c in sv]), 'values read from the task\'s own config',
            'parameters are filled from something other than the task\'s own config', where=where(fpp, sv[0]))
    check_parameter_copy(A, R, 'R01.4')

    # ---- R01.5
    R.rule('R01.5', 'every run() argument is looked up under its own name in input_tasks / parameters', floor=1)
    check_run_argument_binding(A, R, 'R01.5')

    # ---- R01.14 positional access to the inputs (`self.input_tasks[i]`) follows the declaration order
    R.rule('R01.14', 'InputTasks keeps its positional list in step with its mapping: an input is appended exactly when its exact key is new (the fuzzy name lookup is not used for that)', floor=1)
    itc = A.cls('InputTasks')
    fset = itc.methods.get('__setitem__')
    R.require(fset is not None, 'anchor: InputTasks.__setitem__ missing')
    cfgs_ = A.cfg(fset)
    apps = [n_ for n_ in inl(A, fset) if isinstance(n_, ast.Call) and isinstance(n_.func, ast.Attribute) and n_.func.attr == 'append' and src(n_.func.value) == 'self.task_list']
    R.require(apps, 'anchor: self.task_list.append(...) missing in InputTasks.__setitem__')
    fuzzy = '__contains__' in itc.methods
    for ap in apps:
        for cn in cfg_nodes_for(cfgs_, ap):
            facts = [(subst_single_assign(A, fset, a_), pol) for a_, pol in cfgs_.facts_at(cn.id)]
            exact = [a_ for a_, pol in facts if not pol and isinstance(a_, ast.Call) and src(a_.func) in ('super().__contains__', 'dict.__contains__')] + \
                    [a_ for a_, pol in facts if isinstance(a_, ast.Compare) and len(a_.ops) == 1 and ((isinstance(a_.ops[0], ast.NotIn) and pol) or (isinstance(a_.ops[0], ast.In) and not pol))
                     and src(a_.comparators[0]) in ('self.keys()', 'dict.keys(self)', 'super().keys()')]
            via_self = [a_ for a_, pol in facts if isinstance(a_, ast.Compare) and len(a_.ops) == 1 and isinstance(a_.ops[0], (ast.In, ast.NotIn)) and src(a_.comparators[0]) == 'self']
            if exact and not via_self:
                R.ok('R01.14', 'InputTasks.__setitem__', 'appended when the exact key is new', where=where(fset, ap))
            elif via_self and fuzzy:
                R.violation('R01.14', 'InputTasks.__setitem__', key_of('fuzzy-newness', src(via_self[0])), f'`{src(via_self[0])}` goes through the overridden (short-name) __contains__: an input whose name merely *resolves* to an earlier key '
                            '(`dataset` after `baseline::dataset`, `stats` after `raw:stats`) is stored in the mapping but not appended to the positional list, so `self.input_tasks[i]` of every later input is shifted and run() gets another task\'s value',
                            where=where(fset, ap))
            elif not facts:
                R.violation('R01.14', 'InputTasks.__setitem__', key_of('always-appended'), 'the positional list is appended on every store: re-wiring the inputs (second pass, shared registry) duplicates positions', where=where(fset, ap))
            else:
                R.undecided('R01.14', 'InputTasks.__setitem__', f'newness test not recognised: {[src(a_) for a_, _ in facts]}', where=where(fset, ap))

    # ---- R01.6 sharing keys
    R.rule('R01.6', 'in parameter mode the first pass shares no task objects (or shares under a key that covers the namespace)', floor=1)
    for f in [A.func('Chain._prepare')]:
        calls = [n for n in A.typer.own_nodes(f) if isinstance(n, ast.Call) and isinstance(n.func, ast.Attribute) and n.func.attr == '_create_tasks']
        R.require(calls, 'anchor: _create_tasks call not found in Chain._prepare')
        for c in calls:
            from .common import first_pass_registry
            pm_value = first_pass_registry(A, f, c)
            if pm_value == 'None':
                R.ok('R01.6', 'Chain._prepare: first pass', 'no registry in parameter mode: one object per declaration', where=where(f, c))
            else:
                # sharing key of non-parameter configs must keep the namespace
                cfgc = A.cls('Config')
                t = A.sym.func_term(cfgc.lookup('repr_name_without_namespace'), ('inst', cfgc))
                drops_ns = t[0] == 'index' and t[1][0] == 'method' and t[1][2] == 'split'
                R.check(not drops_ns, 'R01.6', 'Chain._prepare: first pass', key_of('first-pass-registry', pm_value), 'sharing key covers the namespace',
                        f'first-pass tasks are shared through `{pm_value}` under (slugname, config without namespace): a config mounted under two namespaces with per-namespace context gets one task object, '
                        'so the second namespace reads the first one\'s parameter values', where=where(f, c))

    # ---- R01.8 key derivation is stateless
    from .purity import check_key_stateless
    check_key_stateless(A, R, 'R01.8')

    # ---- R01.9 contexts are isolated from configs and from each other (shared with C09 R09.2)
    R.rule('R01.9', 'context values reach a config only through deepcopy, and merging contexts never mutates or aliases its inputs', floor=2)
    from .c09 import check_context_isolation
    check_context_isolation(A, R, 'R01.9')
    from .c09 import merge_order
    okm, whym = merge_order(A, A.cls('Context').lookup('merge_contexts'))
    if okm is None:
        R.undecided('R01.9', 'Context.merge_contexts: order', whym, where=where(A.cls('Context').lookup('merge_contexts')))
    else:
        R.check(okm, 'R01.9', 'Context.merge_contexts: order', key_of('merge-order', whym), 'later contexts win, entries merged into fresh accumulators',
                f'contexts are not merged by overwriting updates into fresh accumulators ({whym}): values of one chain construction reach a later one', where=where(A.cls('Context').lookup('merge_contexts')))
    # ---- R01.11 / R01.12 rules shared with C08 and C06: a declared input is bound inside the declaring namespace; stored sequences come back in order
    from .c08 import check_resolver_call
    from .c06 import check_index_order
    R.rule('R01.11', 'a declared input is resolved inside the namespace of the declaring config (never bound to a same-named task of another namespace)', floor=1)
    check_resolver_call(A, R, 'R01.11')
    R.rule('R01.12', 'a stored list of arrays is read back in the order it was written', floor=1)
    check_index_order(A, R, 'R01.12')
    # ---- R01.10 a config is what its file says now: construction reads the file, it keeps no parse state across configs
    from .purity import check_stateless
    R.rule('R01.10', 'Config / Context construction keeps no state outside the new object (no parse cache that could serve an earlier version of an edited file)', floor=2)
    for cname in ('Config', 'Context'):
        ci = A.cls(cname)
        init = ci.lookup('__init__')
        check_stateless(A, R, 'R01.10', f'{cname}(...) construction', [Ctx(init, ('inst', ci))],
                        'a chain built after the config file was edited can be configured with the values parsed earlier: results of the old parameter values are returned for the new ones',
                        allow=lambda e: e.kind == 'ATTR_STORE', at=where(init))

    # ---- R01.7
    R.rule('R01.7', 'class-level parameter declarations pass deepcopy before they reach the task\'s ParameterRegistry', floor=1)
    cfg = A.cfg(fpp)
    ctors = [n for n in A.typer.own_nodes(fpp) if isinstance(n, ast.Call) and src(n.func) == 'ParameterRegistry']
    R.require(ctors, 'anchor: ParameterRegistry(...) not constructed in Task._prepare_parameters')
    raw = [n for n in cfg.nodes.values() if n.kind == 'stmt' and n.ast is not None and isinstance(n.ast, ast.Assign) and "meta.get('parameters')" in src(n.ast.value) and 'deepcopy' not in src(n.ast.value)]
    copies = [n.id for n in cfg.nodes.values() if n.kind == 'stmt' and n.ast is not None and any(isinstance(c, ast.Call) and src(c.func).split('.')[-1] == 'deepcopy' for c in ast.walk(n.ast))]
    none_edges = [n.id for n in cfg.nodes.values() if n.kind == 'edge' and ((src(n.ast).endswith('is not None') and n.label == 'F') or (src(n.ast).endswith('is None') and n.label == 'T'))]
    for c in ctors:
        for cn in cfg_nodes_for(cfg, c):
            direct = 'deepcopy' in src(c)
            if raw:
                p = cfg.find_path([r.id for r in raw], [cn.id], avoid=copies + none_edges)
                ok = p is None or direct
            else:
                ok = direct or bool(copies)
                p = None
            R.check(ok, 'R01.7', 'Task._prepare_parameters', key_of('deepcopy'), 'declarations deep-copied per task object',
                    'Meta.parameters objects are shared by every instance of the task class: set_value of one task overwrites the values another task (other config / namespace) reads',
                    witness=cfg.describe_path(p) if p else None, where=where(fpp, c))

    from .c03 import check_lossless_encoding
    from .keyterm import KeyTerms as _KT
    R.rule('R01.15', 'the storage key is a hash of the whole key text: the text is encoded losslessly', floor=1)
    check_lossless_encoding(A, R, 'R01.15', _KT(A))

