"""C02 - storage location depends only on what goes into the computation.

R02.1 every order-unstable iteration that feeds the hashed text in order is sorted;
R02.2 builtin repr()/str() of user values only under guards that exclude containers;
R02.3 the key term contains no config name / path / process state; the namespace only as the stripped prefix;
R02.4 ignore / default flags honoured on every text-returning path;
R02.5 placeholder strings: obj.repr wins over the str branch; ReprStr encodes exactly once.
"""
from __future__ import annotations

import ast

from ..model import src
from ..report import Report, key_of
from ..terms import NONE_T, assume, dag_nodes, has_opaque, is_stringy, normalise, pretty
from .common import subst_single_assign, TRUSTED_BASE, where
from .keyterm import KeyTerms, all_conj, branches, walk_guarded

SCALAR_TYPES = {'pathlib.Path', 'Path', 'str', 'int', 'float', 'bool'}
ENV_ATTRS = {'_filepath', 'base_dir', '_part', 'repr_name', 'fullname', 'context', 'global_vars', '_base_config'}
ENV_CALLS = ('id', 'hash', 'time.', 'datetime.', 'getpass.', 'os.environ', 'os.getpid', 'random.', 'uuid.', 'socket.', 'platform.')


def _guard_types(guards, term, positive):
    """Type names T with a conjunct isinstance(term, T) of the given polarity among the guards."""
    out = set()
    for g, pol in all_conj(guards):
        if g[0] == 'isinst' and g[1] == term and pol == positive:
            t = g[2]
            if t[0] == 'global':
                out.add(t[1])
            elif t[0] in ('tuple', 'list'):
                out |= {x[1] for x in t[1] if x[0] == 'global'}
    return out


def order_findings(term, construct):
    """R02.1: (kind, description, key) for unsorted order-unstable sources iterated in order."""
    findings = []
    seen = set()

    def unstable_source(seq, guards):
        """None when stable; otherwise a description."""
        k = seq[0]
        if k == 'sorted':
            return None
        if k in ('items', 'keys', 'values'):
            d = seq[1]
            if d[0] == 'mapdict':
                return unstable_source(d[4], guards)
            if d[0] == 'dict':
                return None
            return f'dict view `{pretty(seq)[:80]}` (insertion order = declaration order of the mapping)'
        if k == 'call' and seq[1] in ('set', 'frozenset', 'dir', 'vars'):
            return f'`{pretty(seq)[:80]}` (hash / unspecified order)'
        if k == 'call' and seq[1] in ('enumerate', 'reversed', 'list', 'tuple', 'zip') and seq[2]:
            return unstable_source(seq[2][0], guards)
        if k == 'map':
            return unstable_source(seq[3], guards)
        if k == 'method' and seq[2] in ('items', 'keys', 'values'):
            return f'dict view `{pretty(seq)[:80]}`'
        if k in ('p', 'var', 'attr', 'self'):
            ts = _guard_types(guards, seq, True)
            if ts & {'dict', 'set', 'frozenset'}:
                return f'`{pretty(seq)[:60]}` iterated directly although it is a {sorted(ts & {"dict", "set", "frozenset"})[0]}'
            return None
        return None

    def visit(t, guards, parent):
        k = t[0]
        if k in ('map', 'mapdict'):
            seq = t[3] if k == 'map' else t[4]
            # a map consumed by sorted(...) needs no ordered source; a mapdict's order only matters through its views
            if parent is not None and parent[0] == 'sorted' and parent[1] is t:
                return
            if k == 'mapdict':
                return
            why = unstable_source(seq, guards)
            if why and id(t) not in seen:
                seen.add(id(t))
                findings.append(('unsorted', f'iterates {why} into the hashed text without sorting', pretty(seq)[:160]))
        elif k == 'join':
            seq = t[2]
            if seq[0] != 'map':
                why = unstable_source(seq, guards)
                if why and id(t) not in seen:
                    seen.add(id(t))
                    findings.append(('unsorted', f'joins {why} without sorting', pretty(seq)[:160]))

    walk_guarded(term, visit)
    return findings


def repr_findings(term, str_params=()):
    """R02.2: builtin repr()/str() applied to a value that may be a container (dict order / set hash order leak into the key)."""
    out = []
    seen = set()

    def visit(t, guards, parent):
        if t[0] not in ('repr', 'str'):
            return
        x = t[1]
        if id(t) in seen:
            return
        seen.add(id(t))
        if is_stringy(x) or x[0] in ('lit', 'rec', 'user', 'ref', 'join', 'cat', 'slice', 'call') or (x[0] == 'method' and x[2] in ('hexdigest', 'lower', 'replace', 'get')):
            return
        if x[0] == 'p' and x[1] in str_params:
            return
        pos = _guard_types(guards, x, True)
        neg = _guard_types(guards, x, False)
        # also accept guards on the value the repr argument was read from (repr(self._value) under isinstance(self.value, Path))
        for g, pol in all_conj(guards):
            if g[0] == 'isinst' and pol and g[2][0] == 'global' and g[2][1] in SCALAR_TYPES:
                inner = {y for y in dag_nodes(g[1])}
                if x in inner or g[1] == x:
                    pos |= {g[2][1]}
        if pos & SCALAR_TYPES:
            return
        if {'list', 'dict'} <= neg:
            return
        if t[0] == 'str' and (parent is None or parent[0] in ('cond', 'cmp')):
            return
        out.append((pretty(t)[:120], pretty(x)[:120]))

    walk_guarded(term, visit)
    return out


def check_default_exemption(A, R, rid, K):
    """AbstractParameter.repr drops a parameter for its default exactly when the flag is set and the typed value equals the declared default (shared with C03)."""
    # the default-value exemption is exactly "flag set and typed value == declared default": any narrower test (extra conjunct) keeps a defaulted
    # parameter in the key, any wider one (comparison of renderings, of raw config text) drops parameters whose value differs from the default
    own = K.PARAM_REPR_OWN()
    ign_c, dp_c = ('attr', ('self',), 'ignore_persistence'), ('attr', ('self',), 'dont_persist_default_value')
    rest = assume(own, lambda c_: False if c_ == ign_c else (True if c_ == dp_c else None))
    off = assume(own, lambda c_: False if c_ in (ign_c, dp_c) else None)
    from ..types import Ctx as _Ctx
    vterm = normalise(A.sym.expr_term(ast.parse('self.value', mode='eval').body, _Ctx(K.f_param_repr, ('inst', K.f_param_repr.cls)))) if K.f_param_repr.cls is not None else None
    dterm = ('attr', ('self',), 'default')
    def typed_value(x):
        # `self.value` (kept as a reference, or inlined: Path(self._value) for dtype Path, else self._value)
        return x == vterm or (x[0] in ('user', 'ref') and str(x[1]).endswith('.value')) or \
            (x[0] == 'cond' and x[3] == ('attr', ('self',), '_value') and x[2][0] == 'call' and x[2][1].split('.')[-1] == 'Path' and x[2][2] == (('attr', ('self',), '_value'),))
    exact = rest[0] == 'cond' and rest[1][0] == 'cmp' and rest[1][1] in ('Eq', 'NotEq') and \
        ((typed_value(normalise(rest[1][2])) and normalise(rest[1][3]) == dterm) or (typed_value(normalise(rest[1][3])) and normalise(rest[1][2]) == dterm)) and \
        (rest[2] if rest[1][1] == 'Eq' else rest[3]) == NONE_T
    always_text = off[0] != 'cond' and off != NONE_T
    R.check(exact and always_text, rid, 'AbstractParameter.repr: default-value exemption', key_of('default-exact', exact, always_text, pretty(rest[1])[:80] if rest[0] == 'cond' else pretty(rest)[:80]),
            'dropped exactly when the flag is set and the typed value equals the declared default',
            f'with dont_persist_default_value set the parameter is dropped when `{pretty(rest[1])[:120] if rest[0] == "cond" else pretty(rest)[:120]}` - not exactly when its typed value equals its default: '
            'a defaulted parameter stays in the key (adding the parameter to a task moves existing results) or a non-default value is left out (different computations share a key)', where=where(K.f_param_repr))


def run(A, R: Report, thorough: bool):
    R.explanation = ('The text that is hashed into the storage key is evaluated symbolically (functions, properties and closures inlined) and analysed as a term: ordering of '
                     'every iteration that reaches the text, builtin repr() leaves and their type guards, provenance of every hole, guards of every text-returning path. '
                     'Not decided: byte-equality for every pair of semantically equal rewritings; user repr() methods are trusted.')
    R.trusted = TRUSTED_BASE + ['sorted() over str keys is a total order; builtin repr() of JSON scalars and Path is deterministic']
    R.assumptions = ['mapping keys that are identifiers (parameter names, __init__ argument names, kwargs names, task names) contain no separators']
    K = KeyTerms(A)

    # ---- R02.1
    R.rule('R02.1', 'no order-unstable iteration (dict view, set, dir) reaches the hashed text in order without sorted()', floor=6)
    for name, term, f in K.pieces():
        fs = order_findings(term, name)
        n_iter = sum(1 for x in dag_nodes(term) if x[0] in ('map', 'join'))
        if has_opaque(term):
            R.undecided('R02.1', name, 'term contains a construct the engine does not interpret', where=where(f))
        for kind, why, key in fs:
            R.violation('R02.1', name, key_of(key), f'{name} {why}: two configurations that differ only in the order of mapping keys get different storage locations', witness=[key], where=where(f))
        if not fs:
            R.ok('R02.1', name, f'{n_iter} iteration(s) feeding the text are order-stable', where=where(f))

    # ---- R02.2
    R.rule('R02.2', 'builtin repr()/str() of a user value is reached only under guards that exclude containers (list, dict) or select a scalar type', floor=5)
    for name, term, f in K.pieces():
        str_params = tuple(p for p in f.params if f.param_annotation(p) is not None and src(f.param_annotation(p)) == 'str')
        bad = repr_findings(term, str_params)
        n = sum(1 for x in dag_nodes(term) if x[0] == 'repr')
        for leaf, arg in bad:
            R.violation('R02.2', name, key_of(leaf), f'{name} applies builtin repr/str to `{arg}` without excluding containers: a dict-valued value keeps its key order, a set its hash order (PYTHONHASHSEED) in the storage key',
                        witness=[leaf], where=where(f))
        if not bad:
            R.ok('R02.2', name, f'{n} repr leaf/leaves are guarded', where=where(f))

    # ---- R02.3
    R.rule('R02.3', 'the key term has no hole for config name / file path / part / base dir / process state; namespace occurs only as the stripped prefix', floor=1)
    problems = []
    allowed_ns = set()
    for x in dag_nodes(K.KEY):
        if x[0] == 'cond':
            allowed_ns.add(id(x[1]))
        if x[0] == 'slice':
            for y in dag_nodes(x[2]):
                allowed_ns.add(id(y))
        if x[0] == 'method' and x[2] in ('startswith', 'removeprefix'):
            for a in x[3]:
                for y in dag_nodes(a):
                    allowed_ns.add(id(y))
    config_terms = [x for x in dag_nodes(K.KEY) if x[0] == 'attr' and x[2] in ('_config', 'original_config')]
    for x in dag_nodes(K.KEY):
        if x[0] == 'attr' and x[2] in ENV_ATTRS:
            problems.append(f'environment attribute `{pretty(x)}`')
        if x[0] == 'attr' and x[2] in ('_name', 'name') and x[1] in config_terms:
            problems.append(f'config name `{pretty(x)}`')
        if x[0] == 'attr' and x[2] == 'namespace' and id(x) not in allowed_ns:
            problems.append(f'namespace `{pretty(x)}` used as content of the key')
        if x[0] == 'call' and isinstance(x[1], str) and (x[1] in ('id', 'hash', 'builtins.id', 'builtins.hash') or any(x[1].startswith(p) for p in ENV_CALLS if p.endswith('.'))):
            problems.append(f'process-dependent call `{pretty(x)[:60]}`')
        if x[0] == 'global' and any(str(x[1]).startswith(p) for p in ('os.environ', 'sys.argv')):
            problems.append(f'process state `{x[1]}`')
    # input names: the own namespace must be stripped
    strip_ok = False
    for x in dag_nodes(K.KEY):
        if x[0] == 'slice' and any(y[0] == 'attr' and y[2] == 'namespace' for y in dag_nodes(x[2])):
            strip_ok = True
        if x[0] == 'method' and x[2] == 'removeprefix':
            strip_ok = True
    if not strip_ok:
        problems.append('input task names are hashed with the own namespace prefix (mounting under another namespace moves the key)')
    R.check(not problems, 'R02.3', 'TaskParameterConfig.get_name_for_persistence', key_of(sorted(set(problems))), 'only parameter reprs and namespace-stripped input names/keys', '; '.join(sorted(set(problems))), where=where(K.f_key))

    # ---- R02.4
    R.rule('R02.4', 'a parameter contributes text only if not ignore_persistence and not (dont_persist_default_value and value == default); None reprs are dropped; AutoParameterObject skips ignored/default args', floor=4)
    own4 = K.PARAM_REPR_OWN()
    R.require(any(leaf != NONE_T for leaf, g in branches(own4)), 'anchor: AbstractParameter.repr has no text-returning path')
    ign_c4, dp_c4 = ('attr', ('self',), 'ignore_persistence'), ('attr', ('self',), 'dont_persist_default_value')
    # decided on the term under assumptions, so that the case analysis may be written in any shape (early returns, a flag updated in steps, ...)
    ign = assume(own4, lambda c_: True if c_ == ign_c4 else None) == NONE_T

    def _eq_default(c_):
        return c_[0] == 'cmp' and c_[1] in ('Eq', 'NotEq') and any(z == ('attr', ('self',), 'default') for z in c_[2:])
    dflt = assume(own4, lambda c_: False if c_ == ign_c4 else (True if c_ == dp_c4 else ((c_[1] == 'Eq') if _eq_default(c_) else None))) == NONE_T
    R.check(ign and dflt, 'R02.4', 'AbstractParameter.repr', key_of('flags', ign, dflt), 'text only when both flags allow it',
            f'a parameter can contribute to the key although {"ignore_persistence is set" if not ign else "it equals its default and dont_persist_default_value is set"}', where=where(K.f_param_repr))
    check_default_exemption(A, R, 'R02.4', K)
    reg_maps = [x for x in dag_nodes(K.REGISTRY) if x[0] == 'map']
    drop_none = any(x[4] is not None and any(y[0] == 'cmp' and y[1] in ('IsNot', 'NotEq') and NONE_T in y[2:] for y in dag_nodes(x[4])) for x in reg_maps)
    R.check(drop_none, 'R02.4', 'ParameterRegistry.repr', key_of('drop-none'), 'None reprs filtered', 'parameters excluded from persistence (repr None) are not filtered out of the registry repr', where=where(K.f_registry))
    # a registry in which nothing contributes renders exactly as a registry without parameters: every joined text is taken only when the
    # collection of contributing reprs is non-empty, and the alternative is the value of the empty registry (None)
    empty_ok, seen_join = True, False
    for leaf, guards in branches(K.REGISTRY):
        if leaf[0] != 'join':
            continue
        seen_join = True
        coll = leaf[2]
        tested = any(pol and (g_ == coll or (g_[0] == 'cmp' and g_[1] in ('Gt', 'NotEq') and g_[2] == ('call', 'len', (coll,)) and g_[3] == ('lit', 0))) for g_, pol in guards) or \
            any((not pol) and (g_ == ('not', coll) or (g_[0] == 'cmp' and g_[1] == 'Eq' and g_[2] == ('call', 'len', (coll,)) and g_[3] == ('lit', 0))) for g_, pol in guards)
        empty_ok = empty_ok and tested
    if not seen_join:
        R.undecided('R02.4', 'ParameterRegistry.repr: nothing contributes', 'joined text not found among the alternatives of the registry repr', where=where(K.f_registry))
    else:
        others = [leaf for leaf, _ in branches(K.REGISTRY) if leaf[0] != 'join']
        R.check(empty_ok and all(o == NONE_T for o in others), 'R02.4', 'ParameterRegistry.repr: nothing contributes', key_of('empty-registry', empty_ok, [pretty(o)[:30] for o in others]), 'no contributing parameter -> None, as for no parameter',
                'when every declared parameter is excluded from persistence the registry renders as the empty string instead of None (the value of a registry without parameters): declaring an ignored / defaulted parameter changes '
                'the hashed text from `None$$$..` to `$$$..`, i.e. the key', where=where(K.f_registry))
    apo_dicts = [x for x in dag_nodes(K.APO) if x[0] == 'mapdict']
    if not apo_dicts:
        R.undecided('R02.4', 'AutoParameterObject.repr', 'argument-collection idiom not recognised', where=where(K.f_apo))
    else:
        g = apo_dicts[0][5]
        gtxt = pretty(g) if g is not None else ''
        fv0 = K.f_apo.cls.lookup('ignore_persistence_args')
        ign_t = A.sym.func_term(fv0, ('cls', K.f_apo.cls)) if fv0 is not None and (fv0.is_classmethod if hasattr(fv0, 'is_classmethod') else False) else (A.sym.func_term(fv0, ('inst', K.f_apo.cls)) if fv0 is not None else None)
        gnodes = dag_nodes(g) if g is not None else []
        ignored = any(x[0] == 'cmp' and x[1] in ('NotIn', 'In') and (x[3] == ign_t or (x[3][0] in ('ref', 'method', 'call') and 'ignore_persistence_args' in str(x[3]))) for x in gnodes)
        skips = {'ignored names': ignored, 'IgnoreForPersistence values': 'IgnoreForPersistence' in gtxt, 'default-valued args': '.default' in gtxt}
        missing = [k for k, v in skips.items() if not v]
        R.check(not missing, 'R02.4', 'AutoParameterObject.repr', key_of('apo-skips', missing), 'ignored / IgnoreForPersistence / default-valued arguments skipped', f'AutoParameterObject.repr no longer skips {missing}', where=where(K.f_apo))
    # the stored constructor argument is read from `self._<arg>` first, `self.<arg>` only as a fallback (a public attribute of
    # that name may be a derived view of the argument)
    fa_nodes = [n for n in A.typer.own_nodes(K.f_apo) if isinstance(n, ast.Call) and src(n.func) == 'hasattr' and len(n.args) == 2 and src(n.args[0]) == 'self']
    cfga = A.cfg(K.f_apo)
    priv = [n for n in fa_nodes if isinstance(n.args[1], ast.BinOp) or "'_'" in src(n.args[1]) or src(subst_single_assign(A, K.f_apo, n.args[1])).startswith(("'_' +", '"_" +', "f'_", 'f"_'))]
    pub = [n for n in fa_nodes if n not in priv]
    if priv and pub:
        pn = [cn.id for n in priv for cn in cfga.nodes.values() if cn.kind == 'test' and cn.ast is n]
        un = [cn.id for n in pub for cn in cfga.nodes.values() if cn.kind == 'test' and cn.ast is n]
        first_private = bool(pn) and bool(un) and all(any(cfga.dominates(a_, b_) for a_ in pn) for b_ in un)
        R.check(first_private, 'R02.4', 'AutoParameterObject.repr: stored argument', key_of('private-first', first_private), '`self._<arg>` is consulted before `self.<arg>`',
                'the public attribute `self.<arg>` is consulted before the stored `self._<arg>`: an object that exposes a derived view under the argument\'s name (a Path built from a placeholder string, a frozenset) puts the derived, environment-dependent value into the key',
                where=where(K.f_apo))
    # the same on the value term (the lookup may sit in a helper, or be a search over the two attribute names)
    def _is_private(x):
        return x[0] == 'cat' and len(x[1]) >= 2 and x[1][0] == ('lit', '_')

    def _has(c):
        return c[0] == 'call' and c[1] == 'hasattr' and len(c[2]) == 2 and c[2][0] == ('self',)
    wrong_order = []
    for x in dag_nodes(K.APO):
        if x[0] == 'cond' and _has(x[1]) and not _is_private(x[1][2][1]):
            later_private = [y for y in dag_nodes(x[3]) if (_has(y) and _is_private(y[2][1])) or (y[0] == 'call' and y[1] == 'getattr' and len(y[2]) >= 2 and y[2][0] == ('self',) and _is_private(y[2][1]))]
            if later_private:
                wrong_order.append(pretty(x[1]))
    if not (priv and pub):
        R.check(not wrong_order, 'R02.4', 'AutoParameterObject.repr: stored argument', key_of('private-first-term', not wrong_order), '`self._<arg>` is consulted before `self.<arg>`',
                f'the value of an __init__ argument is taken from `self.<arg>` when it exists (`{wrong_order[0][:60] if wrong_order else ""}`) and from the stored `self._<arg>` only otherwise: an object that exposes a derived view under the argument\'s name '
                '(a Path built from a placeholder string) puts the substituted value into the key', where=where(K.f_apo))
    fv = K.f_apo.cls.lookup('ignore_persistence_args')
    R.check(fv is not None and "'verbose'" in src(fv.node), 'R02.4', 'AutoParameterObject.ignore_persistence_args', key_of('ignored-default'), 'verbose/debug ignored by default', 'default ignored arguments changed', where=where(fv) if fv else None)

    # ---- R02.6 key derivation is stateless
    from .purity import check_key_stateless
    check_key_stateless(A, R, 'R02.6')

    # ---- R02.5
    R.rule('R02.5', 'an object\'s own repr attribute wins over the plain-string branch; ReprStr.__repr__ returns the stored text, encoded exactly once', floor=3)
    order = []
    t = K.RFI
    while t[0] == 'cond':
        order.append(t[1])
        t = t[3]
    idx_repr = next((i for i, c in enumerate(order) if c[0] == 'call' and c[1] in ('hasattr', 'builtins.hasattr') and ('lit', 'repr') in c[2]), None)
    idx_str = next((i for i, c in enumerate(order) if c[0] == 'isinst' and c[2] == ('global', 'str')), None)
    if idx_repr is None or idx_str is None:
        R.undecided('R02.5', 'repr_from_instantiation', 'branch chain not recognised', where=where(K.f_rfi))
    else:
        R.check(idx_repr < idx_str, 'R02.5', 'repr_from_instantiation', key_of('repr-before-str'), 'hasattr(obj, "repr") tested before isinstance(obj, str)',
                'the plain-string branch shadows placeholder strings (ReprStr is a str): substituted values would leak into the key', where=where(K.f_rfi))
    idx_inst = next((i for i, c in enumerate(order) if c[0] == 'call' and c[1] in ('hasattr', 'builtins.hasattr') and ('lit', '_taskchain_instantiate_repr') in c[2]), None)
    if idx_repr is not None and idx_inst is not None:
        R.check(idx_repr < idx_inst, 'R02.5', 'repr_from_instantiation: object definitions', key_of('repr-before-instantiate-repr'),
                'an object\'s canonical repr is used before the text of its definition',
                'the text an object was instantiated from (argument order, positional vs keyword, ignored arguments as written) is used although the object has a canonical repr: equal parameter values written differently get different keys',
                where=where(K.f_rfi))
    rs = A.cls('ReprStr')
    frepr = rs.methods.get('__repr__')
    R.require(frepr is not None, 'anchor ReprStr.__repr__ missing')
    tr = A.sym.func_term(frepr, ('inst', rs))
    R.check(tr == ('attr', ('self',), 'repr'), 'R02.5', 'ReprStr.__repr__', key_of('repr-field', pretty(tr)), 'returns the stored placeholder form', f'__repr__ returns `{pretty(tr)}`, not the stored placeholder text', where=where(frepr))
    check_reprstr_levels(A, R, 'R02.5')

    # ---- R02.7 / R02.8 shared structural conditions
    from .c01 import check_input_map
    R.rule('R02.7', 'the key names every Task-valued input under the name the consumer declares it by, relative to the consumer\'s own namespace (the same pipeline mounted elsewhere gets the same key)', floor=1)
    check_input_map(A, R, 'R02.7', K)
    from .c11 import check_wrap_condition
    R.rule('R02.8', 'whether a config string is rendered by its original placeholder text does not depend on the values (or presence) of the global variables', floor=1)
    check_wrap_condition(A, R, 'R02.8')


def check_reprstr_levels(A, R: Report, rid: str):
    """Encoding level analysis (also R11.4): ReprStr.__new__ applies repr() to its second argument (level 0 -> field
    level 1); every other store to the field must copy an existing field (level 1); every ReprStr(...) call must pass a
    level-0 value (never a `.repr` field or a repr(...) result)."""
    rs = A.cls('ReprStr')
    new = rs.methods.get('__new__')
    params = new.pos_params
    R.require(len(params) >= 3, 'anchor: ReprStr.__new__(cls, value, repr_) signature changed')
    rp = params[2]
    mod = rs.module
    n = 0
    for f in [x for x in A.prog.functions.values() if x.module is mod]:
        for node in A.typer.own_nodes(f):
            if isinstance(node, ast.Assign) and any(isinstance(t, ast.Attribute) and t.attr == 'repr' for t in node.targets):
                n += 1
                v = node.value
                if f is new:
                    ok = isinstance(v, ast.Call) and src(v.func) == 'repr' and len(v.args) == 1 and src(v.args[0]) == rp
                    why = f'__new__ stores `{src(v)}` instead of repr({rp})'
                else:
                    ok = isinstance(v, ast.Attribute) and v.attr == 'repr'
                    why = f'`{src(node)}` stores a re-encoded or raw text into the placeholder repr'
                R.check(ok, rid, f'{f.short}: store to .repr', key_of('store', src(v)), 'level-1 text stored', why, where=f'{f.module.relpath}:{node.lineno} ({f.short})')
    for f in A.prog.functions.values():
        for node in A.typer.own_nodes(f):
            if isinstance(node, ast.Call) and src(node.func) == 'ReprStr' and len(node.args) >= 2:
                n += 1
                a = node.args[1]
                lvl1 = any(isinstance(x, ast.Attribute) and x.attr == 'repr' for x in ast.walk(a)) or any(isinstance(x, ast.Call) and src(x.func) == 'repr' for x in ast.walk(a))
                R.check(not lvl1, rid, f'{f.short}: `{src(node)[:50]}`', key_of('ctor-arg', src(a)), 'raw (level-0) text passed',
                        f'ReprStr(...) receives `{src(a)}`, which is already repr()-encoded: the stored repr gains another pair of quotes and the storage key moves', where=f'{f.module.relpath}:{node.lineno} ({f.short})')
    R.require(n >= 2, 'anchor: fewer than 2 ReprStr stores / constructions found')
