"""Statelessness rules shared by several properties.

Many behavioural guarantees rest on certain functions being *functions of their arguments and of the files on
disk*: the storage-key derivation, the inspection API, the codecs, the readers of run records.  A cache added in
the wrong place (an attribute memo, a module-level dict, functools.lru_cache) breaks them for histories no test
samples.  These rules decide, from effect summaries, that no such state exists on the named call trees.
"""
from __future__ import annotations

from typing import Callable, Iterable, List

from ..effects import Event, is_preexisting
from ..report import Report, key_of
from ..terms import pretty
from ..types import Ctx
from .common import effects_of, where


def state_events(A, ctx: Ctx, any_receiver=False) -> List[Event]:
    out = []
    for e in effects_of(A).collect(ctx):
        if e.kind == 'GLOBAL_STATE':
            out.append(e)
        elif e.kind == 'ATTR_STORE' and (any_receiver or is_preexisting(e.target)):
            out.append(e)
    return out


def check_stateless(A, R: Report, rid: str, construct: str, ctxs: Iterable[Ctx], why: str, allow: Callable[[Event], bool] = None, any_receiver=False, at=None):
    """One obligation per context; violations keyed by (site function, what is stored)."""
    seen = set()
    bad = []
    n = 0
    for ctx in ctxs:
        n += 1
        for e in state_events(A, ctx, any_receiver):
            if allow is not None and allow(e):
                continue
            site = e.ctx.func.short if e.ctx is not None else '?'
            k = (site, e.kind, e.detail)
            if k in seen:
                continue
            seen.add(k)
            bad.append((ctx, e, site))
    for ctx, e, site in bad:
        what = f'stores `{e.detail}` on `{pretty(e.target)[:60]}`' if e.kind == 'ATTR_STORE' else e.detail
        R.violation(rid, construct, key_of(site, e.kind, e.detail), f'{site} {what}: {why}', witness=[e.describe()[:300]], where=where(e.ctx.func, e.site) if e.ctx is not None else at)
    if not bad:
        R.ok(rid, construct, f'{n} call tree(s) free of attribute memos, module-level state and functools caches', where=at)
    return not bad


def check_key_stateless(A, R: Report, rid: str):
    """The storage key and directory are functions of the task's current parameters and inputs only: nothing on the
    derivation's call tree keeps state (attribute memo, class / module-level dict, functools cache)."""
    task = A.cls('Task')
    ctxs = []
    for c in task.all_subclasses():
        for n in ('name_for_persistence', 'path'):
            f = c.lookup(n)
            if f is not None:
                ctxs.append(Ctx(f, ('inst', c)))
    tpc = A.cls('TaskParameterConfig')
    ctxs.append(Ctx(tpc.lookup('get_name_for_persistence'), ('inst', tpc)))
    apo = A.cls('AutoParameterObject')
    ctxs.append(Ctx(apo.lookup('repr'), ('inst', apo)))
    ctxs.append(Ctx(A.func('repr_from_instantiation'), None))
    R.rule(rid, 'no function on the call tree of the storage key / directory derivation keeps state (attribute memo, class- or module-level container, functools cache)', floor=1)
    return check_stateless(A, R, rid, 'storage key derivation', ctxs,
                           'the key of a later chain (other parameter values, other upstream keys, objects initialised later) would be served from the memo: results are stored or looked up under a stale key',
                           any_receiver=True, allow=lambda e: e.kind == 'ATTR_STORE' and e.target is not None and e.target[0] == 'new',
                           at='src/taskchain/chain.py (TaskParameterConfig.get_name_for_persistence)')
