"""C09 - configs compose by declared precedence, without leaking or silent override.

R09.1 context order (global, then exact namespace; later contexts over earlier);  R09.2 isolation (deepcopy on the way
into a config, fresh accumulators when merging, no shared parse state);  R09.3 exact namespace equality;
R09.4 propagation of base dir / global vars / context / composed namespace to used configs;  R09.5 required / dtype
gates and value provenance;  R09.6 the same-task conflict test is a real comparison of config identity;
R09.7 first pass shares no task objects across namespaces;  R09.8 multi-config part selection and #part rewriting.
R09.13 Config.repr_name names file path and part with and without namespace;  R09.4 also: a used Config object is prepared after its last namespace / context store.
"""
from __future__ import annotations

import ast

from ..model import src
from ..report import Report, key_of
from ..terms import assume, cond_leaves, dag_nodes, has_opaque, pretty
from ..types import Ctx
from .c08 import check_name_tests
from .common import TRUSTED_BASE, bound_args, cfg_nodes_for, expanded_facts, facts_text, inl, loop_runs_to_end, normal_succ, src_resolved, subst_single_assign, where
from .purity import check_stateless


def degenerate_equality_classes(A):
    """In-package classes that inherit a container's __eq__ but keep their state in attributes: == between two
    instances compares two empty containers and is constantly True."""
    out = []
    for ci in A.prog.classes.values():
        ext = [b.split('.')[-1] for b in ci.ext_bases()]
        if not any(b in ('dict', 'list', 'set') for b in ext):
            continue
        if any(c.methods.get('__eq__') or c.methods.get('__ne__') for c in ci.in_pkg_mro()):
            continue
        stores_items = False
        for c in ci.in_pkg_mro():
            for f in c.methods.values():
                for n in A.typer.own_nodes(f):
                    if isinstance(n, ast.Subscript) and isinstance(n.ctx, ast.Store) and src(n.value) == 'self':
                        stores_items = True
                    if isinstance(n, ast.Call) and isinstance(n.func, ast.Attribute) and n.func.attr in ('__setitem__', 'update', 'append', 'add', 'setdefault') \
                            and (src(n.func.value) in ('self', 'super()')):
                        stores_items = True
                    if isinstance(n, ast.Call) and src(n.func) in ('super().__init__', 'dict.__init__') and (n.args or n.keywords) and f.name == '__init__':
                        stores_items = True
        if not stores_items:
            out.append(ci)
    return out


def context_layers(A, fac, update_call):
    """The value handed to `self._data.update(...)` as a list of alternatives (one per branch), each a list of layers in
    application order: ('global', term) for the context's own data, ('ns', term) for a per-namespace entry, ('copied', term)
    for anything else that passed deepcopy, ('other', term) otherwise.  Copies are kept in the terms.  None if not evaluable."""
    if not update_call.args:
        return None
    cfgc = A.cls('Config')
    old = getattr(A.sym, 'keep_copies', False)
    A.sym.keep_copies = True
    try:
        ts = A.sym.terms_at(fac, ('inst', cfgc), [update_call.args[0]]).get(id(update_call.args[0]), [])
    finally:
        A.sym.keep_copies = old
    if not ts:
        return None
    from ..terms import contains

    def classify(t):
        inner = t[2][0] if t[0] == 'call' and t[1].endswith('deepcopy') and t[2] else t
        if contains(inner, lambda x: isinstance(x, tuple) and len(x) == 3 and x[0] == 'attr' and x[2] == 'for_namespaces') or inner[0] == 'var':
            return 'ns'
        if contains(inner, lambda x: isinstance(x, tuple) and len(x) == 3 and x[0] == 'attr' and x[2] in ('_data', 'data')):
            return 'global'
        return 'copied' if inner is not t else 'other'

    def alts(t):
        if t[0] == 'cond':
            return alts(t[2]) + alts(t[3])
        if t[0] == 'call' and t[1] in ('update', 'merge') and len(t[2]) >= 2:
            out = [[]]
            for part in t[2]:
                out = [a + b for a in out for b in alts(part)]
            return out
        if t[0] == 'dict' and not t[1]:
            return [[]]
        return [[(classify(t), t)]]

    out = []
    for t in ts:
        out += alts(t)
    return out


def _dtype_raise_by_cases(A, fsv, par):
    """(ok, why) for the ValueError about the value's type in Parameter.set_value, decided on the term of the condition under which it is
    raised (the tests of the enclosing ifs, evaluated where they stand) for the five relevant cases; None if there is no such raise."""
    from ..terms import assume as _assume, dag_nodes as _dag, normalise as _norm
    raises = [n for n in A.typer.own_nodes(fsv) if isinstance(n, ast.Raise) and n.exc is not None and 'type' in src(n.exc) and 'dtype' in src(n.exc)]
    if not raises:
        return None
    r = raises[0]
    conds = []
    child, p = r, getattr(r, '_parent', None)
    while p is not None and not isinstance(p, (ast.FunctionDef, ast.AsyncFunctionDef)):
        if isinstance(p, ast.If):
            tst, pos = p.test, any(child is x for x in p.body)
            while isinstance(tst, ast.UnaryOp) and isinstance(tst.op, ast.Not):
                tst, pos = tst.operand, not pos
            conds.append((tst, pos))
        child, p = p, getattr(p, '_parent', None)
    if not conds:
        return None
    at = A.sym.terms_at(fsv, ('inst', par), [c for c, _ in conds])
    import itertools
    alts = [at.get(id(c), []) for c, _ in conds]
    if not all(alts) or len(list(itertools.product(*alts))) > 8:
        return None
    all_bad = []
    for combo in itertools.product(*alts):
        parts = [t_ if pos else ('not', t_) for t_, (_, pos) in zip(combo, conds)]
        bad_ = _cases_for(_norm(('and', tuple(parts))) if len(parts) > 1 else _norm(parts[0]))
        if bad_ is None:
            return False, 'no isinstance(value, self.dtype) test guards the error'
        all_bad += bad_
    return (not all_bad), '; '.join(sorted(set(all_bad)))


def _cases_for(cond):
    from ..terms import assume as _assume, dag_nodes as _dag
    dt = ('attr', ('self',), 'dtype')
    vals = [x for x in _dag(cond) if x[0] == 'isinst' and x[2] == dt]
    if not vals:
        return None
    v = vals[0][1]
    def case(dtype_none, v_none, inst, is_path, is_str, truthy=True):
        def d(c):
            if c == ('cmp', 'Is', dt, ('lit', None)):
                return dtype_none
            if c == ('cmp', 'IsNot', dt, ('lit', None)):
                return not dtype_none
            if c == dt:
                return not dtype_none
            if c == ('cmp', 'Is', v, ('lit', None)):
                return v_none
            if c == ('cmp', 'IsNot', v, ('lit', None)):
                return not v_none
            if c == v or c == ('call', 'bool', (v,)):
                return truthy and not v_none
            if c == ('isinst', v, dt):
                return inst
            if c[0] == 'cmp' and c[1] in ('Is', 'Eq') and dt in c[2:] and any(str(z).endswith("Path')") or z == ('global', 'pathlib.Path') or z == ('global', 'Path') for z in c[2:]):
                return is_path
            if c[0] == 'isinst' and c[1] == v and c[2] in (('global', 'str'), ('builtin', 'str')):
                return is_str
            return None
        from ..terms import truth_under
        return truth_under(cond, d)
    T, F = True, False
    want = [('a str for another dtype', case(False, False, False, False, True), T), ('a non-str for dtype Path', case(False, False, False, True, False), T),
            ('a falsy value of the wrong type', case(False, False, False, False, False, truthy=False), T),
            ('None', case(False, True, False, False, False), F), ('a value of the declared type', case(False, False, True, False, False), F),
            ('a str for dtype Path', case(False, False, False, True, True), F), ('no dtype declared', case(True, False, False, False, False), F)]
    return [f'{name}: {"does not raise" if exp == T else "raises"}' for name, got, exp in want if got != exp]


class _Upd:
    """One update of the config's data by context values in Config.apply_context - written there, or in a private helper it calls."""
    def __init__(self, site, call, arg, copied, owner):
        self.site = site        # node inside apply_context (the update call, or the call of the helper): control-flow position
        self.call = call        # the `.update(...)` call itself
        self.arg = arg          # what is copied in, in apply_context's terms
        self.copied = copied    # the argument passes deepcopy before it is handed to update
        self.owner = owner


def context_update_sites(A, fac):
    out = []
    for n, o, sites in A.nodes_with_sites(fac):
        if not (isinstance(n, ast.Call) and isinstance(n.func, ast.Attribute) and n.func.attr == 'update' and n.args):
            continue
        from .common import resolve_expr
        base = resolve_expr(A, fac, n.func.value, o, sites)
        if src(base) != 'self._data':
            continue
        arg = subst_single_assign(A, o, n.args[0])
        copied = isinstance(arg, ast.Call) and src(arg.func).split('.')[-1] == 'deepcopy'
        inner = arg.args[0] if copied and arg.args else arg
        inner = resolve_expr(A, fac, inner, o, sites) if isinstance(inner, ast.Name) else inner
        out.append(_Upd(sites[0] if sites else n, n, inner, copied, o))
    return out


def check_context_isolation(A, R: Report, rid: str):
    cfgc = A.cls('Config')
    ctxc = A.cls('Context')
    fac = cfgc.lookup('apply_context')
    fmc = ctxc.lookup('merge_contexts')
    upd_sites = context_update_sites(A, fac)
    loops = [n for n in A.typer.own_nodes(fmc) if isinstance(n, ast.For) and src(n.iter).startswith(fmc.params[0])]
    for us in upd_sites:
        u, arg = us.call, us.arg
        ok = us.copied
        lay = context_layers(A, fac, u) if us.owner is fac else None
        if lay is not None:
            raw = [pretty(t)[:80] for br in lay for kind, t in br if kind != 'copied' and not (t[0] == 'call' and t[1].endswith('deepcopy'))]
            ok = ok and not raw
        R.check(ok, rid, f'Config.apply_context: `{src(us.site)[:60]}`', key_of('no-deepcopy', src(arg) if arg is not None and not ok else (src(us.call.args[0]) if us.owner is fac else 'copied')), 'deep-copied',
                'context values are shared by reference with the config: mutating one config (object instantiation, placeholder substitution) changes the context and every other config built from it', where=where(fac, us.site))
    # accumulators of merge_contexts
    acc = {}
    for n in A.typer.own_nodes(fmc):
        if (isinstance(n, ast.Assign) and len(n.targets) == 1 and isinstance(n.targets[0], ast.Name)) or (isinstance(n, ast.AnnAssign) and isinstance(n.target, ast.Name) and n.value is not None):
            v = n.value
            fresh = isinstance(v, (ast.Dict, ast.List)) and not (getattr(v, 'keys', None) or getattr(v, 'elts', None)) or (isinstance(v, ast.Call) and src(v.func) in ('dict', 'defaultdict', 'list', 'OrderedDict') and
                                                                                                                         all(src(a) in ('dict', 'list') for a in v.args))
            acc[(n.targets[0] if isinstance(n, ast.Assign) else n.target).id] = fresh
    mutated = set()
    alias = []
    for lp in loops:
        loopvars = {x.id for x in ast.walk(lp.target) if isinstance(x, ast.Name)}
        for n in ast.walk(lp):
            if isinstance(n, ast.Call) and isinstance(n.func, ast.Attribute) and n.func.attr in ('update', 'append', 'extend', 'setdefault'):
                base = n.func.value
                for _ in range(4):
                    while isinstance(base, ast.Subscript):
                        base = base.value
                    nb = subst_single_assign(A, fmc, base) if isinstance(base, ast.Name) and not acc.get(base.id) else base
                    if nb is base:
                        break
                    base = nb
                if isinstance(base, ast.Name):
                    mutated.add(base.id)
                elif isinstance(base, ast.Attribute):
                    mutated.add(src(base))
            if isinstance(n, ast.For):
                loopvars |= {x.id for x in ast.walk(n.target) if isinstance(x, ast.Name)}
        for n in ast.walk(lp):
            # acc.setdefault(key, <object taken from a context>): the context's own object becomes part of the result
            if isinstance(n, ast.Call) and isinstance(n.func, ast.Attribute) and n.func.attr == 'setdefault' and len(n.args) == 2:
                v2 = n.args[1]
                if (isinstance(v2, ast.Name) and v2.id in loopvars) or (isinstance(v2, ast.Attribute) and isinstance(v2.value, ast.Name) and v2.value.id in loopvars):
                    alias.append(n)
            if isinstance(n, ast.Assign) and isinstance(n.targets[0], ast.Subscript):
                v = n.value
                if (isinstance(v, ast.Name) and v.id in loopvars) or (isinstance(v, ast.Attribute) and isinstance(v.value, ast.Name) and v.value.id in loopvars) \
                        or (isinstance(v, ast.Subscript) and any(isinstance(x, ast.Name) and x.id in loopvars for x in ast.walk(v.value))):
                    alias.append(n)
    bad_acc = [m for m in mutated if m in acc and not acc[m]] + [m for m in mutated if m not in acc and not m.startswith('self')]
    R.check(not bad_acc and not alias, rid, 'Context.merge_contexts', key_of('merge-alias', sorted(bad_acc), [src(a)[:60] for a in alias]), 'only fresh accumulators are mutated',
            f'merging mutates / aliases its inputs ({sorted(bad_acc) or [src(a) for a in alias]}): values of one merge leak into the original contexts and into later merges', where=where(fmc))


_MUTATORS = {'update', 'pop', 'popitem', 'clear', 'setdefault', 'append', 'extend', 'insert', 'remove', 'sort', 'reverse', '__setitem__', '__delitem__', 'discard', 'add'}
_FRESH_CALLS = {'dict', 'list', 'set', 'tuple', 'sorted', 'copy', 'deepcopy', 'copy.copy', 'copy.deepcopy', 'defaultdict', 'OrderedDict', 'frozenset', 'str', 'map', 'filter'}


def owned_mutations(A, f, owned_params, depth=2, data_kw=('data',)):
    """Statements of `f` (and, up to `depth`, of repo functions it hands such objects to) that mutate an object the caller owns:
    the parameters `owned_params`, anything read out of them (attributes, items, .get()), and objects constructed *around* them
    (`Context(data=<owned>)` keeps the mapping itself).  Copies (dict(), comprehension, copy(), deepcopy()) are fresh."""
    owned = set(owned_params)
    nodes = list(A.typer.own_nodes(f))

    def is_owned(e):
        if isinstance(e, ast.Name):
            return e.id in owned
        if isinstance(e, (ast.Attribute, ast.Subscript)):
            return is_owned(e.value)
        if isinstance(e, ast.Starred):
            return is_owned(e.value)
        if isinstance(e, ast.IfExp):
            return is_owned(e.body) or is_owned(e.orelse)
        if isinstance(e, ast.BoolOp):
            return any(is_owned(v) for v in e.values)
        if isinstance(e, ast.NamedExpr):
            return is_owned(e.value)
        if isinstance(e, ast.Call):
            fn = src(e.func)
            if fn in _FRESH_CALLS or fn.split('.')[-1] in ('copy', 'deepcopy'):
                return False
            if isinstance(e.func, ast.Attribute) and e.func.attr in ('get', 'setdefault', 'values', 'items') and is_owned(e.func.value):
                return True
            ci = A.prog.find_cls(fn)
            if ci is not None:      # an object built around the caller's mapping
                return any(kw.arg in data_kw and is_owned(kw.value) for kw in e.keywords)
            return False
        return False

    def elems_owned(e):
        """the elements of `e` are the caller's objects, although `e` itself may be a fresh (shallow) container"""
        if is_owned(e):
            return True
        if isinstance(e, ast.Call) and 'deepcopy' not in src(e.func):
            return any(elems_owned(a) for a in e.args)
        return False

    changed = True
    while changed:
        changed = False
        for n in nodes:
            tgt = val = None
            if isinstance(n, ast.Assign) and len(n.targets) == 1:
                tgt, val = n.targets[0], n.value
            elif isinstance(n, ast.AnnAssign) and n.value is not None:
                tgt, val = n.target, n.value
            elif isinstance(n, ast.NamedExpr):
                tgt, val = n.target, n.value
            elif isinstance(n, ast.For):
                tgt, val = n.target, n.iter
            if tgt is None:
                continue
            if is_owned(val) or (isinstance(n, ast.For) and elems_owned(val)):
                for x in ast.walk(tgt) if isinstance(tgt, (ast.Tuple, ast.List)) else [tgt]:
                    if isinstance(x, ast.Name) and x.id not in owned:
                        owned.add(x.id)
                        changed = True
    out = []
    for n in nodes:
        if isinstance(n, ast.Delete):
            for t in n.targets:
                if isinstance(t, (ast.Subscript, ast.Attribute)) and is_owned(t.value):
                    out.append((f, n, f'`{src(n)[:70]}`'))
        elif isinstance(n, (ast.Assign, ast.AugAssign, ast.AnnAssign)):
            tg = n.targets if isinstance(n, ast.Assign) else [n.target]
            for t in tg:
                for x in ([t] + list(getattr(t, 'elts', []))):
                    if isinstance(x, (ast.Subscript, ast.Attribute)) and is_owned(x.value) and not (isinstance(x, ast.Attribute) and src(x.value) in ('self', 'cls')):
                        out.append((f, n, f'`{src(n)[:70]}`'))
        elif isinstance(n, ast.Call):
            if isinstance(n.func, ast.Attribute) and n.func.attr in _MUTATORS and is_owned(n.func.value):
                out.append((f, n, f'`{src(n)[:70]}`'))
            elif depth > 0:
                tgs = [t for t in A.typer.call_targets(n, Ctx(f, None)) if t.kind == 'func' and t.func is not None]
                for tg in tgs[:3]:
                    g = tg.func
                    if g is f or g.qualname == f.qualname:
                        continue
                    ba = bound_args(n, g) or {}
                    op = [k for k, v in ba.items() if is_owned(v)]
                    if op:
                        for (_, m, what) in owned_mutations(A, g, op, depth - 1, data_kw)[0]:
                            out.append((f, n, f'`{src(n)[:50]}` -> {g.qualname}: {what}'))
    return out, owned


def merge_order(A, fmc):
    """(ok | None, why) for Context.merge_contexts (private helpers included): forward loop over all contexts; global data
    merged with update(); every namespace entry merged key by key into the accumulated entry of that namespace."""
    triples = A.nodes_with_sites(fmc)
    cparam = fmc.params[0]

    def resolve(e, owner, sites, depth=0):
        """expression of a helper rewritten in the caller's terms (helper parameters -> call arguments; single assignments)"""
        if depth > 4:
            return e
        if isinstance(e, ast.Name):
            if owner is not fmc and sites and e.id in owner.params:
                call = sites[-1]
                ba = bound_args(call, owner, skip_self=not owner.is_static and owner.cls is not None and isinstance(call.func, ast.Attribute) and src(call.func.value) == 'self') or {}
                if e.id in ba:
                    caller = fmc
                    return resolve(ba[e.id], caller, sites[:-1], depth + 1)
            if owner is fmc and e.id in fresh:
                return e
            e2 = subst_single_assign(A, owner, e)
            if e2 is not e:
                return resolve(e2, owner, sites, depth + 1)
        return e

    fresh = set()
    outer = [(n, o, s_) for n, o, s_ in triples if isinstance(n, ast.For) and o is fmc and src(n.iter).replace(' ', '') in (cparam, f'list({cparam})', f'iter({cparam})')]
    rev = [n for n, o, s_ in triples if isinstance(n, ast.For) and o is fmc and ('reversed' in src(n.iter) or '[::-1]' in src(n.iter)) and cparam in src(n.iter)]
    if rev:
        return False, 'contexts are iterated in reverse'
    if len(outer) != 1 or not isinstance(outer[0][0].target, ast.Name):
        return None, 'loop over the contexts not recognised'
    lp = outer[0][0]
    cv = lp.target.id
    if not loop_runs_to_end(lp):
        return False, 'the loop over the contexts can end early'
    for n, o, s_ in triples:
        if o is fmc and isinstance(n, (ast.Assign, ast.AnnAssign)) and isinstance(n.targets[0] if isinstance(n, ast.Assign) else n.target, ast.Name) and n.value is not None:
            v = n.value
            if (isinstance(v, ast.Dict) and not v.keys) or (isinstance(v, ast.Call) and src(v.func) in ('dict', 'defaultdict', 'OrderedDict') and all(src(x) == 'dict' for x in v.args)):
                fresh.add((n.targets[0] if isinstance(n, ast.Assign) else n.target).id)
    inside = {id(x) for x in ast.walk(lp)}
    in_loop = [(n, o, s_) for n, o, s_ in triples if id(n) in inside or any(id(c) in inside for c in s_)]
    data_ok = ns_ok = False
    wholesale = first_wins = False
    for n, o, s_ in in_loop:
        if not (isinstance(n, ast.Call) and isinstance(n.func, ast.Attribute)):
            continue
        if n.func.attr == 'setdefault':
            first_wins = True
        if n.func.attr != 'update' or len(n.args) != 1:
            continue
        recv = resolve(n.func.value, o, s_)
        arg = resolve(n.args[0], o, s_)
        if isinstance(recv, ast.Name) and recv.id in fresh and src(arg) == f'{cv}.data':
            data_ok = True
        if isinstance(recv, ast.Name) and recv.id in fresh and src(arg) == f'{cv}.for_namespaces':
            wholesale = True
        # <acc>[ns].update(values) inside `for ns, values in <ctx>.for_namespaces.items()`
        inner = [p for p in _parents(n) if isinstance(p, ast.For)]
        for ip in inner:
            if not (isinstance(ip.iter, ast.Call) and isinstance(ip.iter.func, ast.Attribute) and ip.iter.func.attr == 'items' and isinstance(ip.target, ast.Tuple) and len(ip.target.elts) == 2
                    and all(isinstance(e_, ast.Name) for e_ in ip.target.elts)):
                continue
            seq = resolve(ip.iter.func.value, o, s_)
            if src(seq) != f'{cv}.for_namespaces':
                continue
            kv, vv = ip.target.elts[0].id, ip.target.elts[1].id
            if isinstance(recv, ast.Subscript) and src(recv.slice) == kv and src(arg) == vv:
                base = resolve(recv.value, o, s_)
                if isinstance(base, ast.Name) and base.id in fresh and loop_runs_to_end(ip):
                    ns_ok = True
    if first_wins:
        return False, 'setdefault keeps the first value'
    if wholesale:
        return False, 'whole per-namespace mapping is overwritten, entries of one namespace are not merged'
    if not data_ok or not ns_ok:
        return None, f'merge idiom not recognised (data merged: {data_ok}, namespace entries merged: {ns_ok})'
    return True, ''


def run(A, R: Report, thorough: bool):
    R.explanation = ('CFG ordering of the context updates; taint rule with deepcopy as sanitiser on every flow from a context into a config; freshness of merge accumulators; '
                     'sibling cross-check of the Config(...) constructions for used configs; branch facts at the required / dtype raises; class-table analysis of degenerate container '
                     'equality; structural rules on multi-config part handling. Not decided: the resulting values for every config tree; YAML/JSON parsing.')
    R.trusted = TRUSTED_BASE + ['copy.deepcopy produces a structure sharing no mutable object with its argument']
    cfgc = A.cls('Config')
    ctxc = A.cls('Context')

    # ---- R09.1
    R.rule('R09.1', 'apply_context applies global context data before the namespace entry; merge_contexts lets later contexts overwrite earlier ones', floor=2)
    fac = cfgc.lookup('apply_context')
    cfg = A.cfg(fac)
    upd1 = context_update_sites(A, fac)
    updates = [us.site for us in upd1]
    R.require(len(updates) >= 1, 'anchor: no update of self._data in Config.apply_context (directly or through a private helper)')
    glob = [u for u in updates if 'for_namespaces' not in src(u) and not any(isinstance(p, ast.For) for p in _parents(u))]
    nsup = [u for u in updates if any(isinstance(p, ast.For) and 'for_namespaces' in src(p.iter) for p in _parents(u))]
    lay = [context_layers(A, fac, us.call) if us.owner is fac else None for us in upd1]
    if len(updates) == 1 and lay[0] is not None:
        # one update with a prepared overlay: the overlay's own layers carry the order
        kinds = [k for br in lay[0] for k in [[kind for kind, _ in br]]]
        ok1 = all(ks and ks[0] == 'global' and all(a != 'ns' or b != 'global' for a, b in zip(ks, ks[1:])) for ks in kinds) and any('ns' in ks for ks in kinds)
        R.check(ok1, 'R09.1', 'Config.apply_context', key_of('order-overlay', kinds), 'global entries first, namespace entries override them',
                f'the overlay applied to the config is built as {kinds}: the per-namespace entry is missing or is overwritten by the global context data', where=where(fac))
    elif not glob or not nsup:
        R.undecided('R09.1', 'Config.apply_context', 'global / per-namespace update idiom not recognised', where=where(fac))
    else:
        g_nodes = [n.id for u in glob for n in cfg_nodes_for(cfg, u)]
        n_nodes = [n.id for u in nsup for n in cfg_nodes_for(cfg, u)]
        back = cfg.find_path(n_nodes, g_nodes)
        dom = all(any(cfg.dominates(g, n) for g in g_nodes) for n in n_nodes)
        R.check(back is None and dom, 'R09.1', 'Config.apply_context', key_of('order', back is None, dom), 'global entries first, namespace entries override them',
                'the per-namespace entry can be applied before (and be overwritten by) the global context data', where=where(fac))
    fmc = ctxc.lookup('merge_contexts')
    ok_m, why_m = merge_order(A, fmc)
    if ok_m is None:
        R.undecided('R09.1', 'Context.merge_contexts', why_m, where=where(fmc))
    else:
        R.check(ok_m, 'R09.1', 'Context.merge_contexts', key_of('merge-order', why_m), 'forward iteration; data and each namespace entry updated key by key: later wins',
                f'contexts are not merged in forward order with overwriting, key-by-key updates ({why_m}): an earlier context can win over a later one, or whole namespace entries are replaced', where=where(fmc))

    # ---- R09.2
    R.rule('R09.2', 'everything copied from a context into a config passes deepcopy; merge accumulators are fresh containers; config / context construction keeps no shared parse state', floor=4)
    check_context_isolation(A, R, 'R09.2')
    for ci, label in ((cfgc, 'Config'), (ctxc, 'Context')):
        init = ci.lookup('__init__')
        check_stateless(A, R, 'R09.2', f'{label}(...) construction', [Ctx(init, ('inst', ci))],
                        'data parsed for one config must not be reachable from another (a shared parse cache hands the same nested dicts to every Config built from the file; context values written into one leak into the others)',
                        allow=lambda e: e.kind == 'ATTR_STORE', at=where(init))

    # ---- R09.3
    R.rule('R09.3', 'a per-namespace context entry applies to exactly the config\'s namespace (== on whole namespace paths)', floor=1)
    cfg3 = A.cfg(fac)
    ns_updates = [u for u in [us.site for us in context_update_sites(A, fac)]
                  if any(isinstance(p, ast.For) and 'for_namespaces' in src(p.iter) for p in _parents(u))]
    if not ns_updates:
        R.undecided('R09.3', 'Config.apply_context', 'per-namespace update not recognised', where=where(fac))
    for u in ns_updates:
        lp = next(p for p in _parents(u) if isinstance(p, ast.For) and 'for_namespaces' in src(p.iter))
        keyvar = lp.target.elts[0].id if isinstance(lp.target, ast.Tuple) and isinstance(lp.target.elts[0], ast.Name) and src(lp.iter).endswith('.items()') else \
            (lp.target.id if isinstance(lp.target, ast.Name) else None)
        ok = keyvar is not None
        shown = []
        for cn in cfg_nodes_for(cfg3, u):
            exact = False
            for a_, pol in expanded_facts(A, fac, cfg3, cn.id):
                if isinstance(a_, ast.Compare) and len(a_.ops) == 1 and ((isinstance(a_.ops[0], ast.Eq) and pol) or (isinstance(a_.ops[0], ast.NotEq) and not pol)):
                    sides = {src(subst_single_assign(A, fac, a_.left)), src(subst_single_assign(A, fac, a_.comparators[0]))}
                    if sides == {'self.namespace', keyvar}:
                        exact = True
                        shown.append(src(a_))
            ok = ok and exact
        R.check(ok, 'R09.3', f'Config.apply_context: `{src(u)[:50]}`', key_of('ns-compare', src(u)[:50]), f'guarded by exact equality {shown[:1]}',
                f'the per-namespace update `{src(u)[:60]}` is not guarded by an exact comparison of the entry\'s namespace with the config\'s namespace: entries for `a` would also reach `a::b` or `ab`', where=where(fac, u))
    for n in A.typer.own_nodes(fac):
        if isinstance(n, ast.Call) and isinstance(n.func, ast.Attribute) and n.func.attr in ('startswith', 'endswith') and 'namespace' in src(n):
            R.violation('R09.3', f'Config.apply_context: `{src(n)}`', key_of('ns-affix', src(n)), f'`{src(n)}` matches namespaces by affix: a context entry for one namespace leaks into others', where=where(fac, n))

    # ---- R09.4
    R.rule('R09.4', 'every config created for a `uses` entry inherits base dir, global vars and context, and gets the composed namespace', floor=2)
    fpc = A.func('Chain._process_config')
    cp = fpc.params[1]
    ctors = [n for n in inl(A, fpc) if isinstance(n, ast.Call) and src(n.func) == 'Config']
    R.require(len(ctors) >= 1, 'anchor: no Config(...) construction in Chain._process_config')
    cinit = cfgc.lookup('__init__')
    cpt = ('p', cp)
    own_ns = ('attr', cpt, 'namespace')
    for c in ctors:
        ba = bound_args(c, cinit) or {}
        at = A.sym.terms_at(fpc, ('inst', A.cls('Chain')), list(ba.values()))
        terms = {k: at[id(v)] for k, v in ba.items()}
        problems = []
        for name in ('base_dir', 'global_vars', 'context'):
            if terms.get(name) != [('attr', cpt, name)]:
                problems.append(f'{name} not inherited')
        nss = terms.get('namespace') or []
        if not nss:
            problems.append('namespace of the using config is not part of the used config\'s namespace')
        for n in nss:
            # with an own namespace every alternative is the own namespace or <own>::<alias>
            under = assume(n, lambda c: True if c == own_ns else (False if c == ('cmp', 'Is', own_ns, ('lit', None)) else None))
            for leaf in cond_leaves(under):
                if leaf == own_ns:
                    continue
                if leaf[0] == 'cat' and len(leaf[1]) == 3 and leaf[1][0] == own_ns and leaf[1][1] == ('lit', '::') and own_ns not in dag_nodes(leaf[1][2]):
                    continue
                if own_ns not in dag_nodes(leaf):
                    problems.append('namespace of the using config is not part of the used config\'s namespace')
                else:
                    problems.append('namespaces are not composed with `::`')
                break
        R.check(not problems, 'R09.4', f'Chain._process_config: `{src(c)[:40]}...`', key_of('propagation', sorted(set(problems))), 'base_dir, global_vars, context, composed namespace', '; '.join(sorted(set(problems))),
                witness=[f'{k} = {pretty(v[0])[:160]}' for k, v in terms.items() if v], where=where(fpc, c))
    obj_branch = [n for n in A.typer.own_nodes(fpc) if isinstance(n, ast.Assign) and src(n.targets[0]) in ('use.context', 'use.namespace')]
    ctx_ok = any(src(n.targets[0]) == 'use.context' and src_resolved(A, fpc, n.value) == f'{cp}.context' for n in obj_branch)
    ns_stores = [n for n in obj_branch if src(n.targets[0]) == 'use.namespace']
    atn = A.sym.terms_at(fpc, ('inst', A.cls('Chain')), [n.value for n in ns_stores]) if ns_stores else {}
    own_ns9 = ('attr', ('p', cp), 'namespace')
    ns_ok = any(any(x[0] == 'cat' and len(x[1]) == 3 and x[1][0] == own_ns9 and x[1][1] == ('lit', '::') for x in dag_nodes(t_)) for n in ns_stores for t_ in atn.get(id(n.value), []))
    prep = any(isinstance(n, ast.Call) and src(n.func) == 'use._prepare' for n in A.typer.own_nodes(fpc))
    R.check(ctx_ok and ns_ok and prep, 'R09.4', 'Chain._process_config: Config object in uses', key_of('object-branch', ctx_ok, ns_ok, prep), 'context and composed namespace assigned, config re-prepared',
            'a Config object listed in `uses` does not receive the context / composed namespace (or is not re-prepared with them)', where=where(fpc))
    # _prepare() applies the context under the namespace the config has at that moment: it comes after the last store of namespace / context
    cfg4 = A.cfg(fpc)
    preps = [n for n in A.typer.own_nodes(fpc) if isinstance(n, ast.Call) and src(n.func) == 'use._prepare']
    heads4 = [n.id for n in cfg4.nodes.values() if n.kind == 'for']
    late = None
    for pc in preps:
        starts = [v for cn in cfg_nodes_for(cfg4, pc) for v in normal_succ(cfg4, cn.id)]
        targets = [cn.id for st in obj_branch for cn in cfg_nodes_for(cfg4, st)]
        pth = cfg4.find_path(starts, targets, avoid=heads4) if starts and targets else None
        if pth is not None:
            late = (pc, pth)
    if preps:
        R.check(late is None, 'R09.4', 'Chain._process_config: re-preparation of a used Config object', key_of('prepare-last', late is None), 'namespace and context are final when the config is prepared',
                'the used config is prepared (context applied, per-namespace entries selected) before its namespace / context is assigned: `for_namespaces` entries are looked up under the namespace it had before it was '
                'mounted, so entries for the composed namespace are ignored and entries for the bare one leak in', witness=cfg4.describe_path(late[1]) if late else None, where=where(fpc, late[0]) if late else where(fpc))

    # ---- R09.13 the identity under which a config is processed once names its part, with and without a namespace
    R.rule('R09.13', 'Config.repr_name (the key under which Chain._process_config skips configs it has seen) contains file path and part on every path, also for a config with a namespace', floor=1)
    frn13 = cfgc.lookup('repr_name')
    R.require(frn13 is not None, 'anchor: Config.repr_name missing')
    rt13 = A.sym.func_term(frn13, ('inst', cfgc))
    fp13, part13, ns13 = ('attr', ('self',), '_filepath'), ('attr', ('self',), '_part'), ('attr', ('self',), 'namespace')

    def _with(ns_given):
        def dec(c):
            if c in (fp13, part13):
                return True
            if c in (('cmp', 'Is', fp13, ('lit', None)), ('cmp', 'Is', part13, ('lit', None))):
                return False
            if c == ns13:
                return ns_given
            if c == ('cmp', 'Is', ns13, ('lit', None)):
                return not ns_given
            if c == ('cmp', 'IsNot', ns13, ('lit', None)):
                return ns_given
            return None
        return assume(rt13, dec)
    for ns_given in (False, True):
        v13 = _with(ns_given)
        construct = f'Config.repr_name ({"with" if ns_given else "without"} namespace)'
        if has_opaque(v13):
            R.undecided('R09.13', construct, 'identifier could not be evaluated symbolically', where=where(frn13))
            continue
        leaves = cond_leaves(v13)
        ok13 = all(part13 in dag_nodes(l_) and fp13 in dag_nodes(l_) for l_ in leaves)
        R.check(ok13, 'R09.13', construct, key_of('part-in-repr-name', ns_given, ok13), 'file path and part are part of the identity',
                f'for a config taken from part `p` of a file {"mounted under a namespace " if ns_given else ""}the identity is `{pretty(v13)[:100]}`: two parts of one file that land in the same namespace get the same identity, '
                'and Chain._process_config silently skips the second - its tasks are missing from the chain (or a dependant fails with "Input task not found")', witness=[pretty(rt13)[:300]], where=where(frn13))

    # ---- R09.5
    R.rule('R09.5', 'a missing required value and a value of the wrong type raise at construction; explicit values (also None) are taken from the config', floor=3)
    par = A.cls('Parameter')
    fsv = par.lookup('set_value')
    cfg = A.cfg(fsv)
    raises = [n for n in cfg.nodes.values() if n.kind == 'stmt' and isinstance(n.ast, ast.Raise) and n.id in cfg.reachable_nodes()]
    req = [r for r in raises if any(t_ == 'self.required' and pol for t_, pol in facts_text(A, fsv, cfg, r.id)) and
           any(('name_in_config' in t_ and ' in ' in t_ and ' not in ' not in t_ and not pol) or ('name_in_config' in t_ and ' not in ' in t_ and pol) or ('is None' in t_ and pol) for t_, pol in facts_text(A, fsv, cfg, r.id))]
    typ = [r for r in raises if any('isinstance' in t_ and 'dtype' in t_ and not pol for t_, pol in facts_text(A, fsv, cfg, r.id))]
    R.check(bool(req), 'R09.5', 'Parameter.set_value: required', key_of('required-raise'), 'raises when absent and required', 'a required parameter that is missing from the config no longer raises', where=where(fsv))
    if not typ:
        # the check may be spelled through locals assigned on several paths: decide the raise condition as a term, by cases
        typ_by_term = _dtype_raise_by_cases(A, fsv, par)
        if typ_by_term is not None:
            ok_cases, why_cases = typ_by_term
            R.check(ok_cases, 'R09.5', 'Parameter.set_value: dtype', key_of('dtype-raise-cases', why_cases), 'raises exactly for a non-None value of the wrong type (a str is accepted for Path)',
                    f'the type check does not behave as required: {why_cases}', where=where(fsv))
            typ = None
    if typ is not None:
        R.check(bool(typ), 'R09.5', 'Parameter.set_value: dtype', key_of('dtype-raise'), 'raises on wrong type', 'a value of the wrong type no longer raises', where=where(fsv))
    typ = typ or []
    # the str-for-Path exception is a conjunction: a str for another dtype, and a non-str for Path, still raise
    allnodes9 = list(cfg.nodes)

    def edge_ids(pred, label):
        return [n.id for n in cfg.nodes.values() if n.kind == 'edge' and n.label == label and pred(src_resolved(A, getattr(n.owner, '_info', None) or fsv, n.ast))]

    is_path = lambda t_: t_.replace(' ', '') in ('self.dtypeisPath', 'self.dtype==Path', 'Pathisself.dtype')
    is_str = lambda t_: t_.startswith('isinstance(') and t_.replace(' ', '').endswith(',str)')
    if typ and (edge_ids(is_path, 'T') or edge_ids(is_str, 'T')):
        tr = [r.id for r in typ]
        str_other = cfg.find_path([cfg.entry.id], tr, avoid=edge_ids(is_path, 'T') + edge_ids(is_str, 'F'), no_exc_from=allnodes9)
        path_nonstr = cfg.find_path([cfg.entry.id], tr, avoid=edge_ids(is_path, 'F') + edge_ids(is_str, 'T'), no_exc_from=allnodes9)
        R.check(str_other is not None and path_nonstr is not None, 'R09.5', 'Parameter.set_value: str-for-Path exception', key_of('path-str', str_other is not None, path_nonstr is not None),
                'only a str given for a Path parameter is exempt from the type check',
                'the exemption "a str is accepted for dtype Path" is no longer a conjunction: ' + ('a str is accepted for every dtype' if str_other is None else 'any value is accepted for dtype Path'), where=where(fsv))
    # only None is exempt from the type check - not every falsy value (0, '', [], False of the wrong type must still be rejected)
    for r in typ:
        truthy = [t_ for t_, pol in facts_text(A, fsv, cfg, r.id) if pol and t_ in ('value', 'bool(value)')]
        ident = [t_ for t_, pol in facts_text(A, fsv, cfg, r.id) if ('is not None' in t_ and pol) or ('is None' in t_ and not pol)]
        R.check(not truthy or bool(ident) and False, 'R09.5', 'Parameter.set_value: dtype check applies to every value but None', key_of('dtype-falsy', sorted(truthy)), 'exempt: None only',
                f'the type check runs only when `{truthy[0] if truthy else ""}` is truthy: 0, 0.0, False, \'\', [] or {{}} of the wrong type reach the task without an error', where=where(fsv, r.ast))
    stores = [v for c, v in A.typer.attr_store_exprs.get((par.qualname, '_value'), []) if c.func is fsv]
    R.require(stores, 'anchor: store to _value in Parameter.set_value not found')
    for v in stores:
        t = A.sym.local_term(fsv, ('inst', par), src(v)) if isinstance(v, ast.Name) else A.sym.expr_term(v, Ctx(fsv, ('inst', par)))
        cfgp = ('p', fsv.params[1])
        nic = ('attr', ('self',), 'name_in_config')
        shape = t[0] == 'cond' and t[1][0] == 'cmp' and t[1][1] == 'In' and t[1][2] == nic and cfgp in dag_nodes(t[1][3]) and t[2][0] == 'index' and t[2][2] == nic and cfgp in dag_nodes(t[2][1]) \
            and t[3] == ('attr', ('self',), 'default')
        R.check(shape, 'R09.5', 'Parameter.set_value: value', key_of('value-shape', pretty(t)[:160]), 'config entry when the name is present (whatever its value), default otherwise',
                f'the parameter value is `{pretty(t)[:200]}`: presence of the name in the config no longer decides between the configured value and the default (e.g. an explicit null is replaced)', where=where(fsv))

    # ---- R09.6
    R.rule('R09.6', 'the same-task conflict test compares config identity; no ==/!= between instances of classes whose container equality is degenerate', floor=2)
    deg = degenerate_equality_classes(A)
    R.require(any(c.name == 'Config' for c in deg), 'positive control failed: Config is not recognised as a degenerate-equality class')
    n_cmp = 0
    for f in A.prog.functions.values():
        for ctx in A.typer.contexts_of(f)[:1]:
            for n in A.typer.own_nodes(f):
                if isinstance(n, ast.Compare) and len(n.ops) == 1 and isinstance(n.ops[0], (ast.Eq, ast.NotEq)):
                    lt, rt = A.typer.expr(n.left, ctx), A.typer.expr(n.comparators[0], ctx)
                    lc = [t[1] for t in lt if t[0] == 'inst']
                    rc = [t[1] for t in rt if t[0] == 'inst']
                    if lc and rc and all(any(c.is_subclass_of(d) for d in deg) for c in lc + rc):
                        n_cmp += 1
                        R.violation('R09.6', f'{f.short}: `{src(n)[:60]}`', key_of('degenerate-eq', f.short, src(n)),
                                    f'`{src(n)}` compares two {lc[0].name} objects with {"==" if isinstance(n.ops[0], ast.Eq) else "!="}: {lc[0].name} derives from dict but keeps its data in attributes, so the comparison is constant', where=where(f, n))
    R.ok('R09.6', 'package', f'{len(deg)} degenerate-equality classes ({", ".join(sorted(c.name for c in deg))}); {n_cmp} ==/!= between their instances', where='src/taskchain')
    freg = A.prog.find_func('Chain._create_tasks._register_task')
    if freg is None:
        R.undecided('R09.6', 'Chain._create_tasks', 'conflict check helper not found', where=where(A.func('Chain._create_tasks')))
    else:
        cfg = A.cfg(freg)
        rs = [n for n in cfg.nodes.values() if n.kind == 'stmt' and isinstance(n.ast, ast.Raise)]
        if not rs:
            R.violation('R09.6', 'Chain._create_tasks._register_task', key_of('no-conflict-raise'), 'two configs declaring the same task in one namespace are no longer reported', where=where(freg))
        for r in rs:
            facts = [(a, pol) for a, pol in cfg.facts_at(r.id)]
            texts = facts_text(A, freg, cfg, r.id)
            present = any(' in tasks' in t and ' not in ' not in t and pol for t, pol in texts) or any(' not in tasks' in t and not pol for t, pol in texts) or \
                any('tasks.get(' in t and ((t.endswith(' is not None') and pol) or (t.endswith(' is None') and not pol)) for t, pol in texts)
            rel = [(t, pol, a) for (t, pol), (a, _) in zip(texts, facts) if isinstance(a, ast.Compare) and len(a.ops) == 1 and 'get_config()' in t]
            ident = any(((isinstance(a.ops[0], ast.IsNot) and pol) or (isinstance(a.ops[0], ast.Is) and not pol)) and t.count('get_config()') == 2 and not any(c_ in t for c_ in ('str(', "f'", 'f"', 'repr(', '.name', '.fullname'))
                        for t, pol, a in rel)
            by_repr = any('repr_name' in t and ((isinstance(a.ops[0], ast.NotEq) and pol) or (isinstance(a.ops[0], ast.Eq) and not pol)) for t, pol, a in rel)
            other_cmp = [t for t, pol, a in rel if not isinstance(a.ops[0], (ast.Is, ast.IsNot)) and 'repr_name' not in t]
            if present and (ident or by_repr) and not other_cmp:
                R.ok('R09.6', 'Chain._create_tasks._register_task', 'conflict = same task name from a different config object', where=where(freg, r.ast))
            elif other_cmp or any(isinstance(a.ops[0], (ast.Is, ast.IsNot)) for t, pol, a in rel):
                R.violation('R09.6', 'Chain._create_tasks._register_task', key_of('conflict-not-identity', other_cmp[:1] or [t for t, _, _ in rel][:1]),
                            f'the conflict test `{(other_cmp or [t for t, _, _ in rel])[0][:100]}` compares a rendering / name of the two configs instead of their identity: two different config files with the same name declaring the same task silently override each other',
                            where=where(freg, r.ast))
            else:
                R.undecided('R09.6', 'Chain._create_tasks._register_task', f'conflict condition not recognised: {texts}', where=where(freg, r.ast))

    # ---- R09.7
    from .c01 import run as _  # noqa: F401  (rule shared with C01.R01.6)
    R.rule('R09.7', 'in parameter mode the first pass creates one task object per declaration (no sharing across namespaces)', floor=1)
    fprep = A.func('Chain._prepare')
    calls = [n for n in A.typer.own_nodes(fprep) if isinstance(n, ast.Call) and isinstance(n.func, ast.Attribute) and n.func.attr == '_create_tasks']
    R.require(calls, 'anchor: _create_tasks call not found in Chain._prepare')
    for c in calls:
        from .common import first_pass_registry
        pm = first_pass_registry(A, fprep, c)
        R.check(pm == 'None', 'R09.7', 'Chain._prepare: first pass', key_of('first-pass-registry', pm), 'no registry in parameter mode',
                f'first-pass tasks are shared through `{pm}` under a key without the namespace: per-namespace context values of one mounting reach the tasks of another', where=where(fprep, c))

    # ---- R09.8
    R.rule('R09.8', '#part references are rewritten to file#part for exactly the entries starting with #; a part is selected by name or as the unique main part', floor=2)
    fuu = cfgc.lookup('_update_uses')
    cfg = A.cfg(fuu)
    stores8 = []
    for lp in [n for n in inl(A, fuu) if isinstance(n, ast.For)]:
        # for i, use in enumerate(<uses list>): <uses list>[i] = ...
        if not (isinstance(lp.iter, ast.Call) and src(lp.iter.func) == 'enumerate' and isinstance(lp.target, ast.Tuple) and len(lp.target.elts) == 2 and all(isinstance(e, ast.Name) for e in lp.target.elts)):
            continue
        idx, elem = lp.target.elts[0].id, lp.target.elts[1].id
        seq = src(subst_single_assign(A, fuu, lp.iter.args[0], identity=True)) if lp.iter.args else ''
        if "['uses']" not in seq:
            continue
        for n in ast.walk(lp):
            if isinstance(n, ast.Assign) and isinstance(n.targets[0], ast.Subscript) and src(n.targets[0].slice) == idx:
                base = src(subst_single_assign(A, fuu, n.targets[0].value, identity=True))
                stores8.append((n, elem, base == seq or "['uses']" in base))
    ok8 = bool(stores8)
    for st, elem, same_list in stores8:
        for cn in cfg_nodes_for(cfg, st):
            guard = any(isinstance(a_, ast.Call) and isinstance(a_.func, ast.Attribute) and a_.func.attr == 'startswith' and src(a_.func.value) == elem and a_.args and src(a_.args[0]) in ("'#'", '"#"') and pol
                        for a_, pol in expanded_facts(A, fuu, cfg, cn.id))
            t = A.sym.terms_at(fuu, ('inst', cfgc), [st.value])[id(st.value)]
            val_ok = bool(t) and all(x[0] == 'cat' and len(x[1]) == 2 and ('attr', ('self',), '_filepath') in dag_nodes(x[1][0]) and x[1][1][0] == 'var' for x in t)
            ok8 = ok8 and guard and val_ok and same_list
    R.check(ok8, 'R09.8', 'Config._update_uses', key_of('part-rewrite', [src(s_[0]) for s_ in stores8]), '`#part` -> `<own file>#part`', '`#part` references are not rewritten to the own file (or other entries are rewritten too)', where=where(fuu))
    finit9 = cfgc.lookup('__init__')
    cfgi = A.cfg(finit9)
    part_from_path = [n for n in inl(A, finit9) if isinstance(n, ast.Assign) and any(src(x) == 'self._part' for t_ in n.targets for x in ([t_] + (list(t_.elts) if isinstance(t_, (ast.Tuple, ast.List)) else [])))
                      and "'#'" in src(n.value)]
    from .common import part_stores
    for n, guarded in part_stores(A)[1]:
        R.check(guarded, 'R09.8', f'Config.__init__: `{src(n)[:50]}`', key_of('part-from-path', guarded), 'the part is taken from the path only when the path contains `#`',
                f'`{src(n)[:70]}` runs for every file path: a part given explicitly (part=...) is overwritten when the path has no `#`, so the config silently falls back to the main part', where=where(finit9, n))
    fgp = cfgc.lookup('_get_part')
    cfgp = A.cfg(fgp)
    dstores = [n for n in inl(A, fgp) if isinstance(n, ast.Assign) and any(src(x) == 'self._data' for t_ in n.targets for x in ([t_] + (list(t_.elts) if isinstance(t_, (ast.Tuple, ast.List)) else [])))]
    atp = A.sym.terms_at(fgp, ('inst', cfgc), [n.value for n in dstores])
    named = ('index', ('index', ('attr', ('self',), '_data'), ('lit', 'configs')), ('attr', ('self',), '_part'))
    sel = any(t_ == named for n in dstores for t_ in atp.get(id(n.value), []))
    sel_guard = any(any(t_ in ('self._part',) and pol for t_, pol in facts_text(A, fgp, cfgp, cn.id)) for n in dstores for cn in cfg_nodes_for(cfgp, n)
                    if any(t_ == named for t_ in atp.get(id(n.value), [])))
    main = any(any("get('main_part'" in t_ and pol for t_, pol in facts_text(A, fgp, cfgp, cn.id)) for n in dstores for cn in cfg_nodes_for(cfgp, n))
    final_raise = any(n.kind == 'stmt' and isinstance(n.ast, ast.Raise) and 'KeyError' in src(n.ast) and n.id not in cfgp.in_handler and n.id in cfgp.reachable_nodes() for n in cfgp.nodes.values())
    missing_raise = any(n.kind == 'stmt' and isinstance(n.ast, ast.Raise) and 'KeyError' in src(n.ast) and n.id in cfgp.in_handler for n in cfgp.nodes.values())
    if not dstores:
        R.undecided('R09.8', 'Config._get_part', 'part selection idiom not recognised', where=where(fgp))
    else:
        R.check(sel and sel_guard and main and final_raise and missing_raise, 'R09.8', 'Config._get_part', key_of('part-select', sel, sel_guard, main, final_raise, missing_raise),
                'named part, else the main part, else an error', 'part selection no longer is: the named part (error if absent), else the unique main part, else an error', where=where(fgp))

    # ---- R09.12 the per-task parameter config of the second pass must hand every declared parameter on under the name it is looked up by
    from .c01 import check_parameter_copy
    R.rule('R09.12', 'the per-task parameter config copies every declared parameter under the name the recreated task looks it up by (name_in_config)', floor=1)
    check_parameter_copy(A, R, 'R09.12')

    # ---- R09.9
    R.rule('R09.9', 'preparing a context leaves the context it was given (dict or Context object) as it was: the caller can build the next config from it', floor=1)
    fpc = ctxc.lookup('prepare_context')
    R.require(fpc is not None and fpc.params, 'anchor: Context.prepare_context missing')
    muts, owned = owned_mutations(A, fpc, [fpc.params[0]])
    R.check(not muts, 'R09.9', 'Context.prepare_context: the given context', key_of('context-mutated', sorted({w for _, _, w in muts})), f'no store / delete / mutating call on {sorted(owned)}',
            f'the context passed in is modified ({"; ".join(sorted({w for _, _, w in muts}))[:300]}): the second config built from the same context (MultiChain.from_dir passes one context to every Config) sees other values than the first',
            where=where(fpc, muts[0][1]) if muts else where(fpc))


    # ---- R09.10
    R.rule('R09.10', 'building a chain does not read-modify-write attributes of the Config objects it was given (a second chain from the same configs composes the same namespaces)', floor=1)
    fproc = A.cls('Chain').lookup('_process_config')
    R.require(fproc is not None and len(fproc.params) >= 2, 'anchor: Chain._process_config missing')
    muts10, owned10 = owned_mutations(A, fproc, [fproc.params[1]])
    rmw = {}
    for _, n, what in muts10:
        tg = (n.targets if isinstance(n, ast.Assign) else [n.target]) if isinstance(n, (ast.Assign, ast.AugAssign, ast.AnnAssign)) else []
        for t_ in tg:
            if isinstance(t_, ast.Attribute):
                # the same attribute of the same object is read in this function (in the stored value or in a test that selects the store)
                reads = [x for x in A.typer.own_nodes(fproc) if isinstance(x, ast.Attribute) and isinstance(x.ctx, ast.Load) and x.attr == t_.attr and src(x.value) == src(t_.value)]
                if reads or isinstance(n, ast.AugAssign):
                    rmw.setdefault(src(t_), []).append(n)
    R.check(not rmw, 'R09.10', 'Chain._process_config: Config objects in `uses`', key_of('config-rmw', sorted(rmw)), 'no attribute of a given Config is updated from its own previous value',
            f'{sorted(rmw)} of a Config object listed in `uses` is updated from its own previous value: every chain built from the same Config objects composes the namespace once more (o::x, then o::o::x), so the second chain mounts the used config under another namespace',
            where=where(fproc, next(iter(rmw.values()))[0]) if rmw else where(fproc))


def _parents(n):
    p = getattr(n, '_parent', None)
    while p is not None and not isinstance(p, (ast.FunctionDef, ast.AsyncFunctionDef)):
        yield p
        p = getattr(p, '_parent', None)
